"""E3 + E4: templates as code. Jinja ASTs are interpreted over the AV domain; nothing is rendered.

Facts produced:
  emissions   every hole of every output expression / fragment with the lexical state of the generated language
              at that point, its labels and its origin (C05, C09.2, C19)
  dispatches  every call through a dynamically imported property template with the templates that lack the macro
              (C06 R06.3), iterations over unordered collections (C12), config reads (C16), ...
"""
from __future__ import annotations

import ast
from dataclasses import dataclass, field, replace
from pathlib import Path
from typing import Any

from jinja2 import Environment, nodes

from . import lexstate as LX
from .absint import Interp
from .core import PKG, AnalysisError
from .domain import (AV, BOTTOM, CONST, IDENT, NUM, PYREPR, RAW, UNKNOWN, WORD, Part, as_parts, canon_alts, concat,
                     join, join_all, join_keep, lit, map_labels, num, typed)
from .pyindex import PyIndex, dotted

LAYOUT_FILTERS = {"indent", "trim", "wordwrap", "center", "truncate", "striptags", "safe", "e", "escape"}


@dataclass
class TemplateInfo:
    name: str
    path: Path
    src: str
    tree: nodes.Template
    lang: str
    macros: dict[str, nodes.Macro] = field(default_factory=dict)
    canon: dict = field(default_factory=dict)


@dataclass
class Emission:
    template: str
    macro: str
    expr: str
    ordinal: int
    line: int
    state: str
    kind: str
    labels: frozenset[str]
    hole: str
    origin: str
    flow: str = ""
    follow_ok: bool = True   # the literal text right after the hole does not start with the string's quote char
    facts: frozenset[str] = frozenset()

    @property
    def site(self) -> str:
        return f"{self.template}::{self.macro}::{self.expr}#{self.ordinal}"


@dataclass
class Dispatch:
    template: str
    macro: str
    line: int
    alias: str
    attr: str
    missing_in: tuple[str, ...]
    candidates: tuple[str, ...]
    expr: str


@dataclass
class Iteration:
    template: str
    macro: str
    line: int
    expr: str
    types: frozenset[str]
    sorted_: bool
    kind: str  # for | join | list ...


class JinjaIndex:
    def __init__(self, ix: PyIndex):
        self.ix = ix
        self.tdir = ix.pkg_dir / "templates"
        if not self.tdir.is_dir():
            raise AnalysisError("templates directory not found")
        self.env_options = self._env_options()
        self.env = Environment(**self.env_options)
        self.templates: dict[str, TemplateInfo] = {}
        parsed: dict[str, tuple[Path, str, nodes.Template]] = {}
        for p in sorted(self.tdir.rglob("*")):
            if not p.is_file() or p.suffix != ".jinja":
                continue
            name = str(p.relative_to(self.tdir))
            src = p.read_text(encoding="utf-8")
            try:
                tree = self.env.parse(src, name=name, filename=str(p))
            except Exception as e:  # noqa: BLE001
                raise AnalysisError(f"cannot parse template {name}: {e}") from e
            parsed[name] = (p, src, tree)
        # template inheritance: a child (`{% extends "parent" %}`) renders as the parent's layout with the child's blocks in place of the
        # parent's, after the child's own top-level statements (sets, imports, macros) have run.  The child's tree is replaced by that
        # flattened program before anything reads it, so every engine sees what is rendered under the child's name.
        self.extends: dict[str, str] = {}
        import copy as _copy

        self._as_written = {n: _copy.deepcopy(v[2]) for n, v in parsed.items() if any(True for _ in v[2].find_all(nodes.Block))}
        flat: dict[str, nodes.Template] = {}
        for name in parsed:
            flat[name] = self._flatten(name, parsed, set())
        for name, (p, src, _tree) in parsed.items():
            tree = flat[name]
            # template-bound variables are renamed to role names in the AST (sa/jinja_canon.py): nothing downstream depends on
            # how a template spells its own loop / set variables
            from .jinja_canon import canonicalise

            try:
                canon = canonicalise(tree)
            except Exception as e:  # noqa: BLE001
                raise AnalysisError(f"cannot canonicalise template {name}: {type(e).__name__}: {e}") from e
            ti = TemplateInfo(name, p, src, tree, LX.language_of(name))
            ti.canon = canon
            for m in tree.find_all(nodes.Macro):
                ti.macros[m.name] = m
            self.templates[name] = ti
        # the language of a template's text is that of the file it ends up in: a template whose own name says nothing (a macro library,
        # a partial, a layout: `x.jinja`) is written in the language of the templates that import / include / extend it
        users: dict[str, set[str]] = {}
        for name, ti in self.templates.items():
            for n in ti.tree.find_all((nodes.Import, nodes.FromImport, nodes.Include, nodes.Extends)):
                t = n.template
                if isinstance(t, nodes.Const) and isinstance(t.value, str) and t.value in self.templates:
                    users.setdefault(t.value, set()).add(name)
            if name in self.extends:
                users.setdefault(self.extends[name], set()).add(name)
        for _ in range(len(self.templates)):
            moved = False
            for name, ti in self.templates.items():
                if ti.lang != "inert":
                    continue
                langs = {self.templates[u].lang for u in users.get(name, ())} - {"inert"}
                if len(langs) == 1:
                    ti.lang = langs.pop()
                    moved = True
            if not moved:
                break

    def _flatten(self, name: str, parsed: dict[str, Any], seen: set[str]) -> nodes.Template:
        import copy

        tree = parsed[name][2]
        ext = [n for n in tree.body if isinstance(n, nodes.Extends)]
        if any(isinstance(n, nodes.Extends) for n in tree.find_all(nodes.Extends)) and not ext:
            raise AnalysisError(f"template {name}: `extends` below the top level is outside the supported subset")

        def splice(body: list[nodes.Node], blocks: dict[str, nodes.Block]) -> list[nodes.Node]:
            """body with every block replaced by the statements that are rendered in its place"""
            out: list[nodes.Node] = []
            for n in body:
                if isinstance(n, nodes.Block):
                    chosen = blocks.get(n.name, n)
                    for c in chosen.find_all(nodes.Call):
                        if isinstance(c.node, nodes.Name) and c.node.name == "super":
                            raise AnalysisError(f"template {name}: super() in block {n.name} is outside the supported subset")
                    out.extend(splice(copy.deepcopy(chosen.body) if chosen is not n else chosen.body, blocks))
                    continue
                for fld in ("body", "else_"):
                    sub = getattr(n, fld, None)
                    if isinstance(sub, list) and sub and all(isinstance(x, nodes.Node) for x in sub):
                        setattr(n, fld, splice(sub, blocks))
                for el in getattr(n, "elif_", []) or []:
                    el.body = splice(el.body, blocks)
                out.append(n)
            return out

        if not ext:
            tree.body = splice(tree.body, {})
            return tree
        parent = ext[0].template
        if len(ext) != 1 or not isinstance(parent, nodes.Const) or parent.value not in parsed:
            raise AnalysisError(f"template {name}: cannot resolve the template it extends")
        if name in seen:
            raise AnalysisError(f"template {name}: inheritance cycle")
        self.extends[name] = parent.value
        base = copy.deepcopy(self._flatten_source(parent.value, parsed, seen | {name}))
        own_blocks = {b.name: b for b in tree.find_all(nodes.Block)}
        # outside blocks a child prints nothing; its top-level statements that bind names run before the layout
        prelude = [n for n in tree.body if isinstance(n, (nodes.Assign, nodes.AssignBlock, nodes.Import, nodes.FromImport, nodes.Macro))]
        tree.body = prelude + splice(base.body, own_blocks)
        return tree

    def _flatten_source(self, name: str, parsed: dict[str, Any], seen: set[str]) -> nodes.Template:
        """the parent as written (blocks still in place, its own parent's layout resolved)"""
        import copy

        tree = copy.deepcopy(self._as_written.get(name, parsed[name][2]))
        ext = [n for n in tree.body if isinstance(n, nodes.Extends)]
        if not ext:
            return tree
        parent = ext[0].template
        if not isinstance(parent, nodes.Const) or parent.value not in parsed or name in seen:
            raise AnalysisError(f"template {name}: cannot resolve the template it extends")
        base = self._flatten_source(parent.value, parsed, seen | {name})
        own = {b.name: b for b in tree.find_all(nodes.Block)}

        def swap(body: list[nodes.Node]) -> list[nodes.Node]:
            out = []
            for n in body:
                if isinstance(n, nodes.Block) and n.name in own:
                    out.append(own[n.name])
                    continue
                for fld in ("body", "else_"):
                    sub = getattr(n, fld, None)
                    if isinstance(sub, list) and sub and all(isinstance(x, nodes.Node) for x in sub):
                        setattr(n, fld, swap(sub))
                out.append(n)
            return out

        prelude = [n for n in tree.body if isinstance(n, (nodes.Assign, nodes.AssignBlock, nodes.Import, nodes.FromImport, nodes.Macro))]
        tree.body = prelude + swap(base.body)
        return tree

    def _env_options(self) -> dict[str, Any]:
        """Read the Environment(...) options from the AST of Project.__init__ (nothing is imported)."""
        proj = self.ix.cls("Project")
        init = proj.methods.get("__init__")
        if init is None:
            raise AnalysisError("Project.__init__ not found")
        # the construction may sit in __init__ or in a helper of its module (a factory function): look at __init__ first, then at
        # every function of the module that defines Project
        places = [init] + [f for f in self.ix.all_functions if f.module is proj.module and f is not init]
        for n in [x for f in places for x in ast.walk(f.node)]:
            if isinstance(n, ast.Call) and (dotted(n.func) or "").rsplit(".", 1)[-1] == "Environment":
                opts: dict[str, Any] = {}
                for kw in n.keywords:
                    if kw.arg in ("trim_blocks", "lstrip_blocks", "keep_trailing_newline", "extensions", "autoescape"):
                        try:
                            opts[kw.arg] = ast.literal_eval(kw.value)
                        except Exception as e:  # noqa: BLE001
                            raise AnalysisError(f"Environment option {kw.arg} is not a literal") from e
                return opts
        raise AnalysisError("jinja2 Environment construction not found in the module that defines Project")


def apply_facts(labels: frozenset[str], facts: frozenset[str]) -> frozenset[str]:
    """FACT:nb (the text contains no backslash at all): every escaping also 'neutralises' the backslash."""
    if "FACT:nb" not in facts:
        return labels
    out = set()
    for l in labels:
        if l.startswith("ESC:"):
            out.add("ESC:" + "".join(sorted(set(l[4:]) | {"\\"})))
        elif l == RAW:
            out.add("RAW_NB")
        else:
            out.add(l)
    return frozenset(out)


def add_fact(v: AV, fact: str) -> AV:
    facts = frozenset({fact})
    new_alts = None
    if v.alts is not None:
        new_alts = frozenset(
            tuple(Part("macro", p.text, p.labels | facts) if p.kind == "macro" else
                  (Part("hole", p.text, apply_facts(p.labels, facts), p.origin) if p.kind == "hole" else p) for p in alt)
            for alt in v.alts)
    return replace(v, labels=apply_facts(v.labels, facts), alts=new_alts)


def expr_text(n: nodes.Node) -> str:
    """Normalised text of a Jinja expression (key material, independent of layout)."""
    if isinstance(n, nodes.Name):
        return n.name
    if isinstance(n, nodes.Const):
        return repr(n.value)
    if isinstance(n, nodes.TemplateData):
        return repr(n.data)
    if isinstance(n, nodes.Getattr):
        return f"{expr_text(n.node)}.{n.attr}"
    if isinstance(n, nodes.Getitem):
        return f"{expr_text(n.node)}[{expr_text(n.arg)}]"
    if isinstance(n, nodes.Call):
        args = [expr_text(a) for a in n.args] + [f"{k.key}={expr_text(k.value)}" for k in n.kwargs]
        return f"{expr_text(n.node)}({', '.join(args)})"
    if isinstance(n, nodes.Filter):
        args = [expr_text(a) for a in n.args] + [f"{k.key}={expr_text(k.value)}" for k in n.kwargs]
        base = expr_text(n.node) if n.node is not None else ""
        return f"{base}|{n.name}" + (f"({', '.join(args)})" if args else "")
    if isinstance(n, nodes.Test):
        args = [expr_text(a) for a in n.args]
        return f"{expr_text(n.node)} is {n.name}" + (f"({', '.join(args)})" if args else "")
    if isinstance(n, nodes.BinExpr):
        return f"({expr_text(n.left)} {n.operator} {expr_text(n.right)})"
    if isinstance(n, nodes.Concat):
        return "(" + " ~ ".join(expr_text(x) for x in n.nodes) + ")"
    if isinstance(n, nodes.UnaryExpr):
        return f"({n.operator} {expr_text(n.node)})"
    if isinstance(n, nodes.Compare):
        return expr_text(n.expr) + "".join(f" {o.op} {expr_text(o.expr)}" for o in n.ops)
    if isinstance(n, nodes.CondExpr):
        return f"({expr_text(n.expr1)} if {expr_text(n.test)} else {expr_text(n.expr2) if n.expr2 is not None else ''})"
    if isinstance(n, (nodes.List, nodes.Tuple)):
        return "[" + ", ".join(expr_text(x) for x in n.items) + "]"
    if isinstance(n, nodes.Dict):
        return "{" + ", ".join(f"{expr_text(p.key)}: {expr_text(p.value)}" for p in n.items) + "}"
    if isinstance(n, nodes.Keyword):
        return f"{n.key}={expr_text(n.value)}"
    if isinstance(n, nodes.NSRef):
        return f"{n.name}.{n.attr}"
    return type(n).__name__


class JinjaInterp:
    def __init__(self, jx: JinjaIndex, py: Interp):
        self.jx = jx
        self.py = py
        self.ix = py.ix
        self.macro_params: dict[tuple[str, str, str], AV] = {}
        self.macro_labels: dict[tuple[str, str], frozenset[str]] = {}
        self.macro_ctx: dict[tuple[str, str], set[str]] = {}
        self.emissions: dict[tuple, Emission] = {}
        self.dispatches: dict[tuple, Dispatch] = {}
        self.iterations: dict[tuple, Iteration] = {}
        self.neutrality: dict[tuple, str] = {}
        self.undefined_names: dict[tuple, str] = {}
        self.attr_reads: dict[tuple, tuple[str, str, int, frozenset[str]]] = {}  # (tpl, macro, expr) -> ...
        self.newline_filters: dict[tuple, tuple[str, str, int, str, str]] = {}
        self.unsupported: dict[str, int] = {}
        # boolean formulas that hold at the statement being interpreted: enclosing `if` / `elif` / `else` arms, loop filters, and the
        # negation of earlier arms of the same block that ended in `continue` / `break`; used to decide, per candidate template of an
        # import alias, whether a call through the alias can be reached at all (dispatch totality)
        self.guards: list[tuple] = []
        self.blocks: dict[str, tuple] = {}   # deferred `{% set x %}...{% endset %}` captures: id -> (node, env, template, macro)
        self.changed = False
        self._dry = 0                        # >0 while a captured block is walked at its definition (labels only)
        self.dry_ctx: dict[tuple[str, str], set] = {}   # macro contexts seen only in dry passes
        self.globals: dict[str, AV] = {}
        self.render_kwargs: dict[str, dict[str, AV]] = {}
        self.template_globals: dict[str, dict[str, AV]] = {}
        self.render_sites: dict[str, list[str]] = {}
        self.filters: dict[str, AV] = {}
        self.cur_t: TemplateInfo | None = None
        self.cur_macro: str = "<top>"
        self.cur_facts: frozenset[str] = frozenset()
        self.ordinals: dict[tuple, int] = {}
        self.block_args: dict[tuple, AV] = {}   # (block id, position | name) -> what `caller(...)` is given
        self.top_states: dict[str, str] = {}
        self._collect_bridge()

    # ------------------------------------------------------------------ bridge to Python
    def _collect_bridge(self) -> None:
        """Environment globals, filters and per-render variables, read from the Python side (E4)."""
        py, ix = self.py, self.ix
        proj = ix.cls("Project")
        self.globals.clear()
        # Project's methods and the module-level helpers next to it (an environment factory, a writer helper)
        bridge_funcs = list(proj.methods.values()) + [g for g in ix.all_functions if g.module is proj.module and g.cls is None and g.parent is None]
        for f in bridge_funcs:
            saved = (py.cur, py.cur_mod)
            py.cur, py.cur_mod = f, f.module
            try:
                env = py._param_env(f, None)
                _, final = py._run_body(f, env)
                tpl_vars: dict[str, set[str]] = {}
                for n in ast.walk(f.node):
                    if isinstance(n, ast.Assign) and len(n.targets) == 1 and isinstance(n.targets[0], ast.Name) \
                            and isinstance(n.value, ast.Call) and (dotted(n.value.func) or "").endswith("get_template"):
                        nm = py.ev(n.value.args[0], final) if n.value.args else BOTTOM
                        names = py.str_consts(nm)
                        if not names:
                            if any(kw.arg == "globals" for kw in n.value.keywords):
                                raise AnalysisError(f"get_template(..., globals=...) with a name that cannot be enumerated at {f.module.rel}:{n.lineno}")
                            continue  # which templates are rendered is taken from the interpreter's render log below
                        tpl_vars.setdefault(n.targets[0].id, set()).update(names)
                        for kw in n.value.keywords:
                            if kw.arg == "globals" and isinstance(kw.value, ast.Dict):
                                for k, v in zip(kw.value.keys, kw.value.values):
                                    if isinstance(k, ast.Constant):
                                        for name in names:
                                            d = self.template_globals.setdefault(name, {})
                                            d[k.value] = join(d.get(k.value), py.ev(v, final))
                for n in ast.walk(f.node):
                    if not isinstance(n, ast.Call) or not isinstance(n.func, ast.Attribute):
                        continue
                    d_ = dotted(n.func) or ""
                    if n.func.attr == "render" and isinstance(n.func.value, ast.Name) and n.func.value.id in tpl_vars:
                        pass  # per-render variables come from the interpreter's render log (narrowed at the call site)
                    elif d_.endswith(".globals.update"):
                        for k in n.keywords:
                            if k.arg:
                                self.globals[k.arg] = join(self.globals.get(k.arg), py.ev(k.value, final))
                        # update({...}) / update(d) with d a local bound to a dict literal
                        from .astutil import Locals as _Locals

                        for a in n.args:
                            dicts = [a] if isinstance(a, ast.Dict) else [v for v in _Locals(f.node).values_of(a.id)
                                                                         if isinstance(v, ast.Dict)] if isinstance(a, ast.Name) else []
                            for dct in dicts:
                                for k_, v_ in zip(dct.keys, dct.values):
                                    if isinstance(k_, ast.Constant) and isinstance(k_.value, str):
                                        self.globals[k_.value] = join(self.globals.get(k_.value), py.ev(v_, final))
                    elif d_.endswith(".filters.update"):
                        for a in n.args:
                            r = ix.resolve(f.module, dotted(a) or "")
                            if r and r[0] == "var":
                                mod, nme = r[1]
                                val = mod.variables[nme]
                                if isinstance(val, ast.Dict):
                                    for k, v in zip(val.keys, val.values):
                                        if isinstance(k, ast.Constant):
                                            self.filters[k.value] = py.eval_in_module(mod, v)
            finally:
                py.cur, py.cur_mod = saved
        if "<non-constant template name>" in py.render_log:
            raise AnalysisError("a template is loaded/rendered under a name that cannot be enumerated")
        for name, kw in py.render_log.items():
            self.render_kwargs[name] = dict(kw)
            self.render_sites[name] = list(py.render_where.get(name, []))
        if not self.globals or not self.render_kwargs:
            raise AnalysisError("environment globals / render call sites not found in Project")

    # ------------------------------------------------------------------ driver
    def run(self, max_rounds: int = 10) -> int:
        """Interpret every rendered template (and every macro in every context it is emitted in) to a fixpoint."""
        rounds = 0
        for _ in range(max_rounds):
            rounds += 1
            self.changed = False
            self.ordinals.clear()
            for name in sorted(self.render_kwargs):
                ti = self.jx.templates.get(name)
                if ti is None:
                    raise AnalysisError(f"rendered template {name} not found")
                self.run_template(ti)
            # macros, in every lexical context their result is emitted in
            for key in sorted(self.macro_ctx):
                for st, facts in sorted(self.macro_ctx[key], key=lambda x: (x[0], sorted(x[1]))):
                    self.run_macro(key, st, facts)
            if not self.changed:
                # a macro whose output only ever lands in a captured block that is used as an opaque string (never emitted in
                # place) has no lexical context of its own: interpret it where the capture saw it, for its labels
                orphans = [k for k in sorted(self.dry_ctx) if not self.macro_ctx.get(k)]
                if not orphans:
                    return rounds
                for k in orphans:
                    self.macro_ctx.setdefault(k, set()).update(self.dry_ctx[k])
        raise AnalysisError("template interpretation did not converge")

    def _set(self, table: dict, key: Any, val: AV) -> None:
        old = table.get(key)
        new = join_keep(old, val)
        if old is None or new != old:
            table[key] = new
            self.changed = True

    def base_env(self, ti: TemplateInfo, top: str | None = None) -> dict[str, AV]:
        env = dict(self.globals)
        env.update(self.template_globals.get(top or ti.name, {}))
        for tg in self.template_globals.values():  # macros imported into a template with extra globals see them too
            for k, v in tg.items():
                env.setdefault(k, v)
        env.update(self.render_kwargs.get(top or ti.name, {}))
        return env

    def run_template(self, ti: TemplateInfo) -> None:
        saved = (self.cur_t, self.cur_macro)
        self.cur_t, self.cur_macro = ti, "<top>"
        try:
            env = self.base_env(ti)
            st = LX.start_state(ti.lang)
            end = self.block(ti.tree.body, env, st)
            self.top_states[ti.name] = end
            if end not in (LX.CODE, LX.INERT, LX.COMMENT):
                self.neutrality[(ti.name, "<top>", "end")] = f"template ends in lexical state {end}"
        finally:
            self.cur_t, self.cur_macro = saved

    def run_macro(self, key: tuple[str, str], state: str, facts: frozenset[str] = frozenset()) -> None:
        tname, mname = key
        ti = self.jx.templates[tname]
        m = ti.macros.get(mname)
        if m is None:
            return
        saved = (self.cur_t, self.cur_macro, self.cur_facts)
        self.cur_t, self.cur_macro, self.cur_facts = ti, mname, facts
        try:
            env = {}
            # a macro sees the globals, and the top-level imports / sets of its own template
            env.update(self.globals)
            for tg in self.template_globals.values():
                env.update(tg)
            env.update(self.render_kwargs.get(tname, {}))
            self._toplevel_bindings(ti, env)
            defaults = list(m.defaults)
            nd = len(defaults)
            for i, a in enumerate(m.args):
                v = self.macro_params.get((tname, mname, a.name), BOTTOM)
                j = i - (len(m.args) - nd)
                if j >= 0:
                    v = join(v, self.ev(defaults[j], env))
                env[a.name] = v
            if (tname, mname, "caller") in self.macro_params:
                env["caller"] = self.macro_params[(tname, mname, "caller")]
            before = len(self.emissions)
            labels_before = self.macro_labels.get(key, frozenset())
            self._macro_label_acc = set(labels_before)
            saved_guards, self.guards = self.guards, []
            try:
                end = self.block(m.body, env, state)
            finally:
                self.guards = saved_guards
            if end != state:
                self.neutrality[(tname, mname, state)] = f"macro body entered in {state} ends in {end}"
            new_labels = frozenset(self._macro_label_acc)
            if new_labels != labels_before:
                self.macro_labels[key] = new_labels
                self.changed = True
        finally:
            self.cur_t, self.cur_macro, self.cur_facts = saved

    def _toplevel_bindings(self, ti: TemplateInfo, env: dict[str, AV]) -> None:
        for n in ti.tree.body:
            if isinstance(n, nodes.Macro):
                env[n.name] = AV(funcs=frozenset({("macro", ti.name, n.name)}))
            elif isinstance(n, (nodes.FromImport, nodes.Import)):
                self.stmt(n, env, LX.CODE)
            elif isinstance(n, nodes.Assign):
                self.assign_target(n.target, self.ev(n.node, env), env)
            elif isinstance(n, nodes.If):
                # top-level conditional `set`s (e.g. additional_property_type)
                for sub in [x for x in n.body if isinstance(x, nodes.Assign)]:
                    t_env, _ = self.narrow(n.test, env)
                    old = env.get(sub.target.name) if isinstance(sub.target, nodes.Name) else None
                    self.assign_target(sub.target, self.ev(sub.node, t_env), env)
                    if old is not None and isinstance(sub.target, nodes.Name):
                        env[sub.target.name] = join(old, env[sub.target.name])

    # ------------------------------------------------------------------ statements
    def block(self, body: list[nodes.Node], env: dict[str, AV], state: str) -> str:
        n0 = len(self.guards)
        try:
            for bi, n in enumerate(body):
                forked = self._fork_on_lexical_choice(n, body[bi + 1:], env, state) if isinstance(n, nodes.Output) else None
                if forked is not None:
                    # `{{ 'r' if c else '' }}""" ... """`: the two constants leave different lexical states, so what follows is read
                    # once per alternative, under the condition that selects it (the same paths as `{% if c %}r"""...{% else %}"""...`)
                    return self.stmt(forked, env, state)
                state = self.stmt(n, env, state)
                if isinstance(n, nodes.If):
                    # arms that end in continue / break do not reach the rest of this block: their conditions are false from here on
                    tests = [n.test] + [el.test for el in n.elif_]
                    arms = [n.body] + [el.body for el in n.elif_] + ([n.else_] if n.else_ else [])
                    for i, arm in enumerate(arms):
                        if any(isinstance(x, (nodes.Continue, nodes.Break)) for x in arm):
                            cond = ("and", [("not", ("node", t)) for t in tests[:i]] + ([("node", tests[i])] if i < len(tests) else []))
                            self.guards.append(("not", cond))
        finally:
            del self.guards[n0:]
        return state

    def _fork_on_lexical_choice(self, out: nodes.Output, rest: list[nodes.Node], env: dict[str, AV], state: str) -> nodes.If | None:
        """An output that contains an inline conditional between two string constants which put the lexer into different states
        (a string prefix, a quote) is rewritten as the equivalent `if` around the remainder of the enclosing block; None when
        there is no such conditional.  The rewriting is cached per node so that node identities (hole ordinals) are stable."""
        import copy

        ti = self.cur_t
        assert ti is not None
        cands = [j for j, c in enumerate(out.nodes) if isinstance(c, nodes.CondExpr) and isinstance(c.expr1, nodes.Const)
                 and isinstance(c.expr1.value, str) and (c.expr2 is None or (isinstance(c.expr2, nodes.Const) and isinstance(c.expr2.value, str)))]
        if not cands:
            return None
        cache = self.__dict__.setdefault("_fork_cache", {})
        # lexical state in front of each candidate: a dry walk of the children before it
        st = state
        self._dry += 1
        saved_neutrality = dict(self.neutrality)
        try:
            for j, child in enumerate(out.nodes):
                if j in cands:
                    a = child.expr1.value
                    b = child.expr2.value if child.expr2 is not None else ""
                    # the literal text that follows is read together with the constant (a string prefix counts only next to its quote)
                    nxt = out.nodes[j + 1] if j + 1 < len(out.nodes) and isinstance(out.nodes[j + 1], nodes.TemplateData) else None
                    lit = nxt.data if nxt is not None else ""
                    tail = list(out.nodes[j + (2 if nxt is not None else 1):])
                    if LX.feed(ti.lang, st, a + lit) != LX.feed(ti.lang, st, b + lit):
                        key = (id(out), j)
                        if key not in cache:
                            mk = lambda text, tl: nodes.Output(list(out.nodes[:j]) + [nodes.TemplateData(text + lit, lineno=out.lineno)] + tl,  # noqa: E731
                                                               lineno=out.lineno)
                            cache[key] = nodes.If(child.test, [mk(a, tail)] + list(rest), [],
                                                  [mk(b, copy.deepcopy(tail))] + copy.deepcopy(list(rest)), lineno=out.lineno)
                        return cache[key]
                if isinstance(child, nodes.TemplateData):
                    st = LX.feed(ti.lang, st, child.data)
                else:
                    st = self.emit(child, self.ev(child, dict(env)), st, None)
        finally:
            self._dry -= 1
            self.neutrality.clear()
            self.neutrality.update(saved_neutrality)
        return None

    # ---- guards as boolean formulas --------------------------------------------------------------------------------------------
    @staticmethod
    def _atoms(f: tuple, out: dict[str, nodes.Node]) -> None:
        k = f[0]
        if k == "node":
            n = f[1]
            if isinstance(n, nodes.Not):
                JinjaInterp._atoms(("node", n.node), out)
            elif isinstance(n, (nodes.And, nodes.Or)):
                JinjaInterp._atoms(("node", n.left), out)
                JinjaInterp._atoms(("node", n.right), out)
            else:
                out.setdefault(expr_text(n), n)
        elif k == "not":
            JinjaInterp._atoms(f[1], out)
        else:
            for g in f[1]:
                JinjaInterp._atoms(g, out)

    @staticmethod
    def _holds(f: tuple, asg: dict[str, bool]) -> bool:
        k = f[0]
        if k == "node":
            n = f[1]
            if isinstance(n, nodes.Not):
                return not JinjaInterp._holds(("node", n.node), asg)
            if isinstance(n, nodes.And):
                return JinjaInterp._holds(("node", n.left), asg) and JinjaInterp._holds(("node", n.right), asg)
            if isinstance(n, nodes.Or):
                return JinjaInterp._holds(("node", n.left), asg) or JinjaInterp._holds(("node", n.right), asg)
            return asg[expr_text(n)]
        if k == "not":
            return not JinjaInterp._holds(f[1], asg)
        if k == "and":
            return all(JinjaInterp._holds(g, asg) for g in f[1])
        return any(JinjaInterp._holds(g, asg) for g in f[1])

    def reachable_with(self, alias: str, template: str) -> bool:
        """can the current statement be reached when import alias `alias` denotes `template`?  Atoms `alias.X` (and set variables
        defined as `alias.X`, which read `(alias.X)` after canonicalisation) are decided by whether the template defines macro X;
        all other atoms are free.  True unless the guards are unsatisfiable (at most 2^10 assignments; beyond that: True)."""
        atoms: dict[str, nodes.Node] = {}
        for g in self.guards:
            self._atoms(g, atoms)
        known: dict[str, bool] = {}
        macros = self.jx.templates[template].macros
        for text in atoms:
            t = text[1:-1] if text.startswith("(") and text.endswith(")") else text
            if t.startswith(alias + ".") and t[len(alias) + 1:].isidentifier():
                known[text] = t[len(alias) + 1:] in macros
        free = [a for a in atoms if a not in known]
        if len(free) > 10:
            return True
        import itertools

        for vals in itertools.product([False, True], repeat=len(free)):
            asg = dict(known)
            asg.update(zip(free, vals))
            if all(self._holds(g, asg) for g in self.guards):
                return True
        return False

    def stmt(self, n: nodes.Node, env: dict[str, AV], state: str) -> str:
        ti = self.cur_t
        assert ti is not None
        if isinstance(n, nodes.Output):
            for i, child in enumerate(n.nodes):
                if isinstance(child, nodes.TemplateData):
                    state = LX.feed(ti.lang, state, child.data)
                else:
                    v = self.ev(child, env)
                    nxt = n.nodes[i + 1] if i + 1 < len(n.nodes) else None
                    follow = nxt.data[:1] if isinstance(nxt, nodes.TemplateData) and nxt.data else None
                    state = self.emit(child, v, state, follow)
            return state
        if isinstance(n, nodes.If):
            t_env, f_env = self.narrow(n.test, env)
            self.ev_truth(n.test, env)
            ends = []
            e1 = dict(t_env)
            g0 = len(self.guards)
            self.guards.append(("node", n.test))
            if self._definedness(n.test, env) is False and not n.elif_:
                # `{% if NAME is defined %}` with NAME bound nowhere on the way here: the branch is not rendered
                ends.append(state)
            else:
                ends.append(self.block(n.body, e1, state))
            del self.guards[g0:]
            envs = [e1]
            cur_f = f_env
            negs = [("not", ("node", n.test))]
            for el in n.elif_:
                self.ev_truth(el.test, cur_f)
                t2, f2 = self.narrow(el.test, cur_f)
                e2 = dict(t2)
                self.guards += negs + [("node", el.test)]
                ends.append(self.block(el.body, e2, state))
                del self.guards[g0:]
                envs.append(e2)
                cur_f = f2
                negs.append(("not", ("node", el.test)))
            e3 = dict(cur_f)
            self.guards += negs
            ends.append(self.block(n.else_, e3, state) if n.else_ else state)
            del self.guards[g0:]
            envs.append(e3)
            if len(set(ends)) > 1:
                self.neutrality[(ti.name, self.cur_macro, f"if {expr_text(n.test)}")] = \
                    f"branches of `if {expr_text(n.test)}` (line {n.lineno}) leave different lexical states {sorted(set(ends))}"
            # early exit idiom: `{% if not alias.macro %} ... {% continue %}{% endif %}` - only the fall-through arms flow on
            exits = [any(isinstance(x, (nodes.Continue, nodes.Break)) for x in n.body)] + \
                [any(isinstance(x, (nodes.Continue, nodes.Break)) for x in el.body) for el in n.elif_] + \
                [any(isinstance(x, (nodes.Continue, nodes.Break)) for x in n.else_) if n.else_ else False]
            live = [e for e, ex in zip(envs, exits) if not ex] or envs
            for k in set().union(*[set(e) for e in live]):
                vals = [e.get(k) for e in live if k in e]
                env[k] = join_all(vals)
            return ends[0]
        if isinstance(n, nodes.For):
            it = self.ev(n.iter, env)
            self.note_iteration(n.iter, it, "for", n.lineno)
            elem = self.py.elem_of(it)
            cur = dict(env)
            end = state
            for _ in range(2):
                e2 = dict(cur)
                self.assign_target(n.target, elem, e2)
                e2["loop"] = AV(types=frozenset({"loop"}))
                g1 = len(self.guards)
                if n.test is not None:
                    self.ev(n.test, e2)
                    self.guards.append(("node", n.test))
                end = self.block(n.body, e2, state)
                del self.guards[g1:]
                # namespace-style and outer `set`s do not leak out of a jinja for-loop, but joins are harmless
                for k, v in e2.items():
                    if k in cur and k not in ("loop",):
                        cur[k] = join(cur[k], v)
            if end != state:
                self.neutrality[(ti.name, self.cur_macro, f"for {expr_text(n.iter)}")] = \
                    f"body of `for ... in {expr_text(n.iter)}` (line {n.lineno}) entered in {state} ends in {end}"
            if n.else_:
                self.block(n.else_, dict(cur), state)
            env.update(cur)
            return state
        if isinstance(n, nodes.Macro):
            env[n.name] = AV(funcs=frozenset({("macro", ti.name, n.name)}))
            return state
        if isinstance(n, nodes.Assign):
            v = self.ev(n.node, env)
            self.assign_target(n.target, v, env)
            return state
        if isinstance(n, nodes.AssignBlock):
            # `{% set x %}...{% endset %}` captures output.  The capture is kept as a deferred block: wherever `{{ x }}` is emitted the
            # body is interpreted there, in the lexical state of that place and with the environment of the definition (the body's own
            # `set`s and macro calls have no other effect than their output).  Any other use of x (filters, tests, concatenation) sees an
            # opaque string that carries the labels the body can emit.
            bid = f"{ti.name}:{self.cur_macro}:{n.lineno}"
            self.blocks[bid] = (n, dict(env), ti, self.cur_macro)
            if n.filter is not None:
                self.block(n.body, dict(env), LX.start_state(ti.lang))
                self.assign_target(n.target, typed("str", labels=[UNKNOWN]), env)
                self.unsupported["AssignBlock|filter"] = self.unsupported.get("AssignBlock|filter", 0) + 1
                return state
            # at the definition the body is only walked for the labels it can emit (a dry pass: nothing is emitted here, so no
            # emission and no macro context is recorded - the lexical state of the definition site is not where the text lands)
            acc: set[str] = set()
            saved_acc = getattr(self, "_macro_label_acc", None)
            self._macro_label_acc = acc
            self._dry += 1
            saved_neutrality = dict(self.neutrality)
            try:
                self.block(n.body, dict(env), LX.start_state(ti.lang))
            finally:
                self._dry -= 1
                self._macro_label_acc = saved_acc
                self.neutrality.clear()
                self.neutrality.update(saved_neutrality)  # lexical neutrality is judged where the capture is emitted
            self.assign_target(n.target, AV(types=frozenset({"str"}), labels=frozenset(acc), funcs=frozenset({("block", bid)})), env)
            return state
        if isinstance(n, nodes.Import):
            tv = self.ev(n.template, env)
            names = self.const_strings(tv)
            if not names:
                # `"dir/" + X.template` where the interpreter lost track of what X is (a value that travelled through a call block,
                # a namespace list, ...): X.template is the `template` class variable of some property kind - every kind's template
                # under that directory is a candidate (what narrows the candidates elsewhere - the classes X can be - is unknown here)
                names = self._kind_templates_under(n.template)
            if not names:
                raise AnalysisError(f"{ti.name}:{n.lineno}: import of a template whose name cannot be enumerated")
            missing = [x for x in names if x not in self.jx.templates]
            if missing:
                self.undefined_names[(ti.name, self.cur_macro, f"import {expr_text(n.template)}")] = \
                    f"imported template(s) do not exist: {missing}"
            env[n.target] = AV(funcs=frozenset(("tplmod", x) for x in names if x in self.jx.templates))
            # the variable X of `import "dir/" + X.template as alias`, taken from the AST (its spelling is arbitrary)
            gs = [g for g in [n.template] + list(n.template.find_all(nodes.Getattr)) if isinstance(g, nodes.Getattr) and g.attr == "template"]
            xs = [expr_text(g.node) for g in gs]
            env["__corr__" + n.target] = AV(consts=frozenset(xs[:1]))
            return state
        if isinstance(n, nodes.FromImport):
            tv = self.ev(n.template, env)
            names = self.const_strings(tv)
            if not names:
                raise AnalysisError(f"{ti.name}:{n.lineno}: from-import of a template whose name cannot be enumerated")
            for item in n.names:
                src, dst = (item, item) if isinstance(item, str) else item
                fs = set()
                for x in names:
                    t2 = self.jx.templates.get(x)
                    if t2 is None or src not in t2.macros:
                        self.undefined_names[(ti.name, self.cur_macro, f"from {x} import {src}")] = \
                            f"macro {src} is not defined in {x}"
                    else:
                        fs.add(("macro", x, src))
                env[dst] = AV(funcs=frozenset(fs))
            return state
        if isinstance(n, nodes.Include):
            tv = self.ev(n.template, env)
            for x in self.const_strings(tv):
                t2 = self.jx.templates.get(x)
                if t2 is None:
                    self.undefined_names[(ti.name, self.cur_macro, f"include {x}")] = f"included template {x} does not exist"
                    continue
                saved = (self.cur_t, self.cur_macro)
                self.cur_t, self.cur_macro = t2, "<top>"
                try:
                    state = self.block(t2.tree.body, dict(env), state if t2.lang == ti.lang else LX.start_state(t2.lang))
                finally:
                    self.cur_t, self.cur_macro = saved
            return state
        if isinstance(n, nodes.ExprStmt):
            self.ev(n.node, env)
            return state
        if isinstance(n, (nodes.Continue, nodes.Break)):
            return state
        if isinstance(n, nodes.With):
            e2 = dict(env)
            for t, v in zip(n.targets, n.values):
                self.assign_target(t, self.ev(v, env), e2)
            return self.block(n.body, e2, state)
        if isinstance(n, nodes.Scope):
            return self.block(n.body, dict(env), state)
        if isinstance(n, nodes.CallBlock):
            # `{% call m(args) %}body{% endcall %}` prints m(args) here; inside m, `caller()` is the body.  The body is kept as a deferred
            # block (like `{% set x %}...{% endset %}`) bound to the implicit macro parameter `caller`, and is interpreted wherever the
            # macro prints it, in the lexical state of that place.
            bid = f"{ti.name}:{self.cur_macro}:call:{n.lineno}"
            benv = dict(env)
            # `{% call(x, y) m() %}`: inside the body x, y are what m hands to `caller(a, b)` - the join over every caller(...) evaluated
            # with this block (recorded by call(), iterated by the fixpoint); until one has been seen the parameter is unknown
            for i, a in enumerate(n.args):
                got = self.block_args.get((bid, i))
                got = join(got, self.block_args.get((bid, a.name)))
                benv[a.name] = got if got is not None and not got.is_bottom else typed("Any", labels=[UNKNOWN])
            self.blocks[bid] = (n, benv, ti, self.cur_macro)
            acc: set[str] = set()
            saved_acc = getattr(self, "_macro_label_acc", None)
            self._macro_label_acc = acc
            self._dry += 1
            saved_neutrality = dict(self.neutrality)
            try:
                self.block(n.body, dict(benv), LX.start_state(ti.lang))
            finally:
                self._dry -= 1
                self._macro_label_acc = saved_acc
                self.neutrality.clear()
                self.neutrality.update(saved_neutrality)
            caller = AV(types=frozenset({"str"}), labels=frozenset(acc), funcs=frozenset({("block", bid)}))
            f = self.ev(n.call.node, env)
            for fn in f.funcs:
                if fn[0] == "macro":
                    self._set(self.macro_params, (fn[1], fn[2], "caller"), caller)
            v = self.ev(n.call, env)
            return self.emit(n.call, v, state)
        if isinstance(n, nodes.FilterBlock):
            self.unsupported[type(n).__name__] = self.unsupported.get(type(n).__name__, 0) + 1
            return self.block(n.body, dict(env), state)
        self.unsupported[type(n).__name__] = self.unsupported.get(type(n).__name__, 0) + 1
        return state

    def assign_target(self, t: nodes.Node, v: AV, env: dict[str, AV]) -> None:
        if isinstance(t, nodes.Name):
            env[t.name] = v
        elif isinstance(t, nodes.Tuple):
            for i, x in enumerate(t.items):
                if v.tup is not None and len(v.tup) == len(t.items):
                    self.assign_target(x, v.tup[i], env)
                else:
                    self.assign_target(x, self.py.elem_of(v), env)
        elif isinstance(t, nodes.NSRef):
            pass

    def const_strings(self, v: AV) -> list[str]:
        out = set()
        if v.alts is not None:
            for alt in v.alts:
                if all(p.kind == "lit" for p in alt):
                    out.add("".join(p.text for p in alt))
                else:
                    return []
        elif v.consts:
            out |= {c for c in v.consts if isinstance(c, str)}
        return sorted(out)

    # ------------------------------------------------------------------ emission
    def emit(self, node: nodes.Node, v: AV, state: str, follow: str | None = None) -> str:
        ti = self.cur_t
        assert ti is not None
        blocks = [f for f in v.funcs if f[0] == "block"]
        if blocks and isinstance(node, (nodes.Name, nodes.Call)) and len(v.funcs) == len(blocks):
            ends_b = set()
            for _k, bid in blocks:
                bn, benv, bt, bm = self.blocks[bid]
                if isinstance(bn, nodes.CallBlock) and bn.args:
                    benv = dict(benv)
                    for i, a in enumerate(bn.args):
                        got = join(self.block_args.get((bid, i)), self.block_args.get((bid, a.name)))
                        if got is not None and not got.is_bottom:
                            benv[a.name] = got
                # the body's holes belong to the template / macro the block is written in (keys do not move when a block is handed to
                # a macro and printed there); the lexical state and the facts are those of the place where it is printed
                saved_tm = (self.cur_t, self.cur_macro)
                self.cur_t, self.cur_macro = bt, bm
                try:
                    ends_b.add(self.block(bn.body, dict(benv), state))
                finally:
                    self.cur_t, self.cur_macro = saved_tm
            if len(ends_b) > 1:
                self.neutrality[(ti.name, self.cur_macro, f"expr {expr_text(node)}")] = \
                    f"captured blocks emitted by `{expr_text(node)}` leave different lexical states {sorted(ends_b)}"
            return sorted(ends_b)[0]
        et = expr_text(node)
        okey = (ti.name, self.cur_macro, et)
        # ordinal: n-th distinct occurrence (by node identity) of this expression text in this macro
        ids = self.ordinals.setdefault(okey, {})  # type: ignore[arg-type]
        if id(node) not in ids:
            ids[id(node)] = len(ids)
        ordinal = ids[id(node)]
        alts = as_parts(v, et, f"{ti.name}:{getattr(node, 'lineno', 0)}")
        ends = set()
        for alt in sorted(alts, key=repr):
            st = state
            for pi, p in enumerate(alt):
                if p.kind == "lit":
                    st = LX.feed(ti.lang, st, p.text)
                elif p.kind == "macro":
                    tn, mn = p.text.split("::", 1)
                    facts = frozenset(l for l in p.labels if l.startswith("FACT:")) | self.cur_facts
                    if self._dry:
                        self.dry_ctx.setdefault((tn, mn), set()).add((st, facts))
                        self._note_labels(self.macro_labels.get((tn, mn), frozenset()))
                        continue
                    ctxs = self.macro_ctx.setdefault((tn, mn), set())
                    if (st, facts) not in ctxs:
                        ctxs.add((st, facts))
                        self.changed = True
                    self._note_labels(self.macro_labels.get((tn, mn), frozenset()))
                else:
                    labels = apply_facts(p.labels, self.cur_facts)
                    self._note_labels(labels)
                    kind = LX.context_kind(ti.lang, st)
                    if pi + 1 < len(alt):
                        nx = alt[pi + 1]
                        fol = nx.text[:1] if nx.kind == "lit" else None
                    else:
                        fol = follow
                    follow_ok = True
                    if LX.is_string(st):
                        q = LX.string_info(st)[1]
                        follow_ok = fol is not None and fol != q[0]
                    if self._dry:
                        if st.endswith("\\"):
                            st = st[:-1]
                        continue
                    ek = (ti.name, self.cur_macro, et, ordinal, st, p.text, self.cur_facts)
                    old = self.emissions.get(ek)
                    if old is None or not (labels <= old.labels) or (old.follow_ok and not follow_ok):
                        lab = labels | (old.labels if old else frozenset())
                        self.emissions[ek] = Emission(ti.name, self.cur_macro, et, ordinal, getattr(node, "lineno", 0), st,
                                                      kind, lab, p.text, p.origin, "", follow_ok and (old.follow_ok if old else True),
                                                      self.cur_facts)
                        self.changed = True
                    if st.endswith("\\"):
                        st = st[:-1]
            ends.add(st)
        if len(ends) > 1:
            self.neutrality[(ti.name, self.cur_macro, f"expr {et}")] = \
                f"alternatives of `{et}` (line {getattr(node, 'lineno', 0)}) leave different lexical states {sorted(ends)}"
        return sorted(ends)[0] if ends else state

    def _note_labels(self, labels: frozenset[str]) -> None:
        acc = getattr(self, "_macro_label_acc", None)
        if acc is not None:
            acc |= labels

    # ------------------------------------------------------------------ narrowing on `{% if alias.macro %}`
    def narrow(self, test: nodes.Node, env: dict[str, AV]) -> tuple[dict[str, AV], dict[str, AV]]:
        t_env, f_env = dict(env), dict(env)
        if isinstance(test, nodes.Not):
            a, b = self.narrow(test.node, env)
            return b, a
        if isinstance(test, nodes.And):
            a1, _ = self.narrow(test.left, env)
            a2, _ = self.narrow(test.right, a1)
            return a2, f_env
        if isinstance(test, nodes.Or):
            _, b1 = self.narrow(test.left, env)
            _, b2 = self.narrow(test.right, b1)
            return t_env, b2
        if isinstance(test, nodes.Getattr) and isinstance(test.node, nodes.Name):
            v = env.get(test.node.name)
            if v is not None and any(f[0] == "tplmod" for f in v.funcs):
                have = frozenset(f for f in v.funcs if f[0] == "tplmod" and test.attr in self.jx.templates[f[1]].macros)
                lack = frozenset(f for f in v.funcs if f[0] == "tplmod" and test.attr not in self.jx.templates[f[1]].macros)
                t_env[test.node.name] = replace(v, funcs=have)
                f_env[test.node.name] = replace(v, funcs=lack)
                self._narrow_corr(test.node.name, have, t_env)
                self._narrow_corr(test.node.name, lack, f_env)
            return t_env, f_env
        if isinstance(test, nodes.Compare) and isinstance(test.expr, nodes.Const) and test.expr.value == "\\" \
                and len(test.ops) == 1 and test.ops[0].op == "in" and isinstance(test.ops[0].expr, nodes.Name):
            var = test.ops[0].expr.name
            if var in env:
                f_env[var] = add_fact(env[var], "FACT:nb")  # on the false branch the value contains no backslash
            return t_env, f_env
        if isinstance(test, nodes.Name):
            v = env.get(test.name)
            if v is not None and any(f[0] in ("macro", "undef") for f in v.funcs):
                # a variable holding `alias.macro` / `alias|attr(name)`: true where the macro exists, undefined (false) where it does not
                t_env[test.name] = replace(v, funcs=frozenset(f for f in v.funcs if f[0] != "undef"))
                f_env[test.name] = replace(v, funcs=frozenset(f for f in v.funcs if f[0] == "undef"))
                return t_env, f_env
            if v is not None and "None" in v.types:
                t_env[test.name] = replace(v, types=v.types - {"None"})
            return t_env, f_env
        return t_env, f_env

    def _narrow_corr(self, alias: str, funcs: frozenset, env: dict[str, AV]) -> None:
        """`import "property_templates/" + X.template as alias`: narrowing alias narrows the classes X can be."""
        corr = env.get("__corr__" + alias)
        if corr is None or not corr.consts:
            return
        var = next(iter(corr.consts))
        if var not in env:
            return
        tnames = {f[1].rsplit("/", 1)[-1] for f in funcs}
        keep = frozenset(t for t in env[var].types if self._template_of_class(t) in tnames)
        if keep:
            env[var] = replace(env[var], types=keep)

    def _kind_templates_under(self, e: nodes.Node) -> list[str]:
        parts = [e.left, e.right] if isinstance(e, nodes.Add) else list(e.nodes) if isinstance(e, nodes.Concat) else []
        if len(parts) != 2 or not (isinstance(parts[0], nodes.Const) and isinstance(parts[0].value, str)) or \
                not (isinstance(parts[1], nodes.Getattr) and parts[1].attr == "template"):
            return []
        kinds = {self._template_of_class(c.qual) for c in self.ix.property_classes()} - {None}
        return sorted(parts[0].value + k for k in kinds if parts[0].value + k in self.jx.templates)

    def _template_of_class(self, qual: str) -> str | None:
        c = self.ix.classes.get(qual)
        if c is None:
            return None
        cv = self.ix.find_classvar(c, "template")
        if cv is None:
            return None
        return self.ix.const_str(cv[0].module, cv[1])

    # ------------------------------------------------------------------ expressions
    @staticmethod
    def _definedness(test: nodes.Node, env: dict[str, AV]) -> "bool | None":
        """the value of a test that only asks whether a name is bound (`x is defined`, `x is undefined`, `not ...`), when the
        environment decides it (only `unbound` is decided: a bound name may still hold jinja's Undefined)"""
        if isinstance(test, nodes.Not):
            v = JinjaInterp._definedness(test.node, env)
            return None if v is None else not v
        if isinstance(test, nodes.Test) and test.name in ("defined", "undefined") and isinstance(test.node, nodes.Name) and \
                test.node.name not in env and test.node.name not in ("loop", "caller", "varargs", "kwargs", "self"):
            return test.name == "undefined"
        return None

    def ev_truth(self, n: nodes.Node, env: dict[str, AV]) -> AV:
        """n evaluated for its truth only (the test of an `if` / conditional expression, operands of and / or / not in one, `x is
        defined`): a name that is not defined is simply false there (jinja2's default Undefined raises only when it is called,
        subscripted or has an attribute read) - it is not recorded as a dereference of an undefined name"""
        if isinstance(n, nodes.Not):
            self.ev_truth(n.node, env)
            return num(None, "bool")
        if isinstance(n, (nodes.And, nodes.Or)):
            self.ev_truth(n.left, env)
            self.ev_truth(n.right, env)
            return num(None, "bool")
        if isinstance(n, nodes.Test) and n.name in ("defined", "undefined", "none") and isinstance(n.node, nodes.Name) and n.node.name not in env:
            return num(None, "bool")
        if isinstance(n, nodes.Name) and n.name not in env:
            saved = dict(self.undefined_names)
            v = self.ev(n, env)
            self.undefined_names.clear()
            self.undefined_names.update(saved)
            return v
        return self.ev(n, env)

    def ev(self, n: nodes.Node | None, env: dict[str, AV]) -> AV:
        if n is None:
            return BOTTOM
        ti = self.cur_t
        assert ti is not None
        if isinstance(n, nodes.Const):
            v = n.value
            if isinstance(v, str):
                return lit(v)
            if isinstance(v, bool):
                return num(v, "bool")
            if isinstance(v, (int, float)):
                return num(v, type(v).__name__)
            return AV(types=frozenset({"None"}), consts=frozenset({None}))
        if isinstance(n, nodes.TemplateData):
            return lit(n.data)
        if isinstance(n, nodes.Name):
            if n.name in env:
                return env[n.name]
            if n.name in ("namespace", "range", "dict", "lipsum", "cycler", "joiner", "caller", "varargs", "kwargs"):
                return AV(funcs=frozenset({("jbuiltin", n.name)}))
            if n.name in ("true", "false", "True", "False"):
                return num(n.name.lower() == "true", "bool")
            if n.name in ("none", "None"):
                return AV(types=frozenset({"None"}))
            self.undefined_names[(ti.name, self.cur_macro, n.name)] = f"name `{n.name}` is not defined (line {n.lineno})"
            return BOTTOM
        if isinstance(n, nodes.NSRef):
            return num(None, "bool")
        if isinstance(n, nodes.Getattr):
            base = self.ev(n.node, env)
            return self.getattr(base, n.attr, n, env)
        if isinstance(n, nodes.Getitem):
            base = self.ev(n.node, env)
            idx = self.ev(n.arg, env)
            if base.tup is not None and idx.consts and len(idx.consts) == 1:
                i = next(iter(idx.consts))
                if isinstance(i, int) and -len(base.tup) <= i < len(base.tup):
                    return base.tup[i]
            if "dict" in base.types and base.elem is not None:
                return base.elem
            if idx.consts and all(isinstance(c, str) for c in idx.consts) and not (base.types & {"list", "tuple"}):
                return join_all(self.getattr(base, c, n, env) for c in idx.consts)
            return self.py.elem_of(base)
        if isinstance(n, nodes.Call):
            return self.call(n, env)
        if isinstance(n, nodes.Filter):
            return self.filter(n, env)
        if isinstance(n, nodes.Test):
            self.ev(n.node, env)
            for a in n.args:
                self.ev(a, env)
            return num(None, "bool")
        if isinstance(n, nodes.CondExpr):
            t_env, f_env = self.narrow(n.test, env)
            self.ev_truth(n.test, env)
            a = self.ev(n.expr1, t_env)
            b = self.ev(n.expr2, f_env) if n.expr2 is not None else BOTTOM
            return join(a, b)
        if isinstance(n, nodes.Concat):
            vals = [self.to_str(self.ev(x, env)) for x in n.nodes]
            return concat(vals, [expr_text(x) for x in n.nodes], f"{ti.name}:{n.lineno}")
        if isinstance(n, nodes.Add):
            l, r = self.ev(n.left, env), self.ev(n.right, env)
            if (l.types & {"list", "tuple"}) and not ("str" in l.types):
                return AV(types=frozenset({"list"}), elem=join(self.py.elem_of(l), self.py.elem_of(r)))
            if l.types and l.types <= {"int", "float", "bool"} and r.types and r.types <= {"int", "float", "bool"}:
                return num()
            return concat([self.to_str(l), self.to_str(r)], [expr_text(n.left), expr_text(n.right)], f"{ti.name}:{n.lineno}")
        if isinstance(n, (nodes.Sub, nodes.Mul, nodes.Div, nodes.FloorDiv, nodes.Mod, nodes.Pow)):
            l, r = self.ev(n.left, env), self.ev(n.right, env)
            if isinstance(n, nodes.Mod) and "str" in l.types:
                return typed("str", labels=l.labels | self.py._deep(r))
            return num()
        if isinstance(n, (nodes.And, nodes.Or)):
            l, r = self.ev(n.left, env), self.ev(n.right, env)
            return join(l, r)
        if isinstance(n, nodes.Not):
            self.ev(n.node, env)
            return num(None, "bool")
        if isinstance(n, (nodes.Neg, nodes.Pos)):
            self.ev(n.node, env)
            return num()
        if isinstance(n, nodes.Compare):
            self.ev(n.expr, env)
            for o in n.ops:
                self.ev(o.expr, env)
            return num(None, "bool")
        if isinstance(n, (nodes.List, nodes.Tuple)):
            items = [self.ev(x, env) for x in n.items]
            if isinstance(n, nodes.Tuple):
                return AV(types=frozenset({"tuple"}), tup=tuple(items))
            return AV(types=frozenset({"list"}), elem=join_all(items))
        if isinstance(n, nodes.Dict):
            out = AV(types=frozenset({"dict"}))
            for p in n.items:
                out = join(out, AV(types=frozenset({"dict"}), key=self.ev(p.key, env), elem=self.ev(p.value, env)))
            return out
        if isinstance(n, nodes.Slice):
            return BOTTOM
        self.unsupported[type(n).__name__] = self.unsupported.get(type(n).__name__, 0) + 1
        return typed("Any", labels=[UNKNOWN])

    def to_str(self, v: AV) -> AV:
        if "str" in v.types and not (v.types - {"str"}) or v.alts is not None:
            return v
        return self.py.str_of(v)

    def getattr(self, base: AV, attr: str, n: nodes.Node, env: dict[str, AV]) -> AV:
        ti = self.cur_t
        assert ti is not None
        out = BOTTOM
        handled = False
        mods = [f for f in base.funcs if f[0] == "tplmod"]
        if mods:
            fs = set()
            for f in mods:
                t2 = self.jx.templates[f[1]]
                if attr in t2.macros:
                    fs.add(("macro", f[1], attr))
                else:
                    fs.add(("undef", f[1], attr))
            return AV(funcs=frozenset(fs))
        if "loop" in base.types:
            return num(None, "bool")
        if "ns" in base.types:
            return base.elem or BOTTOM
        if base.types & {"dict"} and base.elem is not None and attr not in ("items", "values", "keys", "get", "update"):
            return base.elem
        rest = replace(base, funcs=frozenset(f for f in base.funcs if f[0] != "tplmod"))
        v = self.py.getattr_av(rest, attr, f"{ti.name}:{getattr(n, 'lineno', 0)}")
        key = (ti.name, self.cur_macro, expr_text(n))
        self.attr_reads[key] = (expr_text(n), attr, getattr(n, "lineno", 0), base.types)
        return v

    def call(self, n: nodes.Call, env: dict[str, AV]) -> AV:
        ti = self.cur_t
        assert ti is not None
        f = self.ev(n.node, env)
        args = [self.ev(a, env) for a in n.args]
        kwargs = {k.key: self.ev(k.value, env) for k in n.kwargs}
        if f.funcs and all(x[0] == "block" for x in f.funcs):
            # `caller(a, b)` inside a macro invoked by `{% call(x, y) %}`: the caller's block, emitted where this call is printed, with
            # its parameters bound to a, b
            for _k, bid in f.funcs:
                for i, v in enumerate(args):
                    self._set(self.block_args, (bid, i), v)
                for k, v in kwargs.items():
                    self._set(self.block_args, (bid, k), v)
            return f
        where = f"{ti.name}:{n.lineno}"
        out = BOTTOM
        alias0 = n.node.node.name if isinstance(n.node, nodes.Getattr) and isinstance(n.node.node, nodes.Name) else ""
        # a candidate template that lacks the macro is a missing dispatch only if this call can be reached with that candidate
        undef = sorted(x[1] for x in f.funcs if x[0] == "undef" and (not alias0 or self.reachable_with(alias0, x[1])))
        macros = [x for x in f.funcs if x[0] == "macro"]
        if undef or macros:
            alias = n.node.node.name if isinstance(n.node, nodes.Getattr) and isinstance(n.node.node, nodes.Name) else ""
            attr = n.node.attr if isinstance(n.node, nodes.Getattr) else expr_text(n.node)
            dk = (ti.name, self.cur_macro, expr_text(n.node), n.lineno)
            self.dispatches[dk] = Dispatch(ti.name, self.cur_macro, n.lineno, alias, attr, tuple(undef),
                                           tuple(sorted(x[1] for x in macros)), expr_text(n))
        corr_var = None
        if isinstance(n.node, nodes.Getattr) and isinstance(n.node.node, nodes.Name):
            c = env.get("__corr__" + n.node.node.name)
            if c is not None and c.consts:
                corr_var = next(iter(c.consts))
        for fn in f.funcs:
            kind = fn[0]
            if kind == "macro":
                a2, k2 = args, kwargs
                if corr_var is not None:
                    tshort = fn[1].rsplit("/", 1)[-1]

                    def restrict(v: AV, node: nodes.Node) -> AV:
                        if expr_text(node) == corr_var:
                            keep = frozenset(t for t in v.types if self._template_of_class(t) == tshort)
                            if keep:
                                return replace(v, types=keep)
                        return v

                    a2 = [restrict(v, nd) for v, nd in zip(args, n.args)]
                    k2 = {k.key: restrict(kwargs[k.key], k.value) for k in n.kwargs}
                out = join(out, self.call_macro((fn[1], fn[2]), a2, k2))
            elif kind == "undef":
                pass
            elif kind == "jbuiltin":
                if fn[1] == "namespace":
                    out = join(out, AV(types=frozenset({"ns"}), elem=join_all(kwargs.values())))
                elif fn[1] == "range":
                    out = join(out, AV(types=frozenset({"list"}), elem=num()))
                else:
                    out = join(out, typed("Any"))
            else:
                sub = replace(f, funcs=frozenset({fn}))
                out = join(out, self.py.apply(sub, args, kwargs, None, {}, where))
        return out

    def call_macro(self, key: tuple[str, str], args: list[AV], kwargs: dict[str, AV]) -> AV:
        tname, mname = key
        m = self.jx.templates[tname].macros[mname]
        names = [a.name for a in m.args]
        for i, v in enumerate(args):
            if i < len(names):
                self._set(self.macro_params, (tname, mname, names[i]), v)
        for k, v in kwargs.items():
            if k in names:
                self._set(self.macro_params, (tname, mname, k), v)
        labels = self.macro_labels.get(key, frozenset())
        if key not in self.macro_ctx:
            self.macro_ctx[key] = set()
            self.changed = True
        return AV(types=frozenset({"str"}), labels=labels, alts=frozenset({(Part("macro", f"{tname}::{mname}", labels),)}))

    def filter(self, n: nodes.Filter, env: dict[str, AV]) -> AV:
        ti = self.cur_t
        assert ti is not None
        base = self.ev(n.node, env) if n.node is not None else BOTTOM
        args = [self.ev(a, env) for a in n.args]
        name = n.name
        if name in ("sort", "dictsort", "unique", "reverse", "list", "batch", "slice", "select", "reject", "map",
                    "selectattr", "rejectattr", "groupby"):
            if name in ("list", "reverse", "unique", "select", "reject", "selectattr", "rejectattr", "batch", "slice"):
                self.note_iteration(n.node, base, name, n.lineno)
            if name == "dictsort":
                return AV(types=frozenset({"list"}), elem=AV(types=frozenset({"tuple"}), tup=(base.key or BOTTOM, base.elem or BOTTOM)))
            t = "sortedlist" if name in ("sort", "dictsort") else "list"
            if name == "list" and "sortedlist" in base.types:
                t = "sortedlist"
            keep_sorted = t == "sortedlist" or ("sortedlist" in base.types and name in ("unique", "select", "reject", "selectattr", "rejectattr"))
            el = self.py.elem_of(base)
            if name == "list" and ({"set"} & base.types):
                return AV(types=frozenset({"set"}), elem=el)  # order still unobserved until iterated/joined/sorted
            return AV(types=frozenset({"sortedlist" if keep_sorted else "list"}), elem=el)
        if name == "attr" and args:
            # `x|attr(NAME)` is getattr(x, NAME): decided for every constant NAME can be (a macro looked up by name in a template
            # module gives that macro or, where the module lacks it, an undefined value exactly like `x.NAME`)
            names_ = self.const_strings(args[0])
            if names_:
                out_ = BOTTOM
                for nm in names_:
                    out_ = join(out_, self.getattr(base, nm, n, env))
                return out_
            return typed("Any", labels=base.labels)
        if name in ("length", "count", "int", "float", "abs", "round", "sum", "wordcount"):
            return num()
        if name in ("first", "last", "random", "min", "max"):
            self.note_iteration(n.node, base, name, n.lineno)
            return self.py.elem_of(base)
        if name == "join":
            self.note_iteration(n.node, base, "join", n.lineno)
            el = self.py.elem_of(base)
            sep = args[0] if args else lit("")
            return typed("str", labels=el.labels | sep.labels)
        if name in LAYOUT_FILTERS:
            if name in ("wordwrap", "indent", "center"):
                k = (ti.name, self.cur_macro, expr_text(n))
                self.newline_filters[k] = (ti.name, self.cur_macro, n.lineno, name, expr_text(n))
            if name in ("indent", "trim", "wordwrap", "safe", "center"):
                return base if ("str" in base.types or base.alts is not None) else self.py.str_of(base)
            return replace(base, alts=None)
        if name == "string":
            return self.py.str_of(base)
        if name in ("upper", "lower", "capitalize", "title"):
            return self.py.builtin_method(self.to_str(base), name, [], {})
        if name == "replace":
            return replace(self.to_str(base), alts=None, consts=None).add_labels(join_all(args).labels - {CONST})
        if name == "format":
            fmt = base
            if fmt.consts and all(isinstance(c, str) and c.replace("%r", "") .find("%") < 0 for c in fmt.consts) and \
                    all("%r" in c for c in fmt.consts):
                # "%r"|format(v): every conversion is a repr
                parts = []
                c0 = sorted(fmt.consts)[0]
                segs = c0.split("%r")
                vals = []
                descs = []
                for i, seg in enumerate(segs):
                    vals.append(lit(seg))
                    descs.append("")
                    if i < len(segs) - 1:
                        a = args[i] if i < len(args) else BOTTOM
                        rv = self.py.repr_of(a)
                        if "REPR_OF_ESC" in rv.labels:  # double escaping introduced by the template itself
                            rv = rv.with_labels((rv.labels - {"REPR_OF_ESC"}) | {"REPR_OF_ESC_T"})
                        vals.append(rv)
                        descs.append(expr_text(n.args[i]) if i < len(n.args) else "")
                return concat(vals, descs, f"{ti.name}:{n.lineno}")
            return typed("str", labels=fmt.labels | self.py._deep(join_all(args)))
        if name == "default" or name == "d":
            return join(base, args[0] if args else lit(""))
        if name == "tojson":
            return typed("str", labels=[PYREPR])
        if name == "attr" and args and args[0].consts:
            return join_all(self.getattr(base, c, n, env) for c in args[0].consts if isinstance(c, str))
        if name in self.filters:
            return self.py.apply(self.filters[name], [base, *args], {}, None, {}, f"{ti.name}:{n.lineno}")
        self.unsupported["filter:" + name] = self.unsupported.get("filter:" + name, 0) + 1
        return typed("Any", labels=self.py._deep(base) | {UNKNOWN})

    def note_iteration(self, node: nodes.Node | None, v: AV, kind: str, line: int) -> None:
        ti = self.cur_t
        assert ti is not None
        if node is None:
            return
        key = (ti.name, self.cur_macro, expr_text(node), kind)
        old = self.iterations.get(key)
        types = v.types | (old.types if old else frozenset())
        self.iterations[key] = Iteration(ti.name, self.cur_macro, line, expr_text(node), types, "sortedlist" in v.types and "set" not in v.types, kind)
