"""E5 (Python half): a field-granular, interprocedural, flow-sensitive-on-locals abstract interpreter.

Nothing of the analysed program is executed: `ast` trees are interpreted over the AV domain (sa/domain.py).
Global state = abstract value of every (class, field), every (function, parameter), every function result.
"""
from __future__ import annotations

import ast
from dataclasses import replace
from typing import Any

from .core import PKG, AnalysisError
from .domain import (DEEP, AV, BOTTOM, CONFIG, CONST, ENUM, ESC, IDENT, JSONREPR, NONFINITE, NUM, PYREPR, RAW, RAW_NONSTR,
                     REPR_OF_ESC, UNKNOWN, WORD, Part, as_parts, concat, is_esc, join, join_all, lit, map_labels, num,
                     typed)
from .pyindex import ClassInfo, FuncInfo, Module, PyIndex, dotted
from .pytypes import TypeResolver

NUMERIC = {"int", "float", "bool", "HTTPStatus", "float_noinf", "float_nonan", "float_finite"}
MAYBE_NONFINITE = {"float", "float_noinf", "float_nonan"}   # float types for which inf / nan has not been excluded on this path
Env = dict


class Interp:
    def __init__(self, ix: PyIndex):
        self._loop_acc: list[dict[str, Any]] = []
        self.ix = ix
        self.tr = TypeResolver(ix)
        self.fields: dict[tuple[str, str], AV] = {}
        self.params: dict[tuple[str, str], AV] = {}
        self.rets: dict[str, AV] = {}
        self.closure_env: dict[str, Env] = {}
        self.modvars: dict[tuple[str, str], AV] = {}
        self._modvar_busy: set[tuple[str, str]] = set()
        self.lambdas: dict[int, tuple[ast.Lambda, Module, Env, FuncInfo | None]] = {}
        self.changed = False
        self.late_changes: list[Any] = []
        self.record_nodes = True
        self.node_av: dict[int, AV] = {}
        self.render_log: dict[str, dict[str, AV]] = {}
        self.path_conds: list[tuple[str, bool]] = []      # (test source, polarity) of the branches being interpreted
        self.render_conds: dict[str, set[tuple[tuple[str, bool], ...]]] = {}  # template -> path conditions of its render calls
        self.render_where: dict[str, list[str]] = {}
        self.unresolved_calls: dict[str, int] = {}
        self.resolved_calls = 0
        self.call_edges: dict[str, set[str]] = {}
        self.field_writes: dict[tuple[str, str], list[str]] = {}  # (class, field) -> where written (diagnostics)
        self.escape_sites: dict[str, dict[str, Any]] = {}  # where -> {chars, ordered}
        self.value_ctor_sites: list[tuple[str, AV, str]] = []  # (where, python_code AV, func qual)
        self.cur: FuncInfo | None = None
        self.cur_mod: Module | None = None
        self.rounds = 0
        self.raw_classes = {c.qual for c in ix.classes.values()
                            if c.module.name.startswith(f"{PKG}.schema") and not self.tr.is_enum(c)}
        self.config_classes = {c.qual for c in ix.classes.values()
                               if c.module.name == f"{PKG}.config" and not self.tr.is_enum(c)}
        self.ident_classes = {c.qual for c in ix.classes.values()
                              if c.module.name == f"{PKG}.utils" and "str" in c.bases}
        if not self.raw_classes or not self.config_classes or len(self.ident_classes) < 2:
            raise AnalysisError("source classes (schema models / Config / PythonIdentifier, ClassName) not found")
        self.func_by_qual = {f.qual: f for f in ix.all_functions}
        self.struct_classes: set[str] = set()
        scalar = {"str", "Any", "int", "bool", "float", "None"} | self.ident_classes
        for c in ix.classes.values():
            if c.qual in self.raw_classes or c.qual in self.config_classes or self.tr.is_enum(c):
                continue
            flds = ix.all_fields(c)
            if not flds or len(flds) > 4 or ix.subclasses(c) or any(b in ix.classes for b in c.bases):
                continue
            if "__init__" in c.methods:
                continue
            if all(a is not None and (self.tr.from_ann(c.module, a).types <= scalar) and self.tr.from_ann(c.module, a).types
                   for a in flds.values()):
                self.struct_classes.add(c.qual)
        self._sizes: dict[str, int] = {}
        self._inline_stack: list[str] = []
        self._inline_cache: dict[Any, AV] = {}
        self.sanitizers: dict[str, str] = {}  # function qual -> label its result carries (established by E6)

    # ------------------------------------------------------------------ driver
    def run(self, max_rounds: int = 14) -> None:
        self._call_modes: dict[str, bool] = {}   # helper -> True while every call of it was inlined, False once one was not
        for _ in range(max_rounds):
            self.changed = False
            self.rounds += 1
            self._inline_cache.clear()
            for m in self.ix.modules.values():
                self._analyze_module_body(m)
            # private helpers last: a helper whose every call so far was evaluated at its call site with that site's arguments (inlined)
            # needs no context-free pass of its own - such a pass would run it for the join of all callers (e.g. a shared classmethod
            # with `cls` = every subclass) and smear what each caller keeps apart.  The first call that cannot be inlined (too deep,
            # too large, recursive) puts the helper back into the context-free set for good.
            private = [f for f in self.ix.all_functions if f.name.startswith("_") and not f.name.startswith("__")]
            for f in self.ix.all_functions:
                if f not in private:
                    self.analyze_function(f)
            for f in private:
                if self._call_modes.get(f.qual) is True and f.parent is None:
                    continue
                self.analyze_function(f)
            if not self.changed:
                return
        # not converged: every AV only grows along finite lattices, so this means the cap is too small
        raise AnalysisError(f"abstract interpretation did not converge in {max_rounds} rounds")

    def _set(self, table: dict, key: Any, val: AV) -> None:
        old = table.get(key)
        new = join(old, val)
        if old is None or new != old:
            table[key] = new
            self.changed = True
            if self.rounds > 16:
                self.late_changes.append((key, old, new))

    # ------------------------------------------------------------------ helpers on AVs
    def finalize(self, v: AV) -> AV:
        """Numeric / enum dominance: a value whose every possible type is numeric carries no document text."""
        if v.types and v.types <= NUMERIC and v.labels != frozenset({NUM}):
            return replace(v, labels=frozenset({NUM}), alts=None)
        return v

    def shape(self, ann: AV, flow: AV, d: int = 0) -> AV:
        if ann.is_bottom or ann.types == frozenset({"Any"}) or d > 4:
            return self.finalize(flow)
        elem = None
        if ann.elem is not None or flow.elem is not None:
            fe = flow.elem
            if fe is None and flow.tup:
                fe = join_all(flow.tup)
            elem = self.shape(ann.elem or BOTTOM, fe or BOTTOM, d + 1)
        key = None
        if ann.key is not None or flow.key is not None:
            key = self.shape(ann.key or BOTTOM, flow.key or BOTTOM, d + 1)
        tup = None
        if ann.tup is not None:
            if flow.tup is not None and len(flow.tup) == len(ann.tup):
                tup = tuple(self.shape(a, f, d + 1) for a, f in zip(ann.tup, flow.tup))
            else:
                fe = flow.elem or (join_all(flow.tup) if flow.tup else BOTTOM)
                tup = tuple(self.shape(a, fe, d + 1) for a in ann.tup)
            elem = None
        types = ann.types
        if "Any" in types and flow.types:
            types = (types - {"Any"}) | flow.types
        # narrow: flow knows a subset of the declared union
        if flow.types and flow.types < types and not ({"Any"} & flow.types):
            types = flow.types
        labels = flow.labels | (ann.labels & {ENUM, NUM})
        return self.finalize(AV(types, labels, elem, key, tup, flow.alts, flow.funcs | ann.funcs, flow.consts, flow.bound,
                                flow.attrs))

    def tag(self, v: AV, label: str, d: int = 0) -> AV:
        """Mark a (typed) value read from a source object, recursively through its container structure."""
        if d > 4:
            return v
        labels = v.labels
        if not (v.types and v.types <= NUMERIC) and ENUM not in v.labels and not (v.types and v.types <= {"None"}):
            labels = labels | {label}
        return replace(v, labels=labels, alts=None,
                       elem=self.tag(v.elem, label, d + 1) if v.elem is not None else None,
                       key=self.tag(v.key, label, d + 1) if v.key is not None else None,
                       tup=tuple(self.tag(t, label, d + 1) for t in v.tup) if v.tup is not None else None)

    def source_label(self, qual: str) -> str | None:
        if qual in self.raw_classes:
            return RAW
        if qual in self.config_classes:
            return CONFIG
        return None

    # ------------------------------------------------------------------ attribute access
    def getattr_av(self, v: AV, attr: str, where: str = "") -> AV:
        out = BOTTOM
        hit = False
        for fn in v.funcs:
            if isinstance(fn, tuple) and fn[0] == "class":
                c = self.ix.classes.get(fn[1])
                if c is not None:
                    r = self.class_attr(c, attr)
                    if r is not None:
                        out = join(out, r)
                        hit = True
            elif isinstance(fn, tuple) and fn[0] == "module":
                mod = self.ix.modules.get(fn[1])
                if mod is not None:
                    out = join(out, self.name_in_module(mod, attr))
                    hit = True
            elif isinstance(fn, tuple) and fn[0] == "ext":
                out = join(out, AV(funcs=frozenset({("ext", f"{fn[1]}.{attr}")})))
                hit = True
        if attr == "__name__":
            return typed("str", labels=[IDENT])
        if attr == "__class__":
            return AV(types=frozenset({"type"}), funcs=frozenset(("class", t) for t in v.types if t in self.ix.classes))
        for t in v.types:
            c = self.ix.classes.get(t)
            if c is None:
                r2 = self.builtin_attr(v, t, attr)
                if r2 is not None:
                    out = join(out, r2)
                    hit = True
                continue
            src = self.source_label(c.qual)
            fld = self.ix.find_field(c, attr)
            if fld is not None and c.qual in self.struct_classes and v.attr(attr) is not None:
                out = join(out, v.attr(attr))
                hit = True
                continue
            if fld is not None:
                ann = self.tr.from_ann(fld[0].module, fld[1]) if fld[1] is not None else BOTTOM
                if src is not None:
                    out = join(out, self.tag(ann if not ann.is_bottom else typed("Any"), src))
                else:
                    flow = self.fields.get((c.qual, attr), BOTTOM)
                    out = join(out, self.shape(ann, flow))
                hit = True
                continue
            meth = self.ix.find_method(c, attr)
            if meth is not None:
                if meth.kind == "property":
                    rv = replace(v, types=frozenset({t}))
                    r0 = self.call_function(meth, [rv], {}, where)
                    out = join(out, self.inline_call(meth, [rv], {}) or r0)
                else:
                    out = join(out, AV(funcs=frozenset({("func", meth.qual)}), bound=replace(v, types=frozenset({t}))))
                hit = True
                continue
            cv = self.ix.find_classvar(c, attr)
            if cv is not None:
                out = join(out, self.eval_in_module(cv[0].module, cv[1]))
                hit = True
                continue
            if src is not None:  # pydantic extra / unknown attribute of a document object
                out = join(out, typed("Any", labels=[src]))
                hit = True
            elif self.tr.is_enum(c) and attr in ("value", "name"):
                out = join(out, typed("str", labels=[ENUM]))
                hit = True
        if not hit:
            if v.labels & {RAW, CONFIG} and not any(t in self.ix.classes for t in v.types):
                lab = RAW if RAW in v.labels else CONFIG
                return typed("Any", labels=[lab])
            if "HTTPStatus" in v.types and attr in ("value", "name", "phrase"):
                return num()
            return AV(labels=frozenset({UNKNOWN}) if v.labels & {UNKNOWN} else frozenset())
        return out

    def builtin_attr(self, v: AV, t: str, attr: str) -> AV | None:
        if t == "HTTPStatus":
            return num()
        if t == "Path":
            if attr in ("parent",):
                return v
            if attr in ("name", "stem", "suffix"):
                return typed("str", labels=v.labels)
            return AV(funcs=frozenset({("pathmeth", attr)}), bound=v)
        if t in ("str", "list", "set", "dict", "tuple", "iter", "bytes", "Any"):
            return AV(funcs=frozenset({("meth", attr)}), bound=v)
        if t.startswith("jinja2."):
            return AV(funcs=frozenset({("jinja", attr)}), bound=v)
        return None

    def class_attr(self, c: ClassInfo, attr: str) -> AV | None:
        meth = self.ix.find_method(c, attr)
        if meth is not None:
            bound = AV(types=frozenset({"type"}), funcs=frozenset({("class", c.qual)})) if meth.kind == "classmethod" else None
            return AV(funcs=frozenset({("func", meth.qual)}), bound=bound)
        cv = self.ix.find_classvar(c, attr)
        if cv is not None:
            if self.tr.is_enum(c):
                val = self.eval_in_module(cv[0].module, cv[1])
                return AV(types=frozenset({c.qual}), labels=frozenset({ENUM}), consts=val.consts)
            return self.eval_in_module(cv[0].module, cv[1])
        if attr == "__name__":
            return typed("str", labels=[IDENT])
        if attr == "model_validate":
            return AV(funcs=frozenset({("ctor_like", c.qual)}))
        return None

    # ------------------------------------------------------------------ module level
    def name_in_module(self, m: Module, name: str) -> AV:
        r = self.ix.resolve(m, name)
        if r is None:
            import builtins

            if hasattr(builtins, name):
                return AV(funcs=frozenset({("ext", f"builtins.{name}")}))
            return BOTTOM
        return self.resolved_to_av(r)

    def resolved_to_av(self, r: tuple[str, Any]) -> AV:
        kind, obj = r
        if kind == "class":
            return AV(types=frozenset({"type"}), funcs=frozenset({("class", obj.qual)}))
        if kind == "func":
            return AV(funcs=frozenset({("func", obj.qual)}))
        if kind == "module":
            return AV(funcs=frozenset({("module", obj.name)}))
        if kind == "ext":
            return AV(funcs=frozenset({("ext", obj)}))
        if kind == "var":
            mod, n = obj
            return self.modvar(mod, n)
        if kind == "classvar":
            c, n = obj
            return self.class_attr(c, n) or BOTTOM
        return BOTTOM

    def modvar(self, mod: Module, n: str) -> AV:
        key = (mod.name, n)
        if key in self.modvars:
            return self.modvars[key]
        if key in self._modvar_busy:
            return BOTTOM
        self._modvar_busy.add(key)
        try:
            v = self.eval_in_module(mod, mod.variables[n])
            if n in mod.var_ann:
                v = self.shape(self.tr.from_ann(mod, mod.var_ann[n]), v)
        finally:
            self._modvar_busy.discard(key)
        self.modvars[key] = v
        return v

    def eval_in_module(self, mod: Module, node: ast.expr) -> AV:
        saved = (self.cur, self.cur_mod)
        self.cur, self.cur_mod = None, mod
        try:
            return self.ev(node, {})
        finally:
            self.cur, self.cur_mod = saved

    def _analyze_module_body(self, m: Module) -> None:
        # module-level statements with effects on global state (e.g. ANY_ADDITIONAL_PROPERTY = AnyProperty.build(...))
        self.cur, self.cur_mod = None, m
        for n, val in m.variables.items():
            if isinstance(val, ast.Call):
                v = self.ev(val, {})
                if n in m.var_ann:
                    v = self.shape(self.tr.from_ann(m, m.var_ann[n]), v)
                old = self.modvars.get((m.name, n))
                new = join(old, v)
                if new != old:
                    self.modvars[(m.name, n)] = new
                    self.changed = True

    # ------------------------------------------------------------------ functions
    def where(self, node: ast.AST) -> str:
        m = self.cur_mod
        return f"{m.rel if m else '?'}:{getattr(node, 'lineno', 0)}"

    def _param_env(self, f: FuncInfo, given: dict[str, AV] | None) -> Env:
        """Environment at entry of f: from the global parameter join (given=None) or from one call site."""
        env: Env = {}
        if f.parent is not None:
            env.update(self.closure_env.get(f.qual, {}))
        a = f.node.args
        allp = [*a.posonlyargs, *a.args, *a.kwonlyargs]
        defaults: dict[str, ast.expr] = {}
        pos = [*a.posonlyargs, *a.args]
        for p, dflt in zip(pos[len(pos) - len(a.defaults):], a.defaults):
            defaults[p.arg] = dflt
        for p, dflt in zip(a.kwonlyargs, a.kw_defaults):
            if dflt is not None:
                defaults[p.arg] = dflt
        for i, p in enumerate(allp):
            if given is not None:
                flow = given.get(p.arg)
                if flow is None:
                    flow = self.ev(defaults[p.arg], {}) if p.arg in defaults else BOTTOM
            else:
                flow = self.params.get((f.qual, p.arg), BOTTOM)
                if p.arg in defaults:
                    flow = join(flow, self.ev(defaults[p.arg], {}))
            ann = self.tr.from_ann(f.module, p.annotation)
            if i == 0 and f.cls is not None and f.kind in ("method", "property") and ann.is_bottom:
                if f.name == "__new__":
                    ann = BOTTOM
                else:
                    ann = self.tr.class_av(f.cls)
                    if flow.types:
                        ann = replace(ann, types=ann.types & flow.types or ann.types)
            if i == 0 and f.kind == "classmethod" and ann.is_bottom:
                subs = [f.cls] + self.ix.subclasses(f.cls) if f.cls else []
                if not flow.funcs:
                    flow = join(flow, AV(types=frozenset({"type"}), funcs=frozenset(("class", c.qual) for c in subs)))
            if f.module.name == f"{PKG}.cli" and not flow.labels and given is None:
                flow = replace(flow, labels=frozenset({CONFIG}))
            if i == 0 and f.kind == "classmethod" and given is not None and flow.funcs:
                env[p.arg] = flow  # the class this call is made on, not every class the annotation (`type[T]`) admits
                continue
            env[p.arg] = self.shape(ann, flow)
        if a.vararg:
            fl = (given or {}).get("*" + a.vararg.arg) if given is not None else self.params.get((f.qual, "*" + a.vararg.arg))
            env[a.vararg.arg] = AV(types=frozenset({"tuple"}), elem=self.shape(
                self.tr.from_ann(f.module, a.vararg.annotation), fl or BOTTOM))
        if a.kwarg:
            fl = (given or {}).get("**" + a.kwarg.arg) if given is not None else self.params.get((f.qual, "**" + a.kwarg.arg))
            if fl is not None and fl.attrs is not None:
                env[a.kwarg.arg] = AV(types=frozenset({"dict"}), elem=fl.elem or BOTTOM, attrs=fl.attrs)
            else:
                env[a.kwarg.arg] = AV(types=frozenset({"dict"}), elem=fl or BOTTOM)
        return env

    def _run_body(self, f: FuncInfo, env: Env) -> tuple[AV, Env]:
        saved = (getattr(self, "_ret_acc", BOTTOM), getattr(self, "_yield_acc", BOTTOM), getattr(self, "_has_yield", False))
        saved_loops = getattr(self, "_loop_acc", [])
        self._loop_acc = []   # (a function body starts outside every loop of its caller)
        self._ret_acc, self._yield_acc, self._has_yield = BOTTOM, BOTTOM, False
        try:
            out_env = self.ex(f.node.body, env)
            ret = self._ret_acc
            if self._has_yield:
                ret = AV(types=frozenset({"iter"}), elem=self._yield_acc)
            ret = self.shape(self.tr.from_ann(f.module, f.node.returns), ret)
            return ret, (out_env if out_env is not None else env)
        finally:
            self._ret_acc, self._yield_acc, self._has_yield = saved
            self._loop_acc = saved_loops

    def analyze_function(self, f: FuncInfo) -> None:
        saved = (self.cur, self.cur_mod)
        self.cur, self.cur_mod = f, f.module
        try:
            env = self._param_env(f, None)
            ret, final = self._run_body(f, env)
            old = self.rets.get(f.qual)
            new = join(old, ret)
            if old is None or new != old:
                self.rets[f.qual] = new
                self.changed = True
            for g in self.ix.all_functions:
                if g.parent is f:
                    ce = self.closure_env.setdefault(g.qual, {})
                    for k, v in final.items():
                        nv = join(ce.get(k), v)
                        if nv != ce.get(k):
                            ce[k] = nv
                            self.changed = True
        finally:
            self.cur, self.cur_mod = saved

    def _size(self, f: FuncInfo) -> int:
        sz = self._sizes.get(f.qual)
        if sz is None:
            sz = sum(1 for _ in ast.walk(f.node))
            self._sizes[f.qual] = sz
        return sz

    def inline_call(self, f: FuncInfo, args: list[AV], kwargs: dict[str, AV]) -> AV | None:
        """Call-site-sensitive evaluation of a small callee (keeps helper functions from smearing labels)."""
        if f.qual in self._inline_stack or len(self._inline_stack) >= (4 if DEEP else 3) or self._size(f) > (400 if DEEP else 260) or f.parent is not None:
            return None
        a = f.node.args
        pos = [*a.posonlyargs, *a.args]
        given: dict[str, AV] = {}
        for i, v in enumerate(args):
            if i < len(pos):
                given[pos[i].arg] = v
            elif a.vararg:
                given["*" + a.vararg.arg] = join(given.get("*" + a.vararg.arg), v)
        names = {p.arg for p in [*pos, *a.kwonlyargs]}
        extra: dict[str, AV] = {}
        for k, v in kwargs.items():
            if k in names:
                given[k] = v
            elif a.kwarg:
                extra[k] = v
        if a.kwarg and extra:
            # `**kwargs` keeps its keys: f(..., x=1) received by `def f(**kw)` and forwarded as g(**kw) is g(x=1)
            given["**" + a.kwarg.arg] = AV(types=frozenset({"dict"}), elem=join_all(list(extra.values())), attrs=tuple(sorted(extra.items())))
        try:
            ckey = (f.qual, tuple(sorted(given.items(), key=lambda kv: kv[0])))
            hit = self._inline_cache.get(ckey)
        except TypeError:
            ckey, hit = None, None
        if hit is not None:
            return hit
        saved = (self.cur, self.cur_mod)
        self._inline_stack.append(f.qual)
        self.cur, self.cur_mod = f, f.module
        try:
            env = self._param_env(f, given)
            ret, _ = self._run_body(f, env)
            if ckey is not None:
                self._inline_cache[ckey] = ret
            return ret
        finally:
            self._inline_stack.pop()
            self.cur, self.cur_mod = saved

    def call_function(self, f: FuncInfo, args: list[AV], kwargs: dict[str, AV], where: str = "") -> AV:
        if self.cur is not None:
            self.call_edges.setdefault(self.cur.qual, set()).add(f.qual)
        a = f.node.args
        pos = [*a.posonlyargs, *a.args]
        for i, v in enumerate(args):
            if i < len(pos):
                self._set(self.params, (f.qual, pos[i].arg), v)
            elif a.vararg:
                self._set(self.params, (f.qual, "*" + a.vararg.arg), v)
        names = {p.arg for p in [*pos, *a.kwonlyargs]}
        for k, v in kwargs.items():
            if k in names:
                self._set(self.params, (f.qual, k), v)
            elif a.kwarg:
                self._set(self.params, (f.qual, "**" + a.kwarg.arg),
                          AV(types=frozenset({"dict"}), elem=v, attrs=((k, v),)))
        ret = self.rets.get(f.qual)
        if ret is None:
            ret = self.shape(self.tr.from_ann(f.module, f.node.returns), BOTTOM)
        return ret

    # ------------------------------------------------------------------ construction / field writes
    def write_field(self, recv: AV, name: str, val: AV, where: str) -> None:
        for t in recv.types:
            if t in self.ix.classes and self.source_label(t) is None:
                self._set(self.fields, (t, name), val)
                w = self.field_writes.setdefault((t, name), [])
                if where not in w:
                    w.append(where)

    def construct(self, c: ClassInfo, args: list[AV], kwargs: dict[str, AV], where: str) -> AV:
        inst = AV(types=frozenset({c.qual}))
        if c.qual in self.ident_classes:
            new = self.ix.find_method(c, "__new__")
            if new is not None:
                self.call_function(new, [AV(funcs=frozenset({("class", c.qual)})), *args], kwargs, where)
            return AV(types=frozenset({c.qual}), labels=frozenset({IDENT}))
        src = self.source_label(c.qual)
        if src == RAW:
            return inst  # a document object built by the generator itself; its fields read as RAW anyway
        init = None
        for k in self.ix.mro(c):
            if "__init__" in k.methods:
                init = k.methods["__init__"]
                break
        if init is not None:
            self.call_function(init, [inst, *args], kwargs, where)
            return inst
        flds = list(self.ix.all_fields(c).keys())
        given: dict[str, AV] = {}
        for i, v in enumerate(args):
            if i < len(flds):
                self.write_field(inst, flds[i], v, where)
                given[flds[i]] = v
        for k, v in kwargs.items():
            self.write_field(inst, k, v, where)
            given[k] = v
        if c.qual in self.struct_classes:
            allf = self.ix.all_fields(c)
            inst = replace(inst, attrs=tuple(sorted(
                (k, self.shape(self.tr.from_ann(c.module, allf[k]), given.get(k, BOTTOM))) for k in allf)))
        # dataclass / attrs defaults
        for k2 in self.ix.mro(c):
            for fname, dflt in k2.field_defaults.items():
                if fname not in kwargs:
                    self.write_field(inst, fname, self.eval_in_module(k2.module, dflt), f"{k2.module.rel}:{dflt.lineno}")
        if c.name == "Value" and ("python_code" in kwargs or args):
            pc = kwargs.get("python_code", args[0] if args else BOTTOM)
            self.value_ctor_sites.append((where, pc, self.cur.qual if self.cur else "<module>"))
        post = self.ix.find_method(c, "__attrs_post_init__") or self.ix.find_method(c, "__post_init__")
        if post is not None:
            self.call_function(post, [inst], {}, where)
        return inst

    # ------------------------------------------------------------------ expressions
    def ev(self, node: ast.expr | None, env: Env) -> AV:
        if node is None:
            return BOTTOM
        meth = getattr(self, "ev_" + type(node).__name__, None)
        if meth is None:
            return AV(labels=frozenset({UNKNOWN}))
        v = meth(node, env)
        if self.record_nodes and isinstance(node, (ast.Name, ast.Attribute, ast.Call, ast.Subscript)):
            k = id(node)
            old = self.node_av.get(k)
            self.node_av[k] = v if old is None else join(old, v)
        return v

    def ev_Constant(self, n: ast.Constant, env: Env) -> AV:
        v = n.value
        if isinstance(v, str):
            return lit(v)
        if isinstance(v, bool):
            return num(v, "bool")
        if isinstance(v, (int, float)):
            return num(v, type(v).__name__)
        if v is None:
            return AV(types=frozenset({"None"}), consts=frozenset({None}))
        if isinstance(v, bytes):
            return typed("bytes", labels=[CONST])
        return BOTTOM

    def ev_Name(self, n: ast.Name, env: Env) -> AV:
        if n.id in env:
            return env[n.id]
        if self.cur_mod is not None:
            return self.name_in_module(self.cur_mod, n.id)
        return BOTTOM

    def ev_Attribute(self, n: ast.Attribute, env: Env) -> AV:
        return self.getattr_av(self.ev(n.value, env), n.attr, self.where(n))

    def ev_JoinedStr(self, n: ast.JoinedStr, env: Env) -> AV:
        vals, descs = [], []
        for v in n.values:
            if isinstance(v, ast.Constant):
                vals.append(lit(str(v.value)))
                descs.append("")
            elif isinstance(v, ast.FormattedValue):
                x = self.ev(v.value, env)
                if v.conversion == ord("r"):
                    x = self.repr_of(x)
                else:
                    x = self.str_of(x)
                vals.append(x)
                descs.append(ast.unparse(v.value))
        return concat(vals, descs, self.where(n))

    def ev_FormattedValue(self, n: ast.FormattedValue, env: Env) -> AV:
        return self.str_of(self.ev(n.value, env))

    def str_of(self, x: AV) -> AV:
        """str(x) / f"{x}" """
        if self.no_flow(x):
            return BOTTOM
        x = self.finalize(x)
        if x.types and x.types <= NUMERIC:
            return typed("str", labels=[NUM] + ([NONFINITE] if x.types & MAYBE_NONFINITE else []))
        if "Path" in x.types:
            return replace(x, types=frozenset({"str"}))

        def f(ls: frozenset[str]) -> set[str]:
            out = set()
            for l in ls:
                out.add(JSONREPR if l == RAW_NONSTR else l)
            return out

        y = map_labels(x, f)
        if not y.labels and y.alts is None:
            if x.types and all(t in self.ix.classes and self.tr.is_enum(self.ix.classes[t]) for t in x.types):
                return typed("str", labels=[ENUM])
            if x.types & self.ident_classes:
                return typed("str", labels=[IDENT])
            if "type" in x.types or x.funcs:
                return typed("str", labels=[IDENT])
            return AV(types=frozenset({"str"}))
        return replace(y, types=frozenset({"str"}), elem=None, key=None, tup=None, funcs=frozenset(), bound=None)

    @staticmethod
    def no_flow(x: AV) -> bool:
        """a declared-but-not-yet-reached string value (types from an annotation only)"""
        if x.is_bottom:
            return True
        if x.labels or x.consts is not None or x.funcs or x.elem is not None or x.tup is not None or x.attrs is not None:
            return False
        if not (x.types <= {"str", "Any", "None"}):
            return False
        if x.alts is not None:
            # structure without any live alternative (every alternative has a hole nothing flows into)
            return all(any(p.kind == "hole" and not p.labels for p in alt) for alt in x.alts)
        return True

    def repr_of(self, x: AV) -> AV:
        if self.no_flow(x):
            return BOTTOM  # strict: nothing flows here yet (early iteration / dead code)
        x = self.finalize(x)
        if x.types and x.types <= NUMERIC:
            return typed("str", labels=[NUM] + ([NONFINITE] if x.types & MAYBE_NONFINITE else []))
        if any(is_esc(l) for l in x.labels):
            rest = {l for l in x.labels if not is_esc(l) and l not in (CONST, NUM, ENUM, IDENT, WORD, CONFIG)}
            return typed("str", labels=[REPR_OF_ESC] + ([PYREPR] if rest else []))
        return typed("str", labels=[PYREPR])

    def ev_BinOp(self, n: ast.BinOp, env: Env) -> AV:
        l, r = self.ev(n.left, env), self.ev(n.right, env)
        if isinstance(n.op, ast.Add):
            if ("str" in l.types or l.alts is not None or "str" in r.types) and not (l.types & {"list", "tuple"}):
                return concat([self.str_of(l) if "str" not in l.types else l, self.str_of(r) if "str" not in r.types else r],
                              [ast.unparse(n.left), ast.unparse(n.right)], self.where(n))
            if l.types <= NUMERIC and r.types <= NUMERIC and l.types and r.types:
                return num()
            return join(l, r)
        if isinstance(n.op, ast.Div) and "Path" in l.types:
            return replace(concat([replace(l, types=frozenset({"str"})), lit("/"), self.str_of(r)],
                                  [ast.unparse(n.left), "", ast.unparse(n.right)], self.where(n)), types=frozenset({"Path"}))
        if isinstance(n.op, ast.Mod) and ("str" in l.types):
            return typed("str", labels=l.labels | self._deep(r))
        if isinstance(n.op, (ast.BitOr, ast.BitAnd, ast.Sub)) and (l.types & {"set", "dict"}):
            return join(l, r) if isinstance(n.op, ast.BitOr) else l
        if l.types <= NUMERIC and r.types <= NUMERIC:
            return num()
        return join(l, r)

    def _deep(self, v: AV) -> frozenset[str]:
        from .domain import _deep_labels

        return _deep_labels(v)

    def ev_BoolOp(self, n: ast.BoolOp, env: Env) -> AV:
        vals = [self.ev(v, env) for v in n.values]
        if isinstance(n.op, ast.Or):
            # `a or b`: a contributes only when truthy -> drop None from all but the last
            out = BOTTOM
            for i, v in enumerate(vals):
                if i < len(vals) - 1:
                    v = replace(v, types=v.types - {"None"})
                out = join(out, v)
            return out
        return join_all(vals)

    def ev_UnaryOp(self, n: ast.UnaryOp, env: Env) -> AV:
        v = self.ev(n.operand, env)
        if isinstance(n.op, ast.Not):
            return num(None, "bool")
        return self.finalize(v) if v.types <= NUMERIC and v.types else num()

    def ev_Compare(self, n: ast.Compare, env: Env) -> AV:
        self.ev(n.left, env)
        for c in n.comparators:
            self.ev(c, env)
        return num(None, "bool")

    def ev_IfExp(self, n: ast.IfExp, env: Env) -> AV:
        t_env, f_env = self.narrow(n.test, env)
        return join(self.ev(n.body, t_env), self.ev(n.orelse, f_env))

    def ev_NamedExpr(self, n: ast.NamedExpr, env: Env) -> AV:
        v = self.ev(n.value, env)
        env[n.target.id] = v
        return v

    def ev_Await(self, n: ast.Await, env: Env) -> AV:
        return self.ev(n.value, env)

    def ev_Starred(self, n: ast.Starred, env: Env) -> AV:
        v = self.ev(n.value, env)
        return self.elem_of(v)

    def ev_Lambda(self, n: ast.Lambda, env: Env) -> AV:
        self.lambdas[id(n)] = (n, self.cur_mod, env, self.cur)  # type: ignore[assignment]
        return AV(funcs=frozenset({("lambda", id(n))}))

    def ev_Tuple(self, n: ast.Tuple, env: Env) -> AV:
        if any(isinstance(e, ast.Starred) for e in n.elts):
            return AV(types=frozenset({"tuple"}), elem=join_all(self.ev(e, env) for e in n.elts))
        return AV(types=frozenset({"tuple"}), tup=tuple(self.ev(e, env) for e in n.elts))

    def ev_List(self, n: ast.List, env: Env) -> AV:
        return AV(types=frozenset({"list"}), elem=join_all(self.ev(e, env) for e in n.elts))

    def ev_Set(self, n: ast.Set, env: Env) -> AV:
        return AV(types=frozenset({"set"}), elem=join_all(self.ev(e, env) for e in n.elts))

    def ev_Dict(self, n: ast.Dict, env: Env) -> AV:
        out = AV(types=frozenset({"dict"}))
        for k, v in zip(n.keys, n.values):
            if k is None:
                out = join(out, replace(self.ev(v, env), types=frozenset({"dict"})))
            else:
                out = join(out, AV(types=frozenset({"dict"}), key=self.ev(k, env), elem=self.ev(v, env)))
        return out

    def _comp(self, n: Any, env: Env) -> Env:
        env = dict(env)
        for g in n.generators:
            it = self.ev(g.iter, env)
            self.assign(g.target, self.elem_of(it), env)
            for cond in g.ifs:
                env, _ = self.narrow(cond, env)
        return env

    def ev_ListComp(self, n: ast.ListComp, env: Env) -> AV:
        e = self._comp(n, env)
        return AV(types=frozenset({"list"}), elem=self.ev(n.elt, e))

    def ev_SetComp(self, n: ast.SetComp, env: Env) -> AV:
        e = self._comp(n, env)
        return AV(types=frozenset({"set"}), elem=self.ev(n.elt, e))

    def ev_GeneratorExp(self, n: ast.GeneratorExp, env: Env) -> AV:
        e = self._comp(n, env)
        return AV(types=frozenset({"iter"}), elem=self.ev(n.elt, e))

    def ev_DictComp(self, n: ast.DictComp, env: Env) -> AV:
        e = self._comp(n, env)
        return AV(types=frozenset({"dict"}), key=self.ev(n.key, e), elem=self.ev(n.value, e))

    def ev_Yield(self, n: ast.Yield, env: Env) -> AV:
        self._has_yield = True
        self._yield_acc = join(self._yield_acc, self.ev(n.value, env))
        return BOTTOM

    def ev_YieldFrom(self, n: ast.YieldFrom, env: Env) -> AV:
        self._has_yield = True
        self._yield_acc = join(self._yield_acc, self.elem_of(self.ev(n.value, env)))
        return BOTTOM

    def record_fields(self, v: AV) -> "list[AV] | None":
        """the components, in declaration order, of a value that can only be an instance of one NamedTuple class of the package
        (unpacking / indexing / iterating such a record yields its fields)"""
        classes = [self.ix.classes[t] for t in v.types if t in self.ix.classes]
        if len(classes) != 1 or (v.types - {classes[0].qual}):
            return None
        c = classes[0]
        if not any((dotted(b) or "").rsplit(".", 1)[-1] == "NamedTuple" for b in c.base_exprs):
            return None
        return [self.getattr_av(v, f) for f in c.fields]

    def elem_of(self, v: AV) -> AV:
        out = v.elem or BOTTOM
        rec = self.record_fields(v) if v.types and not v.tup else None
        if rec:
            out = join(out, join_all(rec))
        if v.tup:
            out = join(out, join_all(v.tup))
        if "dict" in v.types and v.key is not None and v.elem is not None and not (v.types - {"dict", "None"}):
            out = v.key  # iterating a dict yields keys
        if "str" in v.types and not out.labels:
            out = join(out, typed("str", labels=v.labels))
        if out.is_bottom and v.labels & {RAW, CONFIG, UNKNOWN}:
            out = typed("Any", labels=v.labels & {RAW, CONFIG, UNKNOWN})
        return out

    def ev_Subscript(self, n: ast.Subscript, env: Env) -> AV:
        v = self.ev(n.value, env)
        if isinstance(n.slice, ast.Slice):
            for s in (n.slice.lower, n.slice.upper, n.slice.step):
                self.ev(s, env)
            return replace(v, alts=None, consts=None)
        idx = self.ev(n.slice, env)
        if v.tup is None and v.types:
            rec = self.record_fields(v)
            if rec is not None:
                v = replace(v, tup=tuple(rec))
        if v.tup is not None and idx.consts and len(idx.consts) == 1:
            i = next(iter(idx.consts))
            if isinstance(i, int) and -len(v.tup) <= i < len(v.tup):
                return v.tup[i]
        if "str" in v.types and not v.elem:
            return typed("str", labels=v.labels)
        if "dict" in v.types and v.elem is not None:
            return v.elem
        return self.elem_of(v) if not ("dict" in v.types) else (v.elem or BOTTOM)

    # ------------------------------------------------------------------ calls
    def ev_Call(self, n: ast.Call, env: Env) -> AV:
        args: list[AV] = []
        for a in n.args:
            if isinstance(a, ast.Starred):
                args.append(self.elem_of(self.ev(a.value, env)))
            else:
                args.append(self.ev(a, env))
        kwargs: dict[str, AV] = {}
        star_kw = BOTTOM
        self._star_expanded = False
        for k in n.keywords:
            if k.arg is None:
                sv = self.ev(k.value, env)
                star_kw = join(star_kw, sv)
                if sv.attrs is not None and "dict" in sv.types:
                    for kk, vv in sv.attrs:
                        kwargs.setdefault(kk, vv)
                    self._star_expanded = True
            else:
                kwargs[k.arg] = self.ev(k.value, env)
        star_expanded = self._star_expanded
        where = self.where(n)
        # super().m(...)
        if isinstance(n.func, ast.Attribute) and isinstance(n.func.value, ast.Call) and \
                isinstance(n.func.value.func, ast.Name) and n.func.value.func.id == "super" and self.cur and self.cur.cls:
            out = BOTTOM
            for k2 in self.ix.mro(self.cur.cls)[1:]:
                if n.func.attr in k2.methods:
                    recv = env.get("self", env.get("cls", BOTTOM))
                    out = self.call_function(k2.methods[n.func.attr], [recv, *args], kwargs, where)
                    self.resolved_calls += 1
                    break
            return out
        # mutation through a method on a variable / attribute receiver
        if isinstance(n.func, ast.Attribute):
            recv_node = n.func.value
            mname = n.func.attr
            recv = self.ev(recv_node, env)
            if self._is_container(recv) and mname in ("append", "add", "extend", "update", "insert", "setdefault", "appendleft"):
                new = self._mutated(recv, mname, args, kwargs)
                self.store(recv_node, new, env, where, weak=True)
                if mname == "setdefault":
                    return join(recv.elem, args[1] if len(args) > 1 else BOTTOM)
                return AV(types=frozenset({"None"}))
            f = self.getattr_av(recv, mname, where)
        else:
            f = self.ev(n.func, env)
        return self.apply(f, args, kwargs, n, env, where)

    @staticmethod
    def _is_container(v: AV) -> bool:
        return bool(v.types & {"list", "set", "dict"}) and not (v.types & {"str"})

    def _mutated(self, recv: AV, m: str, args: list[AV], kwargs: dict[str, AV]) -> AV:
        t = recv.types & {"list", "set", "dict"}
        if m in ("append", "add", "appendleft"):
            return AV(types=t, elem=args[0] if args else BOTTOM)
        if m == "insert":
            return AV(types=t, elem=args[1] if len(args) > 1 else BOTTOM)
        if m == "extend":
            return AV(types=t, elem=self.elem_of(args[0]) if args else BOTTOM)
        if m == "update":
            if "dict" in t:
                out = AV(types=t)
                for a in args:
                    out = join(out, AV(types=t, key=a.key, elem=a.elem))
                for k, v in kwargs.items():
                    out = join(out, AV(types=t, key=lit(k), elem=v))
                return out
            return AV(types=t, elem=join_all(self.elem_of(a) for a in args))
        if m == "setdefault":
            return AV(types=t, key=args[0] if args else BOTTOM, elem=args[1] if len(args) > 1 else BOTTOM)
        return recv

    def apply(self, f: AV, args: list[AV], kwargs: dict[str, AV], n: ast.Call | None, env: Env, where: str) -> AV:
        out = BOTTOM
        if not f.funcs:
            key = ast.unparse(n.func) if n is not None else "?"
            self.unresolved_calls[key] = self.unresolved_calls.get(key, 0) + 1
            lab = f.labels & {RAW, CONFIG, UNKNOWN}
            return typed("Any", labels=lab) if lab else BOTTOM
        for fn in f.funcs:
            kind = fn[0]
            self.resolved_calls += 1
            if kind == "func":
                fi = self.func_by_qual.get(fn[1])
                if fi is None:
                    continue
                a2 = list(args)
                if fi.cls is not None and fi.kind in ("method", "classmethod", "property") and f.bound is not None:
                    a2 = [f.bound, *args]
                elif fi.cls is not None and fi.kind == "classmethod":
                    a2 = [AV(funcs=frozenset({("class", fi.cls.qual)})), *args]
                r = self.call_function(fi, a2, kwargs, where)
                if fi.qual in self.sanitizers:
                    r = typed("str", labels=[self.sanitizers[fi.qual]])
                else:
                    r2 = self.inline_call(fi, a2, kwargs)
                    if r2 is not None:
                        r = r2
                        self._call_modes.setdefault(fi.qual, True)
                    elif self._call_modes.get(fi.qual) is not False:
                        self._call_modes[fi.qual] = False
                        self.changed = True
                out = join(out, r)
            elif kind == "class":
                c = self.ix.classes.get(fn[1])
                if c is not None:
                    out = join(out, self.construct(c, args, kwargs, where))
                elif fn[1] in ("str", "int", "float", "bool"):
                    out = join(out, self.ext_call(f"builtins.{fn[1]}", f, args, kwargs, n, env, where))
            elif kind == "ctor_like":
                out = join(out, AV(types=frozenset({fn[1]})))
            elif kind == "lambda":
                lam, mod, lenv, lcur = self.lambdas[fn[1]]
                e2 = dict(lenv)
                for p, v in zip(lam.args.args, args):
                    e2[p.arg] = v
                saved = (self.cur, self.cur_mod)
                self.cur_mod = mod
                try:
                    out = join(out, self.ev(lam.body, e2))
                finally:
                    self.cur, self.cur_mod = saved
            elif kind == "ext":
                out = join(out, self.ext_call(fn[1], f, args, kwargs, n, env, where))
            elif kind == "meth":
                out = join(out, self.builtin_method(f.bound or BOTTOM, fn[1], args, kwargs, where))
            elif kind == "pathmeth":
                out = join(out, self.path_method(f.bound or BOTTOM, fn[1], args, kwargs))
            elif kind == "jinja":
                out = join(out, self.jinja_call(f.bound or BOTTOM, fn[1], args, kwargs, where))
            elif kind == "module":
                pass
        return out

    @staticmethod
    def str_consts(v: AV) -> set[str]:
        """the finitely many strings v can be: its constants, or its alternatives when every one is made of literals only
        (`f"{name}.jinja"` with name one of three constants)"""
        out = {c for c in (v.consts or ()) if isinstance(c, str)}
        if not out and v.alts is not None and v.alts and all(all(p.kind == "lit" for p in alt) for alt in v.alts):
            out = {"".join(p.text for p in alt) for alt in v.alts}
        return out

    def jinja_call(self, recv: AV, attr: str, args: list[AV], kwargs: dict[str, AV], where: str) -> AV:
        """Environment.get_template(name) / Template.render(**vars): the Python -> template bridge (E4)."""
        if attr == "get_template":
            names = frozenset(self.str_consts(args[0])) if args else frozenset()
            if not names:
                self.render_log.setdefault("<non-constant template name>", {})
            return AV(types=frozenset({"jinja2.Template"}), consts=names or None)
        if attr == "render" and "jinja2.Template" in recv.types:
            if getattr(self, "_star_expanded", False) and not self._inline_stack and recv.consts and len(recv.consts) > 1:
                # a forwarding helper (`def _render_to(path, name, **context): get_template(name).render(**context)`) analysed on its own
                # sees the join of all its call sites: every template with every other template's variables.  Its call sites are
                # interpreted one by one (call-site-sensitive inlining), which is where the render is recorded.
                return typed("str", labels=[CONST])
            for name in (recv.consts or ["<non-constant template name>"]):
                d = self.render_log.setdefault(name, {})
                sites = self.render_where.setdefault(name, [])
                if where not in sites:
                    sites.append(where)
                self.render_conds.setdefault(name, set()).add(tuple(self.path_conds))
                for k, v in kwargs.items():
                    nv = join(d.get(k), v)
                    if nv != d.get(k):
                        d[k] = nv
                        self.changed = True
            return typed("str", labels=[CONST])
        return AV(types=recv.types)

    # -- transfer functions of library calls --------------------------------
    def ext_call(self, name: str, f: AV, args: list[AV], kwargs: dict[str, AV], n: ast.Call | None, env: Env, where: str) -> AV:
        short = name.rsplit(".", 1)[-1]
        a0 = args[0] if args else BOTTOM
        if short == "evolve" and name.split(".")[0] in ("attr", "attrs", "dataclasses"):
            for k, v in kwargs.items():
                self.write_field(a0, k, v, where)
            return a0
        if short in ("deepcopy", "copy"):
            return a0
        if short == "cast" and len(args) == 2:
            ann = self.tr.from_ann(self.cur_mod, n.args[0]) if n is not None and self.cur_mod else BOTTOM
            return self.shape(ann, args[1])
        if short == "str" and name.startswith("builtins"):
            return self.str_of(a0) if args else lit("")
        if short == "repr" and name.startswith("builtins"):
            return self.repr_of(a0)
        if short == "float" and name.startswith("builtins"):
            # float(<int>) is finite or raises OverflowError; float(<text>) / float(<float>) may be inf or nan
            return num(None, "float_finite" if args and a0.types and a0.types <= {"int", "bool"} else "float")
        if short in ("int", "bool", "len", "abs", "hash", "id", "ord", "round", "sum") and name.startswith("builtins"):
            return num(None, short if short in ("int", "bool") else "int")
        if short in ("any", "all", "isinstance", "issubclass", "callable", "hasattr"):
            return num(None, "bool")
        if short in ("list", "tuple", "sorted", "reversed", "iter", "frozenset", "set") and name.startswith("builtins"):
            t = "set" if short in ("set", "frozenset") else ("iter" if short in ("iter", "reversed") else "list")
            return AV(types=frozenset({t}), elem=self.elem_of(a0) if args else None)
        if short == "dict" and name.startswith("builtins"):
            out = AV(types=frozenset({"dict"}), key=a0.key, elem=a0.elem) if args else AV(types=frozenset({"dict"}))
            for k, v in kwargs.items():
                out = join(out, AV(types=frozenset({"dict"}), key=lit(k), elem=v))
            return out
        if short == "next":
            return self.elem_of(a0)
        if short == "enumerate":
            return AV(types=frozenset({"iter"}), elem=AV(types=frozenset({"tuple"}), tup=(num(), self.elem_of(a0))))
        if short == "zip":
            return AV(types=frozenset({"iter"}), elem=AV(types=frozenset({"tuple"}), tup=tuple(self.elem_of(a) for a in args)))
        if short == "chain":
            return AV(types=frozenset({"iter"}), elem=join_all(self.elem_of(a) for a in args))
        if short in ("min", "max"):
            return self.elem_of(a0) if len(args) == 1 else join_all(args)
        if short == "getattr" and len(args) >= 2:
            if args[1].consts:
                return join_all(self.getattr_av(a0, c, where) for c in args[1].consts if isinstance(c, str))
            src = a0.labels & {RAW, CONFIG}
            if not src:
                for t in a0.types:
                    s = self.source_label(t)
                    if s:
                        src = src | {s}
            # getattr(path_item, method): a typed document object
            out = typed("Any", labels=src or [UNKNOWN])
            for t in a0.types:
                c = self.ix.classes.get(t)
                if c and self.source_label(c.qual):
                    for fld, ann in self.ix.all_fields(c).items():
                        out = join(out, self.tag(self.tr.from_ann(c.module, ann), self.source_label(c.qual) or RAW))
            return out
        if name == "object.__setattr__" or (short == "__setattr__" and len(args) == 3):
            if args[1].consts:
                for c in args[1].consts:
                    self.write_field(a0, c, args[2], where)
            return AV(types=frozenset({"None"}))
        if short == "Path" or name.endswith("Path.cwd") or name.endswith("pathlib.Path"):
            if args:
                return replace(self.str_of(a0), types=frozenset({"Path"}))
            return AV(types=frozenset({"Path"}), labels=frozenset({CONFIG}))
        if name.endswith("Path.cwd") or short == "cwd":
            return AV(types=frozenset({"Path"}), labels=frozenset({CONFIG}))
        if short == "HTTPStatus":
            return AV(types=frozenset({"HTTPStatus"}), labels=frozenset({NUM}))
        if name.startswith("re.") or name.startswith("re_"):
            if short in ("findall", "split"):
                src = args[1] if len(args) > 1 else BOTTOM
                return AV(types=frozenset({"list"}), elem=typed("str", labels=src.labels))
            if short == "sub":
                src = args[2] if len(args) > 2 else BOTTOM
                return typed("str", labels=src.labels | (args[1].labels if len(args) > 1 else frozenset()))
            if short == "compile":
                return AV(types=frozenset({"re.Pattern"}))
            return typed("Any", labels=self._deep(join_all(args)))
        if short in ("urlparse",):
            return AV(types=frozenset({"urllib.ParseResult"}), labels=a0.labels)
        if short in ("pformat",):
            return typed("str", labels=self._deep(a0) or [UNKNOWN])
        if short in ("print", "secho", "echo", "style"):
            return AV(types=frozenset({"None"}))
        if short == "version" and "metadata" in name:
            return typed("str", labels=[CONST])
        if short in ("field", "Field", "factory"):
            for k in ("factory", "default_factory"):
                if k in kwargs:
                    return self.apply(kwargs[k], [], {}, None, env, where)
            return kwargs.get("default", BOTTOM)
        if short in ("which",):
            return typed("str", labels=[CONFIG])
        if short in ("loads", "load") and ("json" in name or "yaml" in name.lower()):
            return typed("Any", labels=[RAW])
        if short in ("get",) and "httpx" in name:
            return AV(types=frozenset({"httpx.Response"}), labels=frozenset({RAW}))
        if short == "guess_type":
            return AV(types=frozenset({"tuple"}), elem=typed("str", labels=[CONST]))
        if short in ("YAML", "Message", "TypeVar", "NewType", "Typer", "Option", "PackageLoader", "ChoiceLoader",
                     "FileSystemLoader", "Environment", "run", "rmtree", "getencoder", "UUID", "isoparse"):
            return AV(types=frozenset({name}))
        if name.startswith("builtins.") and short[:1].isupper():  # exception classes
            return AV(types=frozenset({name}))
        self.unresolved_calls[name] = self.unresolved_calls.get(name, 0) + 1
        return typed("Any", labels=(self._deep(join_all(args)) & {RAW, UNKNOWN, CONFIG}) or {UNKNOWN})

    def path_method(self, recv: AV, m: str, args: list[AV], kwargs: dict[str, AV]) -> AV:
        if m in ("absolute", "resolve", "with_suffix", "joinpath", "expanduser"):
            return recv
        if m in ("as_uri", "as_posix", "read_text"):
            return typed("str", labels=recv.labels)
        if m == "read_bytes":
            return typed("bytes", labels=[RAW])
        if m in ("exists", "is_dir", "is_file"):
            return num(None, "bool")
        return AV(types=frozenset({"None"}))

    def builtin_method(self, recv: AV, m: str, args: list[AV], kwargs: dict[str, AV], where: str = "") -> AV:
        a0 = args[0] if args else BOTTOM
        is_str = "str" in recv.types or (recv.alts is not None) or ("Any" in recv.types and not recv.elem)
        if recv.types & {"dict"} or (recv.elem is not None and recv.key is not None):
            if m == "get":
                d = args[1] if len(args) > 1 else AV(types=frozenset({"None"}))
                return join(recv.elem, d)
            if m == "pop":
                return join(recv.elem, args[1] if len(args) > 1 else BOTTOM)
            if m == "items":
                return AV(types=frozenset({"list"}), elem=AV(types=frozenset({"tuple"}), tup=(recv.key or BOTTOM, recv.elem or BOTTOM)))
            if m == "values":
                return AV(types=frozenset({"list"}), elem=recv.elem)
            if m == "keys":
                return AV(types=frozenset({"list"}), elem=recv.key)
            if m == "copy":
                return recv
        if recv.types & {"list", "set", "tuple", "iter"} and not is_str:
            if m in ("pop",):
                return self.elem_of(recv)
            if m in ("copy", "union", "difference", "intersection"):
                return join(recv, a0) if m == "union" else recv
            if m in ("index", "count"):
                return num()
            if m in ("sort", "remove", "discard", "clear", "reverse"):
                return AV(types=frozenset({"None"}))
        if is_str or recv.labels:
            if m == "replace" and len(args) == 2:
                return self.replace_transfer(recv, args[0], args[1], where)
            if m in ("upper", "lower", "capitalize", "title", "strip", "lstrip", "rstrip", "casefold", "swapcase",
                     "removeprefix", "removesuffix", "zfill", "ljust", "rjust", "center", "expandtabs"):
                return replace(recv, types=frozenset({"str"}), alts=recv.alts if m in ("upper", "lower") and self._alts_caseless(recv) else None,
                               consts=None)
            if m in ("split", "rsplit", "splitlines", "partition", "rpartition"):
                return AV(types=frozenset({"list"}), elem=typed("str", labels=recv.labels))
            if m == "join":
                el = self.elem_of(a0)
                return typed("str", labels=(recv.labels | el.labels) or [CONST])
            if m == "format":
                return typed("str", labels=recv.labels | self._deep(join_all(args)) | self._deep(join_all(kwargs.values())))
            if m in ("startswith", "endswith", "isidentifier", "isupper", "islower", "isalpha", "isdigit", "isalnum", "isspace"):
                return num(None, "bool")
            if m in ("encode",):
                return typed("bytes", labels=recv.labels)
            if m in ("decode",):
                return typed("str", labels=recv.labels)
            if m in ("find", "index", "count", "rfind"):
                return num()
            if m == "get" and recv.labels & {RAW, CONFIG}:
                return join(typed("Any", labels=recv.labels & {RAW, CONFIG}), args[1] if len(args) > 1 else BOTTOM)
            if m in ("items", "values", "keys") and recv.labels & {RAW, CONFIG}:
                e = typed("Any", labels=recv.labels & {RAW, CONFIG})
                return AV(types=frozenset({"list"}), elem=AV(types=frozenset({"tuple"}), tup=(e, e)) if m == "items" else e)
        if recv.labels & {RAW, CONFIG}:
            return typed("Any", labels=recv.labels & {RAW, CONFIG})
        return BOTTOM

    @staticmethod
    def _alts_caseless(v: AV) -> bool:
        # upper()/lower() keep the structure only when no literal part would change
        if v.alts is None:
            return False
        return all(p.kind != "lit" or not any(ch.isalpha() for ch in p.text) for alt in v.alts for p in alt)

    def replace_transfer(self, recv: AV, old: AV, new: AV, where: str) -> AV:
        """x.replace(lit, lit): an escaping step iff it maps a character c to backslash + something."""
        o = next(iter(old.consts)) if old.consts and len(old.consts) == 1 else None
        nw = next(iter(new.consts)) if new.consts and len(new.consts) == 1 else None
        if isinstance(o, str) and isinstance(nw, str) and len(o) == 1 and nw.startswith("\\") and len(nw) >= 2:
            site = self.escape_sites.setdefault(where, {"chars": o, "func": self.cur.qual if self.cur else "<module>"})
            site["chars"] = o

            def f(ls: frozenset[str]) -> set[str]:
                out = set()
                for l in ls:
                    if l in (RAW, UNKNOWN, RAW_NONSTR, JSONREPR, PYREPR, REPR_OF_ESC):
                        out.add(ESC + o)
                    elif is_esc(l):
                        # chained replace: backslash must have been neutralised first, or it is neutralised never
                        out.add(ESC + "".join(sorted(set(l[len(ESC):]) | {o})) if o != "\\" else l)
                    else:
                        out.add(l)
                return out

            return replace(map_labels(recv, f), types=frozenset({"str"}))
        return replace(recv, types=frozenset({"str"}), alts=None, consts=None)

    # ------------------------------------------------------------------ statements
    def ex(self, body: list[ast.stmt], env: Env | None) -> Env | None:
        res: Env | None = None
        for _c, e in self.ex_parts(body, env):
            res = self.join_env(res, e)
        return res

    def ex_parts(self, body: list[ast.stmt], env: Env | None) -> list[tuple[tuple[tuple[str, bool], ...], Env]]:
        """Interprets a block and returns its final environments as partitions (branch conditions taken inside this block, env).
        Normally there is one partition.  Branch conditions are recorded in path_conds so that bridge calls know under which tests
        they happen.  When the branches of an `if` (or the arms of `x = a if c else b`) leave a variable holding DIFFERENT template
        objects, the environments are not joined: the rest of the block - and of the enclosing blocks - is interpreted once per
        partition (trace partitioning), so that `t = A if c else B; t.render(x=v)` sees v as narrowed by c for A and by not-c for
        B, exactly like `if c: A.render(x=v) else: B.render(x=v)`."""
        parts: list[tuple[tuple[tuple[str, bool], ...], Env]] = [((), env)] if env is not None else []
        for st in body:
            if isinstance(st, ast.Assign) and isinstance(st.value, ast.IfExp):
                st = self._ifexp_as_if(st)
            new: list[tuple[tuple[tuple[str, bool], ...], Env]] = []
            for conds, e in parts:
                n0 = len(self.path_conds)
                self.path_conds.extend(conds)
                try:
                    if isinstance(st, ast.If):
                        self.ev(st.test, e)
                        t_env, f_env = self.narrow(st.test, e)
                        src = ast.unparse(st.test)
                        live: list[tuple[tuple[tuple[str, bool], ...], Env]] = []
                        for branch, e0, pol in ((st.body, t_env, True), (st.orelse, f_env, False)):
                            self.path_conds.append((src, pol))
                            try:
                                live += [(((src, pol),) + c2, e2) for c2, e2 in self.ex_parts(branch, dict(e0))]
                            finally:
                                self.path_conds.pop()
                        if 1 < len(live) <= 6 and any(self._different_templates(x.get(k), y.get(k))
                                                      for ix_, (_cx, x) in enumerate(live) for _cy, y in live[ix_ + 1:] for k in set(x) | set(y)):
                            new += [(conds + c2, e2) for c2, e2 in live]
                        else:
                            joined: Env | None = None
                            for _c2, e2 in live:
                                joined = self.join_env(joined, e2)
                            if joined is not None:
                                new.append((conds, joined))
                    else:
                        e2 = self.ex1(st, e)
                        if e2 is not None:
                            new.append((conds, e2))
                finally:
                    del self.path_conds[n0:]
            if len(new) > 8:
                joined = None
                for _c2, e2 in new:
                    joined = self.join_env(joined, e2)
                new = [((), joined)] if joined is not None else []
            parts = new
        return parts

    @staticmethod
    def _different_templates(x: AV | None, y: AV | None) -> bool:
        return (x is not None and y is not None and "jinja2.Template" in x.types and "jinja2.Template" in y.types
                and bool(x.consts) and bool(y.consts) and x.consts != y.consts)

    @staticmethod
    def _ifexp_as_if(st: ast.Assign) -> ast.If:
        """`x = a if c else b` interpreted as `if c: x = a` / `else: x = b` (same evaluation order of the arms that run)"""
        v = st.value
        assert isinstance(v, ast.IfExp)
        mk = lambda val: ast.copy_location(ast.Assign(targets=st.targets, value=val, lineno=st.lineno), st)  # noqa: E731
        node = ast.If(test=v.test, body=[mk(v.body)], orelse=[mk(v.orelse)])
        return ast.copy_location(node, st)

    def ex1(self, st: ast.stmt, env: Env) -> Env | None:
        if isinstance(st, ast.Assign):
            v = self.ev(st.value, env)
            for t in st.targets:
                self.assign(t, v, env, self.where(st))
            return env
        if isinstance(st, ast.AnnAssign):
            if st.value is not None:
                v = self.shape(self.tr.from_ann(self.cur_mod, st.annotation), self.ev(st.value, env))
                self.assign(st.target, v, env, self.where(st))
            return env
        if isinstance(st, ast.AugAssign):
            cur = self.ev(st.target, env)
            v = self.ev(st.value, env)
            if isinstance(st.op, ast.Add) and ("str" in cur.types or cur.alts is not None):
                nv = concat([cur, self.str_of(v) if "str" not in v.types else v], ["", ast.unparse(st.value)], self.where(st))
                nv = replace(nv, alts=None)  # accumulations (`detail += ...`) are not single fragments
            else:
                nv = join(cur, v)
            self.assign(st.target, nv, env, self.where(st), weak=True)
            return env
        if isinstance(st, ast.Expr):
            self.ev(st.value, env)
            return env
        if isinstance(st, ast.Return):
            self._ret_acc = join(self._ret_acc, self.ev(st.value, env) if st.value is not None else AV(types=frozenset({"None"})))
            return None
        if isinstance(st, ast.Raise):
            self.ev(st.exc, env)
            return None
        if isinstance(st, ast.If):
            self.ev(st.test, env)
            t_env, f_env = self.narrow(st.test, env)
            a = self.ex(st.body, dict(t_env))
            b = self.ex(st.orelse, dict(f_env))
            return self.join_env(a, b)
        if isinstance(st, (ast.For, ast.AsyncFor)):
            it = self.ev(st.iter, env)
            cur: Env | None = dict(env)
            broke: Env | None = None
            for _ in range(3):
                e2 = dict(cur)  # type: ignore[arg-type]
                self.assign(st.target, self.elem_of(it), e2, self.where(st))
                # what reaches a `continue` flows to the next iteration like the end of the body; what reaches a `break` leaves the loop
                self._loop_acc.append({"continue": None, "break": None})
                try:
                    out = self.ex(st.body, e2)
                finally:
                    acc = self._loop_acc.pop()
                out = self.join_env(out, acc["continue"])
                broke = self.join_env(broke, acc["break"])
                nxt = self.join_env(cur, out)
                if nxt == cur:
                    break
                cur = nxt
                it = self.ev(st.iter, cur)  # type: ignore[arg-type]
            post = self.ex(st.orelse, dict(cur)) if st.orelse else cur  # type: ignore[arg-type]
            return self.join_env(self.join_env(cur, post), broke)
        if isinstance(st, ast.While):
            cur = dict(env)
            broke = None
            for _ in range(3):
                self.ev(st.test, cur)
                t_env, _f = self.narrow(st.test, cur)
                self._loop_acc.append({"continue": None, "break": None})
                try:
                    out = self.ex(st.body, dict(t_env))
                finally:
                    acc = self._loop_acc.pop()
                out = self.join_env(out, acc["continue"])
                broke = self.join_env(broke, acc["break"])
                nxt = self.join_env(cur, out)
                if nxt == cur:
                    break
                cur = nxt  # type: ignore[assignment]
            return self.join_env(cur, broke)
        if isinstance(st, ast.Try):
            a = self.ex(st.body, dict(env))
            outs = [self.ex(st.orelse, dict(a)) if (a is not None and st.orelse) else a]
            base = self.join_env(env, a) or env
            for h in st.handlers:
                e2 = dict(base)
                if h.name:
                    e2[h.name] = AV(types=frozenset({"Exception"}))
                outs.append(self.ex(h.body, e2))
            res: Env | None = None
            for o in outs:
                res = self.join_env(res, o)
            if st.finalbody:
                res = self.ex(st.finalbody, res if res is not None else dict(env))
            return res
        if isinstance(st, (ast.With, ast.AsyncWith)):
            for item in st.items:
                v = self.ev(item.context_expr, env)
                if item.optional_vars is not None:
                    self.assign(item.optional_vars, v, env, self.where(st))
            return self.ex(st.body, env)
        if isinstance(st, (ast.FunctionDef, ast.AsyncFunctionDef)):
            qual = None
            for g in self.ix.all_functions:
                if g.node is st:
                    qual = g.qual
                    ce = self.closure_env.setdefault(qual, {})
                    for k, v in env.items():
                        nv = join(ce.get(k), v)
                        if nv != ce.get(k):
                            ce[k] = nv
                            self.changed = True
            if qual:
                env[st.name] = AV(funcs=frozenset({("func", qual)}))
            return env
        if isinstance(st, ast.ImportFrom):
            if self.cur_mod is not None:
                base = self.ix._abs_import(self.cur_mod, st.level, st.module)
                for a in st.names:
                    r = self.ix._resolve_abs(f"{base}.{a.name}" if base else a.name, 0)
                    if r is not None:
                        env[a.asname or a.name] = self.resolved_to_av(r)
            return env
        if isinstance(st, ast.Import):
            for a in st.names:
                env[a.asname or a.name.split(".")[0]] = AV(funcs=frozenset({("ext", a.name)}))
            return env
        if isinstance(st, ast.Delete):
            return env
        if isinstance(st, (ast.Pass, ast.Nonlocal, ast.Global, ast.Assert, ast.ClassDef)):
            return env
        if isinstance(st, (ast.Continue, ast.Break)):
            if self._loop_acc:
                k = "continue" if isinstance(st, ast.Continue) else "break"
                self._loop_acc[-1][k] = self.join_env(self._loop_acc[-1][k], dict(env))
            return None
        if isinstance(st, ast.Match):
            outs2 = [self.ex(c.body, dict(env)) for c in st.cases]
            res2: Env | None = None
            for o in outs2:
                res2 = self.join_env(res2, o)
            return res2 or env
        return env

    @staticmethod
    def join_env(a: Env | None, b: Env | None) -> Env | None:
        if a is None:
            return b
        if b is None:
            return a
        out = dict(a)
        for k, v in b.items():
            out[k] = join(a.get(k), v) if k in a else v
        return out

    def assign(self, target: ast.expr, v: AV, env: Env, where: str = "", weak: bool = False) -> None:
        if isinstance(target, ast.Name):
            env[target.id] = join(env.get(target.id), v) if weak else v
        elif isinstance(target, (ast.Tuple, ast.List)):
            n = len(target.elts)
            rec = self.record_fields(v) if v.tup is None and v.types else None
            if rec is not None and len(rec) == n and not any(isinstance(t, ast.Starred) for t in target.elts):
                v = replace(v, tup=tuple(rec))
            for i, t in enumerate(target.elts):
                if isinstance(t, ast.Starred):
                    self.assign(t.value, AV(types=frozenset({"list"}), elem=self.elem_of(v)), env, where, weak)
                elif v.tup is not None and len(v.tup) == n:
                    self.assign(t, v.tup[i], env, where, weak)
                else:
                    self.assign(t, self.elem_of(v), env, where, weak)
        else:
            self.store(target, v, env, where, weak)

    def store(self, target: ast.expr, v: AV, env: Env, where: str, weak: bool = False) -> None:
        if isinstance(target, ast.Name):
            env[target.id] = join(env.get(target.id), v)
        elif isinstance(target, ast.Attribute):
            recv = self.ev(target.value, env)
            self.write_field(recv, target.attr, v, where)
        elif isinstance(target, ast.Subscript):
            base = self.ev(target.value, env)
            k = self.ev(target.slice, env)
            t = base.types & {"dict", "list"} or frozenset({"dict"})
            self.store(target.value, AV(types=t, key=k if "dict" in t else None, elem=v), env, where, weak=True)

    # ------------------------------------------------------------------ narrowing
    def narrow(self, test: ast.expr, env: Env) -> tuple[Env, Env]:
        """(env if test is true, env if test is false); only patterns the repository uses."""
        t_env, f_env = dict(env), dict(env)
        if isinstance(test, ast.UnaryOp) and isinstance(test.op, ast.Not):
            a, b = self.narrow(test.operand, env)
            return b, a
        if isinstance(test, ast.BoolOp):
            # `a and b` is false when a is false, or a is true and b is false (and dually for `or`): the other outcome is the join of
            # those cases, so `if isinstance(x, T) and not ok(x): return` narrows x on the fall-through as well
            is_and = isinstance(test.op, ast.And)
            cur = dict(env)
            other: Env | None = None
            for v in test.values:
                t, f = self.narrow(v, cur)
                cur, leave = (t, f) if is_and else (f, t)
                other = self.join_env(other, leave)
            other = other if other is not None else (f_env if is_and else t_env)
            return (cur, other) if is_and else (other, cur)
        if isinstance(test, ast.Call) and isinstance(test.func, ast.Name) and test.func.id == "isinstance" and len(test.args) == 2:
            tgt = test.args[0]
            key = self._narrow_key(tgt)
            if key is not None:
                cur = self.ev(tgt, env)
                want = self._isinstance_types(test.args[1])
                if want:
                    yes, no = self._split_types(cur, want)
                    t_env[key] = yes
                    f_env[key] = no
            return t_env, f_env
        if isinstance(test, ast.Call) and dotted(test.func) in ("math.isfinite", "isfinite", "math.isinf", "isinf", "math.isnan", "isnan") \
                and len(test.args) == 1:
            key = self._narrow_key(test.args[0])
            if key is not None:
                cur = self.ev(test.args[0], env)
                what = dotted(test.func).rsplit(".", 1)[-1]
                step = {"isfinite": {"float": "float_finite", "float_noinf": "float_finite", "float_nonan": "float_finite"},
                        "isinf": {"float": "float_noinf", "float_nonan": "float_finite"},
                        "isnan": {"float": "float_nonan", "float_noinf": "float_finite"}}[what]
                excluded = replace(cur, types=frozenset(step.get(t, t) for t in cur.types))
                if what == "isfinite":
                    t_env[key] = excluded
                else:
                    f_env[key] = excluded
            return t_env, f_env
        if isinstance(test, ast.Compare) and len(test.ops) == 1:
            op = test.ops[0]
            l, r = test.left, test.comparators[0]
            key = self._narrow_key(l)
            if key is not None and isinstance(r, ast.Constant):
                cur = self.ev(l, env)
                if r.value is None and isinstance(op, (ast.Is, ast.IsNot, ast.Eq, ast.NotEq)):
                    some = replace(cur, types=cur.types - {"None"})
                    none = AV(types=frozenset({"None"}))
                    if isinstance(op, (ast.Is, ast.Eq)):
                        t_env[key], f_env[key] = none, some
                    else:
                        t_env[key], f_env[key] = some, none
                elif isinstance(r.value, str) and isinstance(op, (ast.Eq, ast.NotEq)):
                    c = lit(r.value)
                    if isinstance(op, ast.Eq):
                        t_env[key] = c
                    else:
                        f_env[key] = c
            return t_env, f_env
        if isinstance(test, ast.Name):
            named = self._named_condition(test)
            if named is not None:
                return self.narrow(named, env)
        if isinstance(test, (ast.Name, ast.Attribute)):
            key = self._narrow_key(test)
            if key is not None:
                cur = self.ev(test, env)
                t_env[key] = replace(cur, types=cur.types - {"None"})
            return t_env, f_env
        return t_env, f_env

    def _named_condition(self, use: ast.Name) -> ast.expr | None:
        """`c = <test>` ... `if c:` decides what `if <test>:` decides, when c has that one definition in the function and nothing
        the test reads is rebound between the definition and the use (lexically: every store to an operand lies before the
        definition or after the use)."""
        f = self.cur
        node = getattr(f, "node", None)
        if node is None:
            return None
        cache = self.__dict__.setdefault("_named_cond_cache", {})
        tab = cache.get(id(node))
        if tab is None:
            stores: dict[str, list[int]] = {}
            defs: dict[str, list[ast.Assign | ast.AnnAssign]] = {}
            for a in node.args.posonlyargs + node.args.args + node.args.kwonlyargs:
                stores.setdefault(a.arg, []).append(node.lineno)
            for x in ast.walk(node):
                if isinstance(x, ast.Name) and isinstance(x.ctx, (ast.Store, ast.Del)):
                    stores.setdefault(x.id, []).append(x.lineno)
                if isinstance(x, (ast.Assign, ast.AnnAssign)) and x.value is not None:
                    tg = x.targets[0] if isinstance(x, ast.Assign) and len(x.targets) == 1 else getattr(x, "target", None)
                    if isinstance(tg, ast.Name):
                        defs.setdefault(tg.id, []).append(x)
            tab = cache[id(node)] = (stores, defs)
        stores, defs = tab
        ds = defs.get(use.id, [])
        if len(ds) != 1 or len(stores.get(use.id, [])) != 1:
            return None
        d = ds[0]
        v = d.value
        if not isinstance(v, (ast.BoolOp, ast.Compare, ast.UnaryOp)) and not (
                isinstance(v, ast.Call) and isinstance(v.func, ast.Name) and v.func.id == "isinstance"):
            return None
        if d.lineno >= use.lineno:
            return None
        for x in ast.walk(v):
            if isinstance(x, ast.Name) and any(d.lineno <= ln <= use.lineno for ln in stores.get(x.id, [])):
                return None
        return v

    @staticmethod
    def _narrow_key(n: ast.expr) -> str | None:
        if isinstance(n, ast.Name):
            return n.id
        return None

    def _isinstance_types(self, n: ast.expr) -> set[str]:
        out: set[str] = set()
        elts = n.elts if isinstance(n, ast.Tuple) else [n]
        for e in elts:
            d = dotted(e)
            if d is None:
                continue
            r = self.ix.resolve(self.cur_mod, d) if self.cur_mod else None
            if r and r[0] == "class":
                out |= self.tr.class_av(r[1]).types | {r[1].qual}
            elif r and r[0] == "var":
                v = self.modvar(*r[1])
                for t in (v.tup or ()):
                    out |= {q for (k, q) in t.funcs if k == "class"}
                    for (k, q) in t.funcs:
                        if k == "class" and q in self.ix.classes:
                            out |= self.tr.class_av(self.ix.classes[q]).types
            else:
                out.add(d.rsplit(".", 1)[-1])
        if "float" in out:
            out |= {"float_noinf", "float_nonan", "float_finite"}  # the same class, with what is known about the value
        return out

    def _split_types(self, cur: AV, want: set[str]) -> tuple[AV, AV]:
        yes_t = cur.types & want
        no_t = cur.types - want
        anyish = "Any" in cur.types or not cur.types
        if want <= {"str"}:
            if anyish:
                yes = replace(cur, types=frozenset({"str"}))
                no = map_labels(cur, lambda ls: {RAW_NONSTR if l == RAW else l for l in ls})
                return yes, no
        if want <= NUMERIC and anyish:
            return replace(cur, types=frozenset(want - {"float_noinf", "float_nonan", "float_finite"}), labels=frozenset({NUM}), alts=None), cur
        if anyish:
            return replace(cur, types=frozenset(want) if not yes_t else yes_t), cur
        # a concrete (non-Any) type set disjoint from the tested classes: the branch is infeasible -> bottom
        yes = self.finalize(replace(cur, types=yes_t)) if yes_t else BOTTOM
        no = self.finalize(replace(cur, types=no_t)) if no_t else cur
        if cur.tup is None and cur.elem is None:
            return yes, no
        return yes, no
