"""E2 FlowGraph - statement-level CFG of one function, dominators, path queries. Pure `ast`."""
from __future__ import annotations

import ast
from typing import Callable, Iterable

ENTRY = "ENTRY"
EXIT = "EXIT"


class CFG:
    """Nodes are ast.stmt objects (compound statements stand for their header/test) plus ENTRY/EXIT."""

    def __init__(self, fn: ast.FunctionDef | ast.AsyncFunctionDef):
        self.fn = fn
        self.succ: dict[object, set[object]] = {ENTRY: set(), EXIT: set()}
        self.nodes: list[object] = [ENTRY]
        self.parent: dict[int, ast.stmt] = {}
        outs = self._seq(fn.body, [ENTRY], None, None, [])
        for o in outs:
            self._edge(o, EXIT)
        self.nodes.append(EXIT)
        self.pred: dict[object, set[object]] = {n: set() for n in self.succ}
        for a, bs in self.succ.items():
            for b in bs:
                self.pred.setdefault(b, set()).add(a)
        self._dom: dict[object, set[object]] | None = None

    # -- construction -------------------------------------------------------
    def _add(self, n: object) -> None:
        if n not in self.succ:
            self.succ[n] = set()
            self.nodes.append(n)

    def _edge(self, a: object, b: object) -> None:
        self._add(a)
        self._add(b)
        self.succ[a].add(b)

    def _seq(self, body: list[ast.stmt], preds: list[object], loop_head: object | None, loop_exits: list | None,
             handlers: list[object]) -> list[object]:
        """returns the list of nodes whose control falls out of the sequence"""
        cur = list(preds)
        for st in body:
            if not cur:
                break  # unreachable code
            cur = self._stmt(st, cur, loop_head, loop_exits, handlers)
        return cur

    def _stmt(self, st: ast.stmt, preds: list[object], loop_head: object | None, loop_exits: list | None,
              handlers: list[object]) -> list[object]:
        for p in preds:
            self._edge(p, st)
        for h in handlers:  # any statement inside a try body may raise into its handlers
            self._edge(st, h)
        if isinstance(st, ast.If):
            a = self._seq(st.body, [st], loop_head, loop_exits, handlers)
            b = self._seq(st.orelse, [st], loop_head, loop_exits, handlers) if st.orelse else [st]
            return a + b
        if isinstance(st, (ast.For, ast.AsyncFor, ast.While)):
            exits: list[object] = []
            body_out = self._seq(st.body, [st], st, exits, handlers)
            for o in body_out:
                self._edge(o, st)
            after = self._seq(st.orelse, [st], loop_head, loop_exits, handlers) if st.orelse else [st]
            return after + exits
        if isinstance(st, ast.Try):
            hnodes: list[object] = list(st.handlers)
            body_out = self._seq(st.body, [st], loop_head, loop_exits, handlers + hnodes)
            if st.orelse:
                body_out = self._seq(st.orelse, body_out, loop_head, loop_exits, handlers)
            outs = list(body_out)
            for h in st.handlers:
                self._edge(st, h)
                outs += self._seq(h.body, [h], loop_head, loop_exits, handlers)
            if st.finalbody:
                outs = self._seq(st.finalbody, outs, loop_head, loop_exits, handlers)
            return outs
        if isinstance(st, (ast.With, ast.AsyncWith)):
            return self._seq(st.body, [st], loop_head, loop_exits, handlers)
        if isinstance(st, (ast.Return, ast.Raise)):
            self._edge(st, EXIT)
            return []
        if isinstance(st, ast.Continue):
            if loop_head is not None:
                self._edge(st, loop_head)
            return []
        if isinstance(st, ast.Break):
            if loop_exits is not None:
                loop_exits.append(st)
            return []
        if isinstance(st, ast.Match):
            outs2: list[object] = []
            for c in st.cases:
                outs2 += self._seq(c.body, [st], loop_head, loop_exits, handlers)
            return outs2 + [st]
        return [st]

    # -- queries ----------------------------------------------------------------
    def dominators(self) -> dict[object, set[object]]:
        if self._dom is not None:
            return self._dom
        nodes = [n for n in self.nodes if n in self.succ]
        reach = self.reachable_from(ENTRY)
        nodes = [n for n in nodes if n in reach]
        dom: dict[object, set[object]] = {n: set(nodes) for n in nodes}
        dom[ENTRY] = {ENTRY}
        changed = True
        while changed:
            changed = False
            for n in nodes:
                if n is ENTRY:
                    continue
                ps = [dom[p] for p in self.pred.get(n, ()) if p in dom]
                new = set.intersection(*ps) if ps else set()
                new = new | {n}
                if new != dom[n]:
                    dom[n] = new
                    changed = True
        self._dom = dom
        return dom

    def reachable_from(self, start: object, avoid: Callable[[object], bool] | None = None) -> set[object]:
        seen = {start}
        stack = [start]
        while stack:
            n = stack.pop()
            for s in self.succ.get(n, ()):
                if s in seen:
                    continue
                if avoid is not None and avoid(s):
                    continue
                seen.add(s)
                stack.append(s)
        return seen

    def every_path_passes(self, src: object, dst: object, through: Callable[[object], bool]) -> bool:
        """True iff every path src ->* dst contains (strictly between or at dst's predecessors) a node satisfying
        `through`. Decided by reachability with the `through` nodes removed."""
        if src is dst:
            return False
        r = self.reachable_from(src, avoid=lambda n: n is not dst and through(n))
        return dst not in r

    def stmts(self) -> Iterable[ast.stmt]:
        return [n for n in self.nodes if isinstance(n, ast.stmt)]

    def is_dominated_by(self, node: object, pred: Callable[[object], bool]) -> bool:
        d = self.dominators().get(node)
        if d is None:
            return True  # unreachable
        return any(pred(x) for x in d if x is not node)


def own_exprs(st: ast.stmt) -> list[ast.AST]:
    """Expression parts that belong to the statement node itself (not to nested statements)."""
    if isinstance(st, ast.If) or isinstance(st, ast.While):
        return [st.test]
    if isinstance(st, (ast.For, ast.AsyncFor)):
        return [st.target, st.iter]
    if isinstance(st, (ast.With, ast.AsyncWith)):
        return [i.context_expr for i in st.items]
    if isinstance(st, ast.Try):
        return []
    if isinstance(st, ast.ExceptHandler):
        return [st.type] if st.type is not None else []
    if isinstance(st, (ast.FunctionDef, ast.AsyncFunctionDef, ast.ClassDef)):
        return []
    return [st]


def walk_own(st: ast.stmt) -> Iterable[ast.AST]:
    for e in own_exprs(st):
        yield from ast.walk(e)
