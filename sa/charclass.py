"""E6 CharClass - abstract interpretation of the naming pipeline (utils.py) over sets of code points.

Domain per string value: (any: code points that may occur anywhere, first: code points that may occur first,
empty: may be the empty string, valid: proven `isidentifier()`, finite: the exact finite language when known).
Code-point sets are Python ints used as bitsets over all 0x110000 code points, so a verdict is a statement about
every Unicode string, not a sample. Unsupported constructs raise AnalysisError naming the node: it never guesses.
"""
from __future__ import annotations

import ast
import builtins as _builtins
import copy
import keyword
import re
from dataclasses import dataclass, replace
from typing import Any

from .core import AnalysisError
from .pyindex import FuncInfo, Module, PyIndex, dotted

NCP = 0x110000
_ALL_STR: str | None = None


def all_chars() -> str:
    global _ALL_STR
    if _ALL_STR is None:
        _ALL_STR = "".join(map(chr, range(NCP)))
    return _ALL_STR


def mk(cps: Any) -> int:
    ba = bytearray(NCP // 8 + 1)
    for c in cps:
        ba[c >> 3] |= 1 << (c & 7)
    return int.from_bytes(ba, "little")


def bits_of_str(s: str) -> int:
    return mk(map(ord, s))


def members(b: int, limit: int = 12) -> list[int]:
    out = []
    i = 0
    while b and len(out) < limit:
        low = b & -b
        i = low.bit_length() - 1
        out.append(i)
        b ^= low
    return out


def popcount(b: int) -> int:
    return bin(b).count("1")


class Tables:
    """CPython's own definitions, tabulated once over all code points."""

    def __init__(self) -> None:
        a = all_chars()
        self.ALL = (1 << NCP) - 1
        self.ID_START = mk(i for i, c in enumerate(a) if c.isidentifier())
        self.ID_CONT = mk(i for i, c in enumerate(a) if ("a" + c).isidentifier())
        self.lower_exc = {i: c.lower() for i, c in enumerate(a) if c.lower() != c}
        self.upper_exc = {i: c.upper() for i, c in enumerate(a) if c.upper() != c}
        self.cap_exc = {i: c.capitalize() for i, c in enumerate(a) if c.capitalize() != c}
        self._cls: dict[str, int] = {}

    def regex_class(self, cls: str) -> int:
        if cls not in self._cls:
            self._cls[cls] = mk(map(ord, re.findall(cls, all_chars())))
        return self._cls[cls]

    def image(self, s: int, exc: dict[int, str], first_only: bool = False) -> int:
        keys = [k for k in exc if (s >> k) & 1]
        out = s
        for k in keys:
            out &= ~(1 << k)
        add = set()
        for k in keys:
            t = exc[k]
            add |= {ord(t[0])} if first_only and t else set(map(ord, t))
        return out | mk(add)


@dataclass(frozen=True)
class S:
    any: int
    first: int
    empty: bool
    valid: bool = False
    finite: frozenset[str] | None = None
    fnd: int | None = None     # possible first characters that are not delimiters (None: derive from any/first)
    fnd_def: bool = False      # the string definitely contains a non-delimiter character
    nokw: bool = False         # proven not to be a Python keyword nor a member of the repository's reserved list

    def describe(self, t: "Tables") -> dict[str, Any]:
        return {"chars": popcount(self.any), "first": popcount(self.first), "may_be_empty": self.empty, "validated": self.valid}


@dataclass(frozen=True)
class L:
    elem: S
    maybe_empty: bool
    head: S | None = None      # abstraction of the first element, when known better than `elem`
    split_of: S | None = None  # the list is re.split(...) of this string (pieces in order, nothing removed or only D)


@dataclass(frozen=True)
class I:
    """abstract int: sign in {'neg', 'nonneg', 'any'}"""
    sign: str = "any"


EITHER = ("either-str-or-int",)
FACTS = "\x00facts"  # key of an abstract environment: the facts (variable, fact) established by the tests passed on this path


@dataclass(frozen=True)
class B:
    """an unknown boolean, with the refinements it implies"""
    when_true: tuple[tuple[str, str], ...] = ()   # (variable, fact)
    when_false: tuple[tuple[str, str], ...] = ()


_RESERVED: frozenset[str] | None = None
_DELIMS = ". _-"  # replaced by the repository's own DELIMITERS when a CharInterp is created


def const_s(s: str) -> S:
    nd = [c for c in s if c not in _DELIMS]
    return S(bits_of_str(s), bits_of_str(s[:1]), s == "", s.isidentifier(), frozenset({s}),
             bits_of_str(nd[0]) if nd else 0, bool(nd))


def fnd_of(x: S) -> int:
    if x.fnd is not None:
        return x.fnd
    d = bits_of_str(_DELIMS)
    if not (x.first & d) and not x.empty:
        return x.first  # the first character is itself a non-delimiter
    return (x.first & ~d) | (x.any & ~d)


def fdef(x: S) -> bool:
    """definitely contains a non-delimiter character"""
    if x.fnd_def:
        return True
    d = bits_of_str(_DELIMS)
    return not x.empty and not (x.first & d)


def join_s(a: S | None, b: S | None) -> S:
    if a is None:
        return b  # type: ignore[return-value]
    if b is None:
        return a
    fin = a.finite | b.finite if a.finite is not None and b.finite is not None and len(a.finite | b.finite) < 4000 else None
    return S(a.any | b.any, a.first | b.first, a.empty or b.empty, a.valid and b.valid, fin,
             fnd_of(a) | fnd_of(b), fdef(a) and fdef(b), (a.nokw if a.nokw == b.nokw else (bool(a.nokw) and bool(b.nokw))))


def concat_s(a: S, b: S) -> S:
    if a.finite == frozenset({""}):
        return b
    if b.finite == frozenset({""}):
        return a
    fin = None
    if a.finite is not None and b.finite is not None and len(a.finite) * len(b.finite) < 4000:
        fin = frozenset(x + y for x in a.finite for y in b.finite)
    nokw = False
    if fin is not None:
        import keyword as _kw

        nokw = not any(_kw.iskeyword(x) or x in getattr(_kw, "softkwlist", []) for x in fin) and \
            (_RESERVED is None or not (fin & _RESERVED))
    elif a.valid and a.finite is None and b.nokw is True:
        nokw = "prefixed"  # type: ignore[assignment]  # prefix + non-keyword: see the recorded assumption on field_prefix
    return S(a.any | b.any, a.first | (b.first if a.empty else 0), a.empty and b.empty, False, fin,
             fnd_of(a) | (fnd_of(b) if not fdef(a) else 0), fdef(a) or fdef(b), nokw)


@dataclass
class Path:
    func: str
    desc: str
    result: S
    line: int


class CharInterp:
    def __init__(self, ix: PyIndex, tables: Tables | None = None):
        self.ix = ix
        self.t = tables or Tables()
        self.utils = ix.modules.get("openapi_python_client.utils")
        if self.utils is None:
            raise AnalysisError("utils module not found")
        global _DELIMS
        dl = ix.const_str(self.utils, ast.Name(id="DELIMITERS")) if "DELIMITERS" in self.utils.variables else None
        if dl is None:
            raise AnalysisError("utils.DELIMITERS not found")
        self.D = self.t.regex_class("[" + dl + "]")
        _DELIMS = "".join(chr(c) for c in members(self.D, 64))
        # case mappings never turn a non-delimiter into a delimiter (needed to carry `fnd` through lower/upper)
        nd = self.t.ALL & ~self.D
        for exc in (self.t.lower_exc, self.t.upper_exc, self.t.cap_exc):
            if self.t.image(nd, exc) & self.D:
                raise AnalysisError("E6: a case mapping produces a delimiter character")
        self.ALPHA = mk(i for i, c in enumerate(all_chars()) if c.isalpha())
        self.DIGIT = mk(i for i, c in enumerate(all_chars()) if c.isdigit())
        self.stores: list[tuple[str, S, str, int, dict[str, Any]]] = []  # (container, key, path condition, line, variables on that path)
        self.TOP = S(self.t.ALL, self.t.ALL, True)
        # assumption (recorded in evidence): field_prefix matches [A-Za-z][A-Za-z0-9_]* (the user's own configuration)
        import string as _string

        self.PREFIX = S(bits_of_str(_string.ascii_letters + _string.digits + "_"), bits_of_str(_string.ascii_letters), False, True)
        self.paths: list[Path] = []
        self._depth = 0
        self.reserved: frozenset[str] | None = None
        self._fstack: list[FuncInfo] = []            # functions being interpreted (innermost last)
        self._desugared: dict[int, ast.stmt] = {}    # id(simple statement) -> equivalent `if` statement (or itself)

    # -- entry points -----------------------------------------------------
    def run_function(self, f: FuncInfo, args: dict[str, Any]) -> tuple[S | L | None, list[Path]]:
        """Interpret f with the given abstract arguments; returns (joined result, per-return-path results)."""
        self._depth += 1
        if self._depth > 12:
            self._depth -= 1
            raise AnalysisError(f"E6: recursion too deep at {f.qual}")
        self._fstack.append(f)
        try:
            env: dict[str, Any] = {}
            for p in f.params:
                if p.arg in args:
                    env[p.arg] = args[p.arg]
            # defaults
            a = f.node.args
            pos = [*a.posonlyargs, *a.args]
            for p, d in zip(pos[len(pos) - len(a.defaults):], a.defaults):
                if p.arg not in env:
                    env[p.arg] = self.ev(d, env, f.module)
            rets: list[tuple[Any, str, int, tuple]] = []
            self.block(f.node.body, env, f.module, rets, "")
            paths = []
            out: Any = None
            for val, desc, line, _facts in rets:
                if isinstance(val, S):
                    paths.append(Path(f.qual, desc or "fallthrough", val, line))
                    out = join_s(out, val) if isinstance(out, S) or out is None else out
                elif isinstance(val, L):
                    out = val if out is None else self.join_any(out, val)
                else:
                    out = val
            if rets and all(isinstance(v, (bool, B)) for v, _, _, _ in rets):
                # a predicate: it is true (false) when one of its return paths is taken and the returned condition is true (false)
                # there - the facts of that path and of that condition hold; never "the value of the last return"
                yes = [fx + (v.when_true if isinstance(v, B) else ()) for v, _, _, fx in rets if v is not False]
                no = [fx + (v.when_false if isinstance(v, B) else ()) for v, _, _, fx in rets if v is not True]
                out = True if not no else False if not yes else B(self._one_of(yes), self._one_of(no))
            return out, paths
        finally:
            self._depth -= 1
            self._fstack.pop()

    # -- statements ---------------------------------------------------------
    def block(self, body: list[ast.stmt], env: dict[str, Any], m: Module, rets: list, cond: str) -> bool:
        """Path-enumerating execution (every `if` forks); returns True if some path falls through, leaving the
        joined fall-through environment in `env` (per-path results are recorded in `rets`)."""
        states = self._run(body, [(dict(env), cond)], m, rets)
        if not states:
            return False
        keys = set().union(*[set(e) for e, _ in states])
        for k in keys:
            if k == FACTS:
                fs = [e.get(FACTS, ()) for e, _ in states]
                env[k] = tuple(f for f in fs[0] if all(f in w for w in fs[1:]))
                continue
            vals = [e[k] for e, _ in states if k in e]
            v = vals[0]
            for w in vals[1:]:
                v = self.join_any(v, w)
            env[k] = v
        return True

    def _run(self, body: list[ast.stmt], states: list, m: Module, rets: list) -> list:
        for st in body:
            if not states:
                return states
            if len(states) > 64:
                raise AnalysisError(f"E6: too many paths at {m.rel}:{st.lineno}")
            if isinstance(st, ast.Expr) and isinstance(st.value, ast.Constant):
                continue  # docstring
            # a conditional expression evaluated by a simple statement is a fork of the path, exactly like the `if`
            # statement it abbreviates: `s[X if T else Y]` runs as `if T: s[X]` / `else: s[Y]` (expressions are pure here)
            st = self._as_branch(st)
            nxt: list = []
            for env, cond in states:
                if isinstance(st, ast.Assign) and len(st.targets) == 1 and isinstance(st.targets[0], ast.Name):
                    self._bind(env, st.targets[0].id, self.ev(st.value, env, m))
                    nxt.append((env, cond))
                elif isinstance(st, ast.AnnAssign) and isinstance(st.target, ast.Name):
                    self._bind(env, st.target.id, self.ev(st.value, env, m) if st.value is not None else None)
                    nxt.append((env, cond))
                elif isinstance(st, ast.Assign) and len(st.targets) == 1 and isinstance(st.targets[0], ast.Subscript) \
                        and isinstance(st.targets[0].value, ast.Name):
                    k = self.ev(st.targets[0].slice, env, m)
                    self.ev(st.value, env, m)
                    if isinstance(k, S):
                        self.stores.append((st.targets[0].value.id, k, cond, st.lineno, dict(env)))
                    nxt.append((env, cond))
                elif isinstance(st, ast.Expr):
                    self.ev(st.value, env, m)
                    nxt.append((env, cond))
                elif isinstance(st, (ast.Continue, ast.Raise, ast.Break)):
                    if isinstance(st, ast.Raise) and st.exc is not None:
                        pass
                elif isinstance(st, ast.For):
                    it = st.iter
                    e2 = dict(env)
                    if isinstance(it, ast.Call) and dotted(it.func) == "enumerate" and isinstance(st.target, ast.Tuple) \
                            and len(st.target.elts) == 2 and all(isinstance(x, ast.Name) for x in st.target.elts):
                        self._bind(e2, st.target.elts[0].id, I("nonneg"))
                        src = self.ev(it.args[0], env, m)
                        self._bind(e2, st.target.elts[1].id, src.elem if isinstance(src, L) else EITHER)
                    elif isinstance(st.target, ast.Name) and isinstance(it, ast.Call) and dotted(it.func) == "range":
                        for a in it.args:
                            self.ev(a, env, m)
                        nonneg = all(isinstance(self.ev(a, env, m), I) and self.ev(a, env, m).sign == "nonneg" for a in it.args[:2]) \
                            and len(it.args) < 3
                        self._bind(e2, st.target.id, I("nonneg" if nonneg else "any"))
                    elif isinstance(st.target, ast.Name):
                        src = self.ev(it, env, m)
                        self._bind(e2, st.target.id, src.elem if isinstance(src, L) else EITHER)
                    else:
                        raise AnalysisError(f"E6: unsupported for-loop at {m.rel}:{st.lineno}")
                    self._run(st.body, [(e2, cond)], m, rets)
                    nxt.append((env, cond))
                elif isinstance(st, ast.Return):
                    rets.append((self.ev(st.value, env, m), cond, st.lineno, env.get(FACTS, ())))
                elif isinstance(st, ast.If):
                    b = self.truth(st.test, env, m)
                    tc = (cond + " & " if cond else "") + ast.unparse(st.test)
                    fc = (cond + " & " if cond else "") + "not(" + ast.unparse(st.test) + ")"
                    if isinstance(b, bool):
                        arm = st.body if b else st.orelse
                        nxt.extend(self._run(arm, [(env, cond)], m, rets) if arm else [(env, cond)])
                        continue
                    te, fe = dict(env), dict(env)
                    self.refine(te, b.when_true)
                    self.refine(fe, b.when_false)
                    nxt.extend(self._run(st.body, [(te, tc)], m, rets))
                    nxt.extend(self._run(st.orelse, [(fe, fc)], m, rets) if st.orelse else [(fe, fc)])
                else:
                    raise AnalysisError(f"E6: unsupported statement in naming pipeline: {m.rel}:{st.lineno} {type(st).__name__}")
            states = nxt
        return states

    # -- conditional expressions as path forks ----------------------------------
    _SIMPLE = (ast.Assign, ast.AnnAssign, ast.Expr, ast.Return)
    _OWN_SCOPE = (ast.Lambda, ast.ListComp, ast.SetComp, ast.DictComp, ast.GeneratorExp)

    def _as_branch(self, st: ast.stmt) -> ast.stmt:
        """The `if` statement equivalent to a simple statement that evaluates a conditional expression (outermost first;
        the arms are split again when they are run). Conditional expressions inside a comprehension or lambda are evaluated
        once per element and stay joins (`ev`). Any other statement is returned unchanged."""
        if not isinstance(st, self._SIMPLE):
            return st
        got = self._desugared.get(id(st))
        if got is not None:
            return got
        path = self._find_ifexp(st, [])
        out: ast.stmt = st
        if path is not None:
            arms = []
            test: ast.expr | None = None
            for which in ("body", "orelse"):
                c = copy.deepcopy(st)
                parent: Any = None
                cur: Any = c
                for fld, idx in path:
                    parent = cur
                    cur = getattr(cur, fld) if idx is None else getattr(cur, fld)[idx]
                test = cur.test
                fld, idx = path[-1]
                if idx is None:
                    setattr(parent, fld, getattr(cur, which))
                else:
                    getattr(parent, fld)[idx] = getattr(cur, which)
                arms.append(c)
            out = ast.copy_location(ast.If(test=test, body=[arms[0]], orelse=[arms[1]]), st)
        self._desugared[id(st)] = out  # (st belongs to the indexed module or to a cached arm: its id stays unique)
        return out

    def _find_ifexp(self, node: ast.AST, path: list) -> list | None:
        for fld, val in ast.iter_fields(node):
            items = [(None, val)] if isinstance(val, ast.AST) else \
                [(i, v) for i, v in enumerate(val)] if isinstance(val, list) else []
            for idx, ch in items:
                if not isinstance(ch, ast.AST) or isinstance(ch, self._OWN_SCOPE):
                    continue
                p = path + [(fld, idx)]
                if isinstance(ch, ast.IfExp):
                    return p
                r = self._find_ifexp(ch, p)
                if r is not None:
                    return r
        return None

    def _bind(self, env: dict[str, Any], name: str, val: Any) -> None:
        """Assignment: remembered conditions that speak about the old value of `name` no longer hold for the new one."""
        env[name] = val
        if FACTS in env:
            env[FACTS] = tuple(f for f in env[FACTS] if f[0] != name)
        for k, v in list(env.items()):
            if isinstance(v, B) and any(var == name for var, _ in (*v.when_true, *v.when_false)):
                env[k] = B()

    def truth(self, n: ast.expr, env: dict[str, Any], m: Module) -> Any:
        """The expression as a condition: a definite bool, or B with the facts that hold when it is true / false."""
        v = self.ev(n, env, m)
        if isinstance(v, (bool, B)):
            return v
        if isinstance(v, S):  # truthiness of a string
            if v.finite == frozenset({""}):
                return False
            if not v.empty:
                return True
        if isinstance(n, ast.Name) and (isinstance(v, S) or v == EITHER):
            return B(((n.id, "nonempty"),), ())
        return B()

    @staticmethod
    def _all_of(parts: list[tuple]) -> tuple:
        return tuple(f for p in parts for f in p)

    @staticmethod
    def _one_of(parts: list[tuple]) -> tuple:
        """Facts that hold when at least one of the alternatives holds: the facts common to all of them, and
        membership in (reserved list | keywords) when every alternative says `reserved` or `keyword` of the same variable."""
        out = tuple(f for f in parts[0] if all(f in p for p in parts[1:]))
        kinds = ("reserved", "keyword", "reserved_or_keyword")
        vars_ = {v for p in parts for (v, f) in p if f in kinds}
        if len(vars_) == 1 and all(any(f in kinds for (_, f) in p) for p in parts):
            out += ((next(iter(vars_)), "reserved_or_keyword"),)
        return out

    def join_any(self, a: Any, b: Any) -> Any:
        if isinstance(a, S) and isinstance(b, S):
            return join_s(a, b)
        if isinstance(a, L) and isinstance(b, L):
            return L(join_s(a.elem, b.elem), a.maybe_empty or b.maybe_empty,
                     join_s(a.head, b.head) if a.head is not None and b.head is not None else None)
        if isinstance(a, I) and isinstance(b, I):
            return a if a == b else I("any")
        if a == b:
            return a
        raise AnalysisError("E6: join of incompatible abstract values")

    def refine(self, env: dict[str, Any], facts: tuple[tuple[str, str], ...]) -> None:
        if facts:
            env[FACTS] = env.get(FACTS, ()) + tuple(f for f in facts if f not in env.get(FACTS, ()))
        for var, fact in facts:
            v = env.get(var)
            if v is EITHER or v == EITHER:
                if fact == "int":
                    env[var] = I("any")
                    continue
                if fact == "str":
                    env[var] = v = self.TOP
                    continue
                if fact in ("neg", "nonneg"):
                    continue
                v = self.TOP if fact.startswith("first_") or fact == "nonempty" else v
                if isinstance(v, S):
                    env[var] = v
            if isinstance(v, I):
                if fact in ("neg", "nonneg"):
                    env[var] = I(fact)
                continue
            if not isinstance(v, S):
                continue
            if fact == "nonempty":
                env[var] = replace(v, empty=False)
                continue
            if fact == "not_reserved":
                env[var] = replace(v, nokw=v.nokw or "nk1")  # type: ignore[arg-type]
                continue
            if fact == "not_keyword":
                env[var] = replace(v, nokw=True if v.nokw in ("nk1", True) else v.nokw)
                continue
            if fact == "reserved_or_keyword":
                import keyword as _kw

                rs = frozenset(self.reserved_words(None) | set(_kw.kwlist) | set(getattr(_kw, "softkwlist", [])))
                env[var] = S(bits_of_str("".join(rs)), bits_of_str("".join(x[:1] for x in rs)), "" in rs, False, rs)
                continue
            if fact in ("first_alpha", "first_digit", "first_not_alpha", "first_not_digit"):
                cls = self.ALPHA if "alpha" in fact else self.DIGIT
                f2 = v.first & (~cls if "_not_" in fact else cls)
                nv = replace(v, first=f2, empty=False, finite=None)
                if not (f2 & self.D):
                    nv = replace(nv, fnd=f2, fnd_def=True)
                env[var] = nv
                continue
            if fact == "identifier":
                env[var] = S(v.any & self.t.ID_CONT, v.first & self.t.ID_START, False, True,
                             frozenset(x for x in v.finite if x.isidentifier()) if v.finite is not None else None,
                             None, v.fnd_def, v.nokw)
            elif fact.startswith("in:"):
                pass
            elif fact == "reserved":
                rs = self.reserved_words(None)
                env[var] = S(bits_of_str("".join(rs)), bits_of_str("".join(x[:1] for x in rs)), "" in rs, False, rs)

    # -- expressions ----------------------------------------------------------
    def ev(self, n: ast.expr, env: dict[str, Any], m: Module) -> Any:
        t = self.t
        if isinstance(n, ast.Constant):
            if isinstance(n.value, str):
                return const_s(n.value)
            return n.value
        if isinstance(n, ast.Name):
            if n.id in env:
                return env[n.id]
            s = self.ix.const_str(m, n)
            if s is not None:
                return const_s(s)
            return ("name", n.id)
        if isinstance(n, ast.JoinedStr):
            out = const_s("")
            for v in n.values:
                if isinstance(v, ast.Constant):
                    out = concat_s(out, const_s(str(v.value)))
                elif isinstance(v, ast.FormattedValue) and v.conversion == -1 and v.format_spec is None:
                    x = self.ev(v.value, env, m)
                    if isinstance(x, I):
                        dig = bits_of_str("0123456789")
                        x = S(dig | (bits_of_str("-") if x.sign != "nonneg" else 0), dig | (bits_of_str("-") if x.sign != "nonneg" else 0), False)
                    if not isinstance(x, S):
                        raise AnalysisError(f"E6: non-string in f-string {m.rel}:{n.lineno}")
                    out = concat_s(out, x)
                else:
                    raise AnalysisError(f"E6: unsupported f-string part {m.rel}:{n.lineno}")
            return out
        if isinstance(n, ast.IfExp):
            # (only reached where a path cannot fork: inside a comprehension / lambda / test - see _as_branch)
            c = self.truth(n.test, env, m)
            if isinstance(c, bool):
                return self.ev(n.body if c else n.orelse, env, m)
            te, fe = dict(env), dict(env)
            self.refine(te, c.when_true)
            self.refine(fe, c.when_false)
            return self.join_any(self.ev(n.body, te, m), self.ev(n.orelse, fe, m))
        if isinstance(n, ast.UnaryOp) and isinstance(n.op, ast.Not):
            b = self.truth(n.operand, env, m)
            if isinstance(b, bool):
                return not b
            return B(b.when_false, b.when_true)
        if isinstance(n, ast.Subscript):
            base = self.ev(n.value, env, m)
            if base == EITHER:
                return EITHER  # an item of the list of member values
            if isinstance(base, L) and not isinstance(n.slice, ast.Slice):
                self.ev(n.slice, env, m)
                return join_s(base.elem, base.head)
            if isinstance(base, S) and isinstance(n.slice, ast.Constant) and n.slice.value == 0 and isinstance(n.value, ast.Name):
                return ("char0", n.value.id, S(base.first, base.first, False))
            if isinstance(base, S):
                return S(base.any, base.any, True)
            raise AnalysisError(f"E6: unsupported subscript at {m.rel}:{n.lineno}")
        if isinstance(n, ast.UnaryOp) and isinstance(n.op, ast.USub):
            v = self.ev(n.operand, env, m)
            if isinstance(v, I):
                return I({"neg": "nonneg", "nonneg": "any", "any": "any"}[v.sign])
            raise AnalysisError(f"E6: unsupported negation at {m.rel}:{n.lineno}")
        if isinstance(n, ast.BoolOp):
            is_or = isinstance(n.op, ast.Or)
            bs: list[B] = []
            for v in n.values:
                b = self.truth(v, env, m)
                if isinstance(b, bool):
                    if b == is_or:
                        return b  # a definitely-true operand of `or` / definitely-false operand of `and` decides
                    continue      # a neutral operand
                bs.append(b)
            if not bs:
                return not is_or
            if len(bs) == 1:
                return bs[0]
            # `or` is true when one operand is and false when all are false; `and` is its dual (De Morgan)
            if is_or:
                return B(self._one_of([b.when_true for b in bs]), self._all_of([b.when_false for b in bs]))
            return B(self._all_of([b.when_true for b in bs]), self._one_of([b.when_false for b in bs]))
        if isinstance(n, ast.Compare) and len(n.ops) == 1 and isinstance(n.ops[0], (ast.Lt, ast.GtE)) \
                and isinstance(n.left, ast.Name) and isinstance(n.comparators[0], ast.Constant) and n.comparators[0].value == 0:
            t_, f_ = ((n.left.id, "neg"),), ((n.left.id, "nonneg"),)
            return B(t_, f_) if isinstance(n.ops[0], ast.Lt) else B(f_, t_)
        if isinstance(n, ast.Compare):
            if len(n.ops) == 1 and isinstance(n.ops[0], (ast.In, ast.NotIn)) and isinstance(n.left, ast.Name):
                rhs = dotted(n.comparators[0])
                if rhs == "RESERVED_WORDS":
                    t_, f_ = ((n.left.id, "reserved"),), ((n.left.id, "not_reserved"),)
                    return B(t_, f_) if isinstance(n.ops[0], ast.In) else B(f_, t_)
            for c in [n.left, *n.comparators]:
                self.ev(c, env, m)
            return B()
        if isinstance(n, ast.GeneratorExp) or isinstance(n, ast.ListComp):
            if not n.generators or not isinstance(n.generators[0].target, ast.Name):
                raise AnalysisError(f"E6: unsupported comprehension {m.rel}:{n.lineno}")
            gen = n.generators[0]
            tv = gen.target.id
            if len(n.generators) > 1:
                # `[e for a in A for b in B(a)]` is the concatenation of `[e for b in B(a)]` over the items a of A: its elements are
                # those of the inner lists; which of them comes first, and whether there is one at all, is not tracked
                flat = self._flattened_findall(n, m)
                if flat is not None:
                    return self.ev(flat, env, m)
                outer = self.ev(gen.iter, env, m)
                if isinstance(outer, S):
                    item: Any = S(outer.any, outer.any, False)
                elif isinstance(outer, L):
                    item = join_s(outer.elem, outer.head)
                else:
                    raise AnalysisError(f"E6: comprehension over non-list {m.rel}:{n.lineno}")
                e2 = dict(env)
                self._bind(e2, tv, item)
                for cnd in gen.ifs:
                    c = self.truth(cnd, e2, m)
                    if isinstance(c, B):
                        self.refine(e2, c.when_true)
                inner_node = ast.copy_location(type(n)(elt=n.elt, generators=n.generators[1:]), n)
                inner = self.ev(inner_node, e2, m)
                if isinstance(inner, tuple) and inner and inner[0] == "iter":
                    return ("iter", inner[1])
                if not isinstance(inner, L):
                    raise AnalysisError(f"E6: nested comprehension does not yield a list {m.rel}:{n.lineno}")
                return L(join_s(inner.elem, inner.head), True)

            dropped = [False]  # some filter may reject an item

            def element(x: Any) -> Any:
                """the element expression for an item x that passes the filters (None: no item passes)"""
                e2 = dict(env)
                self._bind(e2, tv, x)
                for cnd in gen.ifs:
                    c = self.truth(cnd, e2, m)
                    if c is False:
                        return None
                    if isinstance(c, B):
                        dropped[0] = True
                        self.refine(e2, c.when_true)
                return self.ev(n.elt, e2, m)

            it = self.ev(gen.iter, env, m)
            if isinstance(it, S):  # iterating characters of a string
                return ("iter", element(S(it.any, it.any, False)))
            if not isinstance(it, L):
                raise AnalysisError(f"E6: comprehension over non-list {m.rel}:{n.lineno}")
            el = element(it.elem)
            if el is None:
                return L(S(0, 0, False), True)
            if not isinstance(el, S):
                raise AnalysisError(f"E6: comprehension element not a string {m.rel}:{n.lineno}")
            if dropped[0]:  # possibly empty, and the first survivor need not be the source's head
                return L(el, True)
            hd = element(it.head) if it.head is not None else None
            return L(el, it.maybe_empty, hd if isinstance(hd, S) else None)
        if isinstance(n, ast.Call):
            return self.call(n, env, m)
        if isinstance(n, ast.Attribute):
            return ("attr", ast.unparse(n))
        if isinstance(n, (ast.List, ast.Tuple)) and n.elts and not any(isinstance(x, ast.Starred) for x in n.elts):
            items = [self.ev(x, env, m) for x in n.elts]
            if all(isinstance(x, S) for x in items):  # a display of strings
                el = items[0]
                for x in items[1:]:
                    el = join_s(el, x)
                return L(el, False, items[0])
        if isinstance(n, (ast.Dict, ast.List, ast.Set)) and not getattr(n, "keys", getattr(n, "elts", None)):
            return ("container",)
        raise AnalysisError(f"E6: unsupported expression {type(n).__name__} at {m.rel}:{getattr(n, 'lineno', 0)}")

    def _flattened_findall(self, n: ast.ListComp | ast.GeneratorExp, m: Module) -> ast.expr | None:
        """`[w for piece in PIECES for w in findall(P, piece)]` finds, piece by piece, what `findall(P, SEP.join(PIECES))` finds in one
        go, for any separator character P cannot match (no match spans a separator, and inside a piece the matches are the same):
        the equivalent single call when the comprehension has that form and a blank is such a separator; None otherwise."""
        if len(n.generators) != 2 or any(g.ifs for g in n.generators):
            return None
        g1, g2 = n.generators
        if not (isinstance(g1.target, ast.Name) and isinstance(g2.target, ast.Name) and isinstance(n.elt, ast.Name)
                and n.elt.id == g2.target.id and isinstance(g2.iter, ast.Call) and not g2.iter.keywords):
            return None
        c = g2.iter
        pat: ast.expr | None = None
        if dotted(c.func) == "re.findall" and len(c.args) == 2:
            pat, subject = c.args
        elif isinstance(c.func, ast.Attribute) and c.func.attr == "findall" and len(c.args) == 1:
            pat, subject = self._compiled_pattern(c.func.value, m), c.args[0]
        if pat is None or not (isinstance(subject, ast.Name) and subject.id == g1.target.id):
            return None
        text = self.ix.const_str(m, pat)
        cls = self.single_class_plus(text) if text is not None else None
        if cls is None or cls & bits_of_str(" "):
            return None
        joined = ast.Call(func=ast.Attribute(value=ast.Constant(value=" "), attr="join", ctx=ast.Load()), args=[g1.iter], keywords=[])
        out = ast.Call(func=ast.Attribute(value=ast.Name(id="re", ctx=ast.Load()), attr="findall", ctx=ast.Load()), args=[pat, joined], keywords=[])
        ast.copy_location(out, n)
        return ast.fix_missing_locations(out)

    def _compiled_pattern(self, e: ast.expr, m: Module, depth: int = 0) -> ast.expr | None:
        """the pattern argument of the `re.compile(...)` call an expression is (bound to): the call itself, or a module-level name
        bound to it once; flags are not interpreted, so a compile call with flags is not taken"""
        if isinstance(e, ast.Call) and dotted(e.func) in ("re.compile", "compile") and len(e.args) == 1 and not e.keywords:
            return e.args[0]
        if isinstance(e, ast.Name) and depth < 3:
            r = self.ix.resolve(m, e.id)
            if r and r[0] == "var":
                mod, name = r[1]
                v = mod.variables.get(name)
                if isinstance(v, ast.expr):
                    return self._compiled_pattern(v, mod, depth + 1)
        return None

    def call(self, n: ast.Call, env: dict[str, Any], m: Module) -> Any:
        t = self.t
        if isinstance(n.func, ast.Attribute) and n.func.attr in ("sub", "split", "findall") and not n.keywords:
            pat = self._compiled_pattern(n.func.value, m)
            if pat is not None:
                # P.sub(r, s) is re.sub(<pattern of P>, r, s), and so on: decided as that call
                as_module_call = ast.Call(func=ast.Attribute(value=ast.Name(id="re", ctx=ast.Load()), attr=n.func.attr, ctx=ast.Load()),
                                          args=[pat, *n.args], keywords=[])
                ast.copy_location(as_module_call, n)
                ast.fix_missing_locations(as_module_call)
                return self.call(as_module_call, env, m)
        fn = dotted(n.func)
        callee = self._callee(fn, m)
        is_repo_func = callee is not None
        # method calls on abstract strings
        if isinstance(n.func, ast.Attribute) and not is_repo_func and fn not in ("re.sub", "re.split", "re.findall", "str.__new__"):
            recv = self.ev(n.func.value, env, m)
            meth = n.func.attr
            if isinstance(recv, tuple) and recv and recv[0] == "char0":
                _, var, ch = recv
                if meth == "isalpha":
                    return B(((var, "first_alpha"),), ((var, "first_not_alpha"),))
                if meth == "isdigit":
                    return B(((var, "first_digit"),), ((var, "first_not_digit"),))
                recv = ch
            if isinstance(recv, S):
                if meth == "lower":
                    return S(t.image(recv.any, t.lower_exc), t.image(recv.first, t.lower_exc, True), recv.empty, False, None,
                             t.image(fnd_of(recv), t.lower_exc, True), fdef(recv))
                if meth == "upper":
                    return S(t.image(recv.any, t.upper_exc), t.image(recv.first, t.upper_exc, True), recv.empty, False, None,
                             t.image(fnd_of(recv), t.upper_exc, True), fdef(recv))
                if meth == "capitalize":
                    anyc = t.image(recv.any, t.lower_exc) | t.image(recv.first, t.cap_exc)
                    return S(anyc, t.image(recv.first, t.cap_exc, True), recv.empty, False, None,
                             t.image(fnd_of(recv), t.cap_exc, True) | t.image(fnd_of(recv), t.lower_exc, True), fdef(recv))
                if meth == "startswith" and len(n.args) == 1:
                    a0 = self.ev(n.args[0], env, m)
                    if isinstance(a0, S) and a0.finite is not None and len(a0.finite) == 1 and len(next(iter(a0.finite))) == 1:
                        bit = bits_of_str(next(iter(a0.finite)))
                        if recv.first == bit and not recv.empty:
                            return True
                        if not (recv.first & bit):
                            return False
                    return B()
                if meth in ("isupper", "islower", "isalpha", "isdigit", "startswith", "endswith"):
                    for a in n.args:
                        self.ev(a, env, m)
                    return B()
                if meth == "isidentifier":
                    var = n.func.value.id if isinstance(n.func.value, ast.Name) else None
                    return B(((var, "identifier"),), ()) if var else B()
                if meth == "join":
                    arg = self.ev(n.args[0], env, m)
                    if not isinstance(arg, L):
                        raise AnalysisError(f"E6: join over non-list {m.rel}:{n.lineno}")
                    sep = recv
                    e = arg.elem
                    if arg.split_of is not None and not (sep.any & ~self.D):
                        # re.split pieces re-joined with delimiters: the source with delimiters inserted
                        src = arg.split_of
                        return S(src.any | sep.any, src.first | sep.first, src.empty and sep.empty, False, None,
                                 fnd_of(src), fdef(src))
                    h = arg.head or e
                    anyb = e.any | h.any | sep.any
                    first = h.first | (sep.first | e.first if h.empty else 0)
                    fnd = fnd_of(h) | ((fnd_of(e) | (sep.any & ~self.D)) if not fdef(h) else 0)
                    return S(anyb, first, arg.maybe_empty or (e.empty and h.empty and sep.empty), False, None, fnd,
                             (not arg.maybe_empty) and fdef(h))
                if meth == "replace" and len(n.args) == 2:
                    a, b = self.ev(n.args[0], env, m), self.ev(n.args[1], env, m)
                    if isinstance(a, S) and isinstance(b, S):
                        return S(recv.any | b.any, recv.first | b.first, recv.empty or b.empty)
                if meth in ("strip", "lstrip", "rstrip"):
                    return S(recv.any, recv.any, True)
            raise AnalysisError(f"E6: unsupported method .{meth} at {m.rel}:{n.lineno}")
        if fn in ("map", "filter") and len(n.args) == 2 and not n.keywords and not is_repo_func:
            # map(f, xs) is (f(x) for x in xs), filter(f, xs) is (x for x in xs if f(x)): decided as that comprehension
            return self.ev(ast.copy_location(self._as_comprehension(fn, n.args[0], n.args[1], m, n.lineno), n), env, m)
        if fn == "bool" and len(n.args) == 1 and not n.keywords:
            return self.truth(n.args[0], env, m)
        if fn == "len" and len(n.args) == 1:
            self.ev(n.args[0], env, m)
            return I("nonneg")
        if fn == "any" or fn == "all":
            self.ev(n.args[0], env, m)
            return B()
        if fn == "isinstance" and len(n.args) == 2 and isinstance(n.args[0], ast.Name):
            tn = dotted(n.args[1])
            if tn == "int":
                return B(((n.args[0].id, "int"),), ((n.args[0].id, "str"),))
            if tn == "str":
                return B(((n.args[0].id, "str"),), ((n.args[0].id, "int"),))
            return B()
        if fn in ("cast", "typing.cast") and len(n.args) == 2:
            return self.ev(n.args[1], env, m)
        if fn in ("iskeyword", "keyword.iskeyword") and n.args and isinstance(n.args[0], ast.Name):
            return B(((n.args[0].id, "keyword"),), ((n.args[0].id, "not_keyword"),))
        if fn in ("iskeyword", "keyword.iskeyword"):
            return B()
        if fn == "str.__new__":
            return self.ev(n.args[1], env, m)
        if fn in ("re.sub", "re.split", "re.findall"):
            if n.keywords or len(n.args) != (3 if fn == "re.sub" else 2):
                # flags change what the classes mean (re.ASCII), count / maxsplit what is replaced: not modelled here, so no verdict
                raise AnalysisError(f"E6: regex call with flags / count / keyword arguments at {m.rel}:{n.lineno}")
            pat = self.ix.const_str(m, n.args[0])
            if pat is None:
                raise AnalysisError(f"E6: non-constant regex at {m.rel}:{n.lineno}")
            src = self.ev(n.args[-1], env, m)
            if not isinstance(src, S):
                raise AnalysisError(f"E6: regex on non-string at {m.rel}:{n.lineno}")
            cls = self.single_class_plus(pat)
            if fn == "re.sub":
                repl = self.ev(n.args[1], env, m)
                if not (isinstance(repl, S) and repl.finite is not None):
                    raise AnalysisError(f"E6: non-constant replacement at {m.rel}:{n.lineno}")
                if cls is None:
                    # arbitrary pattern: the result is made of source characters and replacement characters
                    return S(src.any | repl.any, src.any | repl.any, True)
                keep = src.any & ~cls
                if repl.finite == frozenset({""}):
                    # deletion: the first character stays first unless it can itself be deleted
                    exposed = keep if (src.first & cls or src.empty) else 0
                    f0 = fnd_of(src)
                    fnd = (f0 & ~cls) | ((keep & ~self.D) if f0 & cls else 0)
                    return S(keep, (src.first & ~cls) | exposed, True if (src.empty or src.any & cls) else False, False, None,
                             fnd, fdef(src) and not (f0 & cls))
                return S(keep | repl.any, keep | repl.any, True)
            if fn == "re.findall":
                if cls is None:
                    return L(S(src.any, src.any, True), True)
                got = src.any & cls
                head = None
                maybe_empty = True
                if (self.t.ALL & ~cls) == self.D:
                    # words between delimiters: the first word starts at the first non-delimiter character
                    f0 = fnd_of(src) & cls
                    head = S(got, f0, False, False, None, f0, True)
                    maybe_empty = not fdef(src)
                return L(S(got, got, False, False, None, got & ~self.D, bool(got) and not (got & self.D)), maybe_empty, head)
            # re.split: pieces are substrings of the source (possibly empty)
            return L(S(src.any, src.any, True), False, None, src)
        # a function / method / constructor of the analysed package: follow it (its return paths joined)
        if callee is not None:
            f, bound = callee
            args: dict[str, Any] = {}
            for p, a in zip(f.params[1:] if bound else f.params, n.args):
                args[p.arg] = self.ev(a, env, m)
            for kw in n.keywords:
                if kw.arg:
                    args[kw.arg] = self.ev(kw.value, env, m)
            out, _ = self.run_function(f, args)
            if isinstance(out, B):
                # the facts of a predicate helper speak about its parameters: restate them for the caller's variables that were
                # passed (plain names, parameters the helper never rebinds); anything else is dropped
                stored = {x.id for x in ast.walk(f.node) if isinstance(x, ast.Name) and isinstance(x.ctx, ast.Store)}
                ren = {p.arg: a.id for p, a in zip(f.params[1:] if bound else f.params, n.args) if isinstance(a, ast.Name)}
                ren.update({kw.arg: kw.value.id for kw in n.keywords if kw.arg and isinstance(kw.value, ast.Name)})
                ren = {p_: a_ for p_, a_ in ren.items() if p_ not in stored}
                out = B(tuple((ren[v], fact) for v, fact in out.when_true if v in ren),
                        tuple((ren[v], fact) for v, fact in out.when_false if v in ren))
            return out
        raise AnalysisError(f"E6: unsupported call {fn} at {m.rel}:{n.lineno}")

    def _as_comprehension(self, kind: str, f: ast.expr, it: ast.expr, m: Module, lineno: int) -> ast.GeneratorExp:
        """the generator expression that `map(f, it)` / `filter(f, it)` abbreviates; f may be a function name, `str.method`, a
        one-parameter lambda or (filter) None"""
        var = "__item"
        item: ast.expr = ast.Name(id=var, ctx=ast.Load())
        if isinstance(f, ast.Lambda) and len(f.args.args) == 1 and not (f.args.vararg or f.args.kwarg or f.args.kwonlyargs):
            var = f.args.args[0].arg
            item = ast.Name(id=var, ctx=ast.Load())
            applied: ast.expr = f.body
        elif isinstance(f, ast.Attribute) and isinstance(f.value, ast.Name) and f.value.id == "str":
            applied = ast.Call(func=ast.Attribute(value=item, attr=f.attr, ctx=ast.Load()), args=[], keywords=[])
        elif isinstance(f, ast.Constant) and f.value is None and kind == "filter":
            applied = item
        elif isinstance(f, (ast.Name, ast.Attribute)):
            applied = ast.Call(func=f, args=[item], keywords=[])
        else:
            raise AnalysisError(f"E6: unsupported function argument of {kind} at {m.rel}:{lineno}")
        gen = ast.comprehension(target=ast.Name(id=var, ctx=ast.Store()), iter=it, ifs=[applied] if kind == "filter" else [], is_async=0)
        out = ast.GeneratorExp(elt=applied if kind == "map" else item, generators=[gen])
        for x in ast.walk(out):
            if not hasattr(x, "lineno"):
                x.lineno = lineno  # type: ignore[attr-defined]
                x.col_offset = 0  # type: ignore[attr-defined]
        return out

    def _callee(self, fn: str | None, m: Module) -> tuple[FuncInfo, bool] | None:
        """The package function a call runs, and whether its first parameter is bound implicitly (cls / self):
        a module-level function, `Class.method`, `Class(...)` (its __new__), or `cls.method` / `self.method` from inside a
        method of the same class."""
        if not fn:
            return None
        r = self.ix.resolve(m, fn)
        if r and r[0] == "func":
            f: FuncInfo = r[1]
            return f, (f.cls is not None and f.kind == "classmethod")
        if r and r[0] == "class":
            new = self.ix.find_method(r[1], "__new__")
            return (new, True) if new is not None else None
        head, _, rest = fn.partition(".")
        cur = self._fstack[-1] if self._fstack else None
        if r is None and rest and "." not in rest and cur is not None and cur.cls is not None and cur.kind != "staticmethod" \
                and cur.params and cur.params[0].arg == head:
            meth = self.ix.find_method(cur.cls, rest)
            if meth is not None:
                return meth, meth.kind != "staticmethod"
        return None

    def single_class_plus(self, pat: str) -> int | None:
        """`[class]+` or `[class]` -> the class as a bitset; None for any other pattern shape."""
        import re._parser as sp  # type: ignore[import-not-found]

        try:
            parsed = sp.parse(pat)
        except Exception as e:  # noqa: BLE001
            raise AnalysisError(f"E6: cannot parse regex {pat!r}: {e}") from e
        items = list(parsed)
        if len(items) != 1:
            return None
        op, av = items[0]
        if str(op) == "MAX_REPEAT":
            lo, hi, sub = av
            sub = list(sub)
            if lo < 1 or len(sub) != 1 or str(sub[0][0]) not in ("IN", "NOT_LITERAL", "LITERAL"):
                return None
            body = pat[:-1] if pat.endswith("+") else None
            if body is None:
                return None
            return self.t.regex_class(body)
        if str(op) == "IN":
            return self.t.regex_class(pat)
        return None

    # -- reserved words -------------------------------------------------------
    def reserved_words(self, _unused: Any) -> frozenset[str]:
        if self.reserved is not None:
            return self.reserved
        node = self.utils.variables.get("RESERVED_WORDS")
        if node is None:
            raise AnalysisError("RESERVED_WORDS not found in utils")
        self.reserved = frozenset(self._set_eval(node))
        global _RESERVED
        _RESERVED = self.reserved
        return self.reserved

    def _set_eval(self, n: ast.expr) -> set[str]:
        if isinstance(n, ast.Set):
            out = set()
            for e in n.elts:
                if not (isinstance(e, ast.Constant) and isinstance(e.value, str)):
                    raise AnalysisError("E6: non-literal in RESERVED_WORDS")
                out.add(e.value)
            return out
        if isinstance(n, ast.BinOp) and isinstance(n.op, (ast.BitOr, ast.Sub, ast.BitAnd)):
            a, b = self._set_eval(n.left), self._set_eval(n.right)
            return a | b if isinstance(n.op, ast.BitOr) else (a - b if isinstance(n.op, ast.Sub) else a & b)
        if isinstance(n, ast.Call) and dotted(n.func) in ("set", "frozenset") and len(n.args) == 1:
            return self._set_eval(n.args[0])
        if isinstance(n, ast.Call) and dotted(n.func) == "dir" and len(n.args) == 1 and dotted(n.args[0]) == "builtins":
            return set(dir(_builtins))
        if isinstance(n, ast.Attribute) and dotted(n) == "keyword.kwlist":
            return set(keyword.kwlist)
        raise AnalysisError(f"E6: cannot evaluate RESERVED_WORDS expression part {ast.unparse(n)}")


def bad_identifier_chars(t: Tables, s: S) -> dict[str, Any]:
    """Why a result may fail `isidentifier()`."""
    if s.valid:
        return {}
    out: dict[str, Any] = {}
    bad_any = s.any & ~t.ID_CONT
    bad_first = s.first & ~t.ID_START
    if bad_any:
        out["chars_not_ID_Continue"] = {"count": popcount(bad_any), "witnesses": [f"U+{c:04X}" for c in members(bad_any, 6)]}
    if bad_first & ~bad_any:
        b = bad_first & ~bad_any
        out["first_not_ID_Start"] = {"count": popcount(b), "witnesses": [f"U+{c:04X}" for c in members(b, 6)]}
    if s.empty:
        out["may_be_empty"] = True
    return out
