"""E6 CharClass - abstract interpretation of the naming pipeline (utils.py) over sets of code points.

Domain per string value: (any: code points that may occur anywhere, first: code points that may occur first,
empty: may be the empty string, valid: proven `isidentifier()`, finite: the exact finite language when known).
Code-point sets are Python ints used as bitsets over all 0x110000 code points, so a verdict is a statement about
every Unicode string, not a sample. Unsupported constructs raise AnalysisError naming the node: it never guesses.
"""
from __future__ import annotations

import ast
import builtins as _builtins
import keyword
import re
from dataclasses import dataclass, replace
from typing import Any

from .core import AnalysisError
from .pyindex import FuncInfo, Module, PyIndex, dotted

NCP = 0x110000
_ALL_STR: str | None = None


def all_chars() -> str:
    global _ALL_STR
    if _ALL_STR is None:
        _ALL_STR = "".join(map(chr, range(NCP)))
    return _ALL_STR


def mk(cps: Any) -> int:
    ba = bytearray(NCP // 8 + 1)
    for c in cps:
        ba[c >> 3] |= 1 << (c & 7)
    return int.from_bytes(ba, "little")


def bits_of_str(s: str) -> int:
    return mk(map(ord, s))


def members(b: int, limit: int = 12) -> list[int]:
    out = []
    i = 0
    while b and len(out) < limit:
        low = b & -b
        i = low.bit_length() - 1
        out.append(i)
        b ^= low
    return out


def popcount(b: int) -> int:
    return bin(b).count("1")


class Tables:
    """CPython's own definitions, tabulated once over all code points."""

    def __init__(self) -> None:
        a = all_chars()
        self.ALL = (1 << NCP) - 1
        self.ID_START = mk(i for i, c in enumerate(a) if c.isidentifier())
        self.ID_CONT = mk(i for i, c in enumerate(a) if ("a" + c).isidentifier())
        self.lower_exc = {i: c.lower() for i, c in enumerate(a) if c.lower() != c}
        self.upper_exc = {i: c.upper() for i, c in enumerate(a) if c.upper() != c}
        self.cap_exc = {i: c.capitalize() for i, c in enumerate(a) if c.capitalize() != c}
        self._cls: dict[str, int] = {}

    def regex_class(self, cls: str) -> int:
        if cls not in self._cls:
            self._cls[cls] = mk(map(ord, re.findall(cls, all_chars())))
        return self._cls[cls]

    def image(self, s: int, exc: dict[int, str], first_only: bool = False) -> int:
        keys = [k for k in exc if (s >> k) & 1]
        out = s
        for k in keys:
            out &= ~(1 << k)
        add = set()
        for k in keys:
            t = exc[k]
            add |= {ord(t[0])} if first_only and t else set(map(ord, t))
        return out | mk(add)


@dataclass(frozen=True)
class S:
    any: int
    first: int
    empty: bool
    valid: bool = False
    finite: frozenset[str] | None = None

    def describe(self, t: "Tables") -> dict[str, Any]:
        return {"chars": popcount(self.any), "first": popcount(self.first), "may_be_empty": self.empty, "validated": self.valid}


@dataclass(frozen=True)
class L:
    elem: S
    maybe_empty: bool


@dataclass(frozen=True)
class B:
    """an unknown boolean, with the refinements it implies"""
    when_true: tuple[tuple[str, str], ...] = ()   # (variable, fact)
    when_false: tuple[tuple[str, str], ...] = ()


def const_s(s: str) -> S:
    return S(bits_of_str(s), bits_of_str(s[:1]), s == "", s.isidentifier(), frozenset({s}))


def join_s(a: S | None, b: S | None) -> S:
    if a is None:
        return b  # type: ignore[return-value]
    if b is None:
        return a
    fin = a.finite | b.finite if a.finite is not None and b.finite is not None and len(a.finite | b.finite) < 4000 else None
    return S(a.any | b.any, a.first | b.first, a.empty or b.empty, a.valid and b.valid, fin)


def concat_s(a: S, b: S) -> S:
    fin = None
    if a.finite is not None and b.finite is not None and len(a.finite) * len(b.finite) < 4000:
        fin = frozenset(x + y for x in a.finite for y in b.finite)
    return S(a.any | b.any, a.first | (b.first if a.empty else 0), a.empty and b.empty, False, fin)


@dataclass
class Path:
    func: str
    desc: str
    result: S
    line: int


class CharInterp:
    def __init__(self, ix: PyIndex, tables: Tables | None = None):
        self.ix = ix
        self.t = tables or Tables()
        self.utils = ix.modules.get("openapi_python_client.utils")
        if self.utils is None:
            raise AnalysisError("utils module not found")
        self.TOP = S(self.t.ALL, self.t.ALL, True)
        # assumption (recorded in evidence): prefixes are non-empty valid identifiers
        self.PREFIX = S(self.t.ID_CONT, self.t.ID_START, False, True)
        self.paths: list[Path] = []
        self._depth = 0
        self.reserved: frozenset[str] | None = None

    # -- entry points -----------------------------------------------------
    def run_function(self, f: FuncInfo, args: dict[str, Any]) -> tuple[S | L | None, list[Path]]:
        """Interpret f with the given abstract arguments; returns (joined result, per-return-path results)."""
        self._depth += 1
        if self._depth > 12:
            raise AnalysisError(f"E6: recursion too deep at {f.qual}")
        try:
            env: dict[str, Any] = {}
            for p in f.params:
                if p.arg in args:
                    env[p.arg] = args[p.arg]
            # defaults
            a = f.node.args
            pos = [*a.posonlyargs, *a.args]
            for p, d in zip(pos[len(pos) - len(a.defaults):], a.defaults):
                if p.arg not in env:
                    env[p.arg] = self.ev(d, env, f.module)
            rets: list[tuple[Any, str, int]] = []
            self.block(f.node.body, env, f.module, rets, "")
            paths = []
            out: Any = None
            for val, desc, line in rets:
                if isinstance(val, S):
                    paths.append(Path(f.qual, desc or "fallthrough", val, line))
                    out = join_s(out, val) if isinstance(out, S) or out is None else out
                elif isinstance(val, L):
                    out = val if out is None else L(join_s(out.elem, val.elem), out.maybe_empty or val.maybe_empty)
                else:
                    out = val
            return out, paths
        finally:
            self._depth -= 1

    # -- statements ---------------------------------------------------------
    def block(self, body: list[ast.stmt], env: dict[str, Any], m: Module, rets: list, cond: str) -> bool:
        """Path-enumerating execution (every `if` forks); returns True if some path falls through, leaving the
        joined fall-through environment in `env` (per-path results are recorded in `rets`)."""
        states = self._run(body, [(dict(env), cond)], m, rets)
        if not states:
            return False
        keys = set().union(*[set(e) for e, _ in states])
        for k in keys:
            vals = [e[k] for e, _ in states if k in e]
            v = vals[0]
            for w in vals[1:]:
                v = self.join_any(v, w)
            env[k] = v
        return True

    def _run(self, body: list[ast.stmt], states: list, m: Module, rets: list) -> list:
        for st in body:
            if not states:
                return states
            if len(states) > 64:
                raise AnalysisError(f"E6: too many paths at {m.rel}:{st.lineno}")
            if isinstance(st, ast.Expr) and isinstance(st.value, ast.Constant):
                continue  # docstring
            nxt: list = []
            for env, cond in states:
                if isinstance(st, ast.Assign) and len(st.targets) == 1 and isinstance(st.targets[0], ast.Name):
                    env[st.targets[0].id] = self.ev(st.value, env, m)
                    nxt.append((env, cond))
                elif isinstance(st, ast.Return):
                    rets.append((self.ev(st.value, env, m), cond, st.lineno))
                elif isinstance(st, ast.If):
                    b = self.ev(st.test, env, m)
                    tc = (cond + " & " if cond else "") + ast.unparse(st.test)
                    fc = (cond + " & " if cond else "") + "not(" + ast.unparse(st.test) + ")"
                    if isinstance(b, bool):
                        arm = st.body if b else st.orelse
                        nxt.extend(self._run(arm, [(env, cond)], m, rets) if arm else [(env, cond)])
                        continue
                    if not isinstance(b, B):
                        b = B()
                    te, fe = dict(env), dict(env)
                    self.refine(te, b.when_true)
                    self.refine(fe, b.when_false)
                    nxt.extend(self._run(st.body, [(te, tc)], m, rets))
                    nxt.extend(self._run(st.orelse, [(fe, fc)], m, rets) if st.orelse else [(fe, fc)])
                else:
                    raise AnalysisError(f"E6: unsupported statement in naming pipeline: {m.rel}:{st.lineno} {type(st).__name__}")
            states = nxt
        return states

    def join_any(self, a: Any, b: Any) -> Any:
        if isinstance(a, S) and isinstance(b, S):
            return join_s(a, b)
        if isinstance(a, L) and isinstance(b, L):
            return L(join_s(a.elem, b.elem), a.maybe_empty or b.maybe_empty)
        if a == b:
            return a
        raise AnalysisError("E6: join of incompatible abstract values")

    def refine(self, env: dict[str, Any], facts: tuple[tuple[str, str], ...]) -> None:
        for var, fact in facts:
            v = env.get(var)
            if not isinstance(v, S):
                continue
            if fact == "identifier":
                env[var] = S(v.any & self.t.ID_CONT, v.first & self.t.ID_START, False, True,
                             frozenset(x for x in v.finite if x.isidentifier()) if v.finite is not None else None)
            elif fact.startswith("in:"):
                pass
            elif fact == "reserved":
                rs = self.reserved_words(None)
                env[var] = S(bits_of_str("".join(rs)), bits_of_str("".join(x[:1] for x in rs)), "" in rs, False, rs)

    # -- expressions ----------------------------------------------------------
    def ev(self, n: ast.expr, env: dict[str, Any], m: Module) -> Any:
        t = self.t
        if isinstance(n, ast.Constant):
            if isinstance(n.value, str):
                return const_s(n.value)
            return n.value
        if isinstance(n, ast.Name):
            if n.id in env:
                return env[n.id]
            s = self.ix.const_str(m, n)
            if s is not None:
                return const_s(s)
            return ("name", n.id)
        if isinstance(n, ast.JoinedStr):
            out = const_s("")
            for v in n.values:
                if isinstance(v, ast.Constant):
                    out = concat_s(out, const_s(str(v.value)))
                elif isinstance(v, ast.FormattedValue) and v.conversion == -1 and v.format_spec is None:
                    x = self.ev(v.value, env, m)
                    if not isinstance(x, S):
                        raise AnalysisError(f"E6: non-string in f-string {m.rel}:{n.lineno}")
                    out = concat_s(out, x)
                else:
                    raise AnalysisError(f"E6: unsupported f-string part {m.rel}:{n.lineno}")
            return out
        if isinstance(n, ast.IfExp):
            a, b = self.ev(n.body, env, m), self.ev(n.orelse, env, m)
            self.ev(n.test, env, m)
            return self.join_any(a, b)
        if isinstance(n, ast.UnaryOp) and isinstance(n.op, ast.Not):
            b = self.ev(n.operand, env, m)
            if isinstance(b, bool):
                return not b
            if isinstance(b, B):
                return B(b.when_false, b.when_true)
            return B()
        if isinstance(n, ast.BoolOp):
            vals = [self.ev(v, env, m) for v in n.values]
            bs = [v if isinstance(v, B) else B() for v in vals]
            if isinstance(n.op, ast.Or):
                # false only when all are false
                wf: tuple = ()
                for b in bs:
                    wf += b.when_false
                return B((), wf)
            wt: tuple = ()
            for b in bs:
                wt += b.when_true
            return B(wt, ())
        if isinstance(n, ast.Compare):
            if len(n.ops) == 1 and isinstance(n.ops[0], ast.In) and isinstance(n.left, ast.Name):
                rhs = dotted(n.comparators[0])
                if rhs == "RESERVED_WORDS":
                    return B(((n.left.id, "reserved"),), ())
            for c in [n.left, *n.comparators]:
                self.ev(c, env, m)
            return B()
        if isinstance(n, ast.GeneratorExp) or isinstance(n, ast.ListComp):
            if len(n.generators) != 1 or n.generators[0].ifs or not isinstance(n.generators[0].target, ast.Name):
                raise AnalysisError(f"E6: unsupported comprehension {m.rel}:{n.lineno}")
            it = self.ev(n.generators[0].iter, env, m)
            if isinstance(it, S):  # iterating characters of a string
                e2 = dict(env)
                e2[n.generators[0].target.id] = S(it.any, it.any, False)
                el = self.ev(n.elt, e2, m)
                return ("iter", el)
            if not isinstance(it, L):
                raise AnalysisError(f"E6: comprehension over non-list {m.rel}:{n.lineno}")
            e2 = dict(env)
            e2[n.generators[0].target.id] = it.elem
            el = self.ev(n.elt, e2, m)
            if not isinstance(el, S):
                raise AnalysisError(f"E6: comprehension element not a string {m.rel}:{n.lineno}")
            return L(el, it.maybe_empty)
        if isinstance(n, ast.Call):
            return self.call(n, env, m)
        if isinstance(n, ast.Attribute):
            return ("attr", ast.unparse(n))
        raise AnalysisError(f"E6: unsupported expression {type(n).__name__} at {m.rel}:{getattr(n, 'lineno', 0)}")

    def call(self, n: ast.Call, env: dict[str, Any], m: Module) -> Any:
        t = self.t
        fn = dotted(n.func)
        # method calls on abstract strings
        if isinstance(n.func, ast.Attribute) and fn not in ("re.sub", "re.split", "re.findall", "str.__new__"):
            recv = self.ev(n.func.value, env, m)
            meth = n.func.attr
            if isinstance(recv, S):
                if meth == "lower":
                    return S(t.image(recv.any, t.lower_exc), t.image(recv.first, t.lower_exc, True), recv.empty)
                if meth == "upper":
                    return S(t.image(recv.any, t.upper_exc), t.image(recv.first, t.upper_exc, True), recv.empty)
                if meth == "capitalize":
                    anyc = t.image(recv.any, t.lower_exc) | t.image(recv.first, t.cap_exc)
                    return S(anyc, t.image(recv.first, t.cap_exc, True), recv.empty)
                if meth in ("isupper", "islower", "isalpha", "isdigit", "startswith", "endswith"):
                    for a in n.args:
                        self.ev(a, env, m)
                    return B()
                if meth == "isidentifier":
                    var = n.func.value.id if isinstance(n.func.value, ast.Name) else None
                    return B(((var, "identifier"),), ()) if var else B()
                if meth == "join":
                    arg = self.ev(n.args[0], env, m)
                    if not isinstance(arg, L):
                        raise AnalysisError(f"E6: join over non-list {m.rel}:{n.lineno}")
                    sep = recv
                    e = arg.elem
                    # one or more elements, separator only between elements
                    anyb = e.any | sep.any
                    first = e.first | (sep.first if e.empty else 0)
                    return S(anyb, first, arg.maybe_empty or e.empty and sep.empty)
                if meth == "replace" and len(n.args) == 2:
                    a, b = self.ev(n.args[0], env, m), self.ev(n.args[1], env, m)
                    if isinstance(a, S) and isinstance(b, S):
                        return S(recv.any | b.any, recv.first | b.first, recv.empty or b.empty)
                if meth in ("strip", "lstrip", "rstrip"):
                    return S(recv.any, recv.any, True)
            raise AnalysisError(f"E6: unsupported method .{meth} at {m.rel}:{n.lineno}")
        if fn == "any" or fn == "all":
            self.ev(n.args[0], env, m)
            return B()
        if fn in ("iskeyword", "keyword.iskeyword"):
            return B()
        if fn == "str.__new__":
            return self.ev(n.args[1], env, m)
        if fn in ("re.sub", "re.split", "re.findall"):
            pat = self.ix.const_str(m, n.args[0])
            if pat is None:
                raise AnalysisError(f"E6: non-constant regex at {m.rel}:{n.lineno}")
            src = self.ev(n.args[-1], env, m)
            if not isinstance(src, S):
                raise AnalysisError(f"E6: regex on non-string at {m.rel}:{n.lineno}")
            cls = self.single_class_plus(pat)
            if fn == "re.sub":
                repl = self.ev(n.args[1], env, m)
                if not (isinstance(repl, S) and repl.finite is not None):
                    raise AnalysisError(f"E6: non-constant replacement at {m.rel}:{n.lineno}")
                if cls is None:
                    # arbitrary pattern: the result is made of source characters and replacement characters
                    return S(src.any | repl.any, src.any | repl.any, True)
                keep = src.any & ~cls
                if repl.finite == frozenset({""}):
                    # deletion: the first character stays first unless it can itself be deleted
                    exposed = keep if (src.first & cls or src.empty) else 0
                    return S(keep, (src.first & ~cls) | exposed, True if (src.empty or src.any & cls) else False)
                return S(keep | repl.any, keep | repl.any, True)
            if fn == "re.findall":
                if cls is None:
                    return L(S(src.any, src.any, True), True)
                got = src.any & cls
                return L(S(got, got, False), True)
            # re.split: pieces are substrings of the source (possibly empty)
            return L(S(src.any, src.any, True), False)
        # a function of the analysed module
        r = self.ix.resolve(m, fn) if fn else None
        if r and r[0] == "func":
            f: FuncInfo = r[1]
            args: dict[str, Any] = {}
            for p, a in zip(f.params, n.args):
                args[p.arg] = self.ev(a, env, m)
            for kw in n.keywords:
                if kw.arg:
                    args[kw.arg] = self.ev(kw.value, env, m)
            out, _ = self.run_function(f, args)
            return out
        raise AnalysisError(f"E6: unsupported call {fn} at {m.rel}:{n.lineno}")

    def single_class_plus(self, pat: str) -> int | None:
        """`[class]+` or `[class]` -> the class as a bitset; None for any other pattern shape."""
        import re._parser as sp  # type: ignore[import-not-found]

        try:
            parsed = sp.parse(pat)
        except Exception as e:  # noqa: BLE001
            raise AnalysisError(f"E6: cannot parse regex {pat!r}: {e}") from e
        items = list(parsed)
        if len(items) != 1:
            return None
        op, av = items[0]
        if str(op) == "MAX_REPEAT":
            lo, hi, sub = av
            sub = list(sub)
            if lo < 1 or len(sub) != 1 or str(sub[0][0]) not in ("IN", "NOT_LITERAL", "LITERAL"):
                return None
            body = pat[:-1] if pat.endswith("+") else None
            if body is None:
                return None
            return self.t.regex_class(body)
        if str(op) == "IN":
            return self.t.regex_class(pat)
        return None

    # -- reserved words -------------------------------------------------------
    def reserved_words(self, _unused: Any) -> frozenset[str]:
        if self.reserved is not None:
            return self.reserved
        node = self.utils.variables.get("RESERVED_WORDS")
        if node is None:
            raise AnalysisError("RESERVED_WORDS not found in utils")
        self.reserved = frozenset(self._set_eval(node))
        return self.reserved

    def _set_eval(self, n: ast.expr) -> set[str]:
        if isinstance(n, ast.Set):
            out = set()
            for e in n.elts:
                if not (isinstance(e, ast.Constant) and isinstance(e.value, str)):
                    raise AnalysisError("E6: non-literal in RESERVED_WORDS")
                out.add(e.value)
            return out
        if isinstance(n, ast.BinOp) and isinstance(n.op, (ast.BitOr, ast.Sub, ast.BitAnd)):
            a, b = self._set_eval(n.left), self._set_eval(n.right)
            return a | b if isinstance(n.op, ast.BitOr) else (a - b if isinstance(n.op, ast.Sub) else a & b)
        if isinstance(n, ast.Call) and dotted(n.func) in ("set", "frozenset") and len(n.args) == 1:
            return self._set_eval(n.args[0])
        if isinstance(n, ast.Call) and dotted(n.func) == "dir" and len(n.args) == 1 and dotted(n.args[0]) == "builtins":
            return set(dir(_builtins))
        if isinstance(n, ast.Attribute) and dotted(n) == "keyword.kwlist":
            return set(keyword.kwlist)
        raise AnalysisError(f"E6: cannot evaluate RESERVED_WORDS expression part {ast.unparse(n)}")


def bad_identifier_chars(t: Tables, s: S) -> dict[str, Any]:
    """Why a result may fail `isidentifier()`."""
    if s.valid:
        return {}
    out: dict[str, Any] = {}
    bad_any = s.any & ~t.ID_CONT
    bad_first = s.first & ~t.ID_START
    if bad_any:
        out["chars_not_ID_Continue"] = {"count": popcount(bad_any), "witnesses": [f"U+{c:04X}" for c in members(bad_any, 6)]}
    if bad_first & ~bad_any:
        b = bad_first & ~bad_any
        out["first_not_ID_Start"] = {"count": popcount(b), "witnesses": [f"U+{c:04X}" for c in members(b, 6)]}
    if s.empty:
        out["may_be_empty"] = True
    return out
