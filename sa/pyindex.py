"""E1 PyIndex - the resolved Python program of the package under analysis (pure `ast`, nothing is imported or run)."""
from __future__ import annotations

import ast
from dataclasses import dataclass, field
from pathlib import Path
from typing import Any, Iterator

from .core import PKG, AnalysisError


@dataclass
class FuncInfo:
    name: str
    qual: str
    module: "Module"
    cls: "ClassInfo | None"
    node: ast.FunctionDef | ast.AsyncFunctionDef
    kind: str = "function"  # function | method | classmethod | staticmethod | property
    parent: "FuncInfo | None" = None  # enclosing function for closures
    decorators: list[str] = field(default_factory=list)

    @property
    def params(self) -> list[ast.arg]:
        a = self.node.args
        return [*a.posonlyargs, *a.args, *a.kwonlyargs]

    @property
    def where(self) -> str:
        return f"{self.module.rel}:{self.node.lineno}"

    def __hash__(self) -> int:
        return hash(self.qual)

    def __eq__(self, other: object) -> bool:
        return isinstance(other, FuncInfo) and other.qual == self.qual


@dataclass
class ClassInfo:
    name: str
    qual: str
    module: "Module"
    node: ast.ClassDef
    base_exprs: list[ast.expr]
    bases: list[str] = field(default_factory=list)  # resolved quals (repo classes) or external dotted names
    fields: dict[str, ast.expr | None] = field(default_factory=dict)  # annotated instance fields -> annotation
    field_defaults: dict[str, ast.expr] = field(default_factory=dict)
    classvars: dict[str, ast.expr] = field(default_factory=dict)  # ClassVar / plain class-level constants -> value
    classvar_ann: dict[str, ast.expr] = field(default_factory=dict)
    methods: dict[str, FuncInfo] = field(default_factory=dict)
    decorators: list[str] = field(default_factory=list)

    def __hash__(self) -> int:
        return hash(self.qual)

    def __eq__(self, other: object) -> bool:
        return isinstance(other, ClassInfo) and other.qual == self.qual


@dataclass
class Module:
    name: str
    path: Path
    rel: str
    tree: ast.Module
    src: str
    is_pkg: bool
    imports: dict[str, str] = field(default_factory=dict)  # local name -> dotted target (absolute)
    classes: dict[str, ClassInfo] = field(default_factory=dict)
    functions: dict[str, FuncInfo] = field(default_factory=dict)
    variables: dict[str, ast.expr] = field(default_factory=dict)  # module-level simple assignments
    var_ann: dict[str, ast.expr] = field(default_factory=dict)


def dotted(node: ast.AST) -> str | None:
    if isinstance(node, ast.Name):
        return node.id
    if isinstance(node, ast.Attribute):
        b = dotted(node.value)
        return f"{b}.{node.attr}" if b else None
    return None


def decorator_name(d: ast.expr) -> str:
    if isinstance(d, ast.Call):
        d = d.func
    return dotted(d) or ast.unparse(d)


class PyIndex:
    def __init__(self, root: Path):
        self.root = Path(root)
        self.pkg_dir = self.root / PKG
        if not self.pkg_dir.is_dir():
            raise AnalysisError(f"package directory {self.pkg_dir} not found")
        self.modules: dict[str, Module] = {}
        self.classes: dict[str, ClassInfo] = {}
        self.functions: dict[str, FuncInfo] = {}
        self.all_functions: list[FuncInfo] = []  # including nested
        self._load()
        self._resolve_bases()
        self._subclasses: dict[str, set[str]] = {}
        for c in self.classes.values():
            for b in self.mro(c)[1:]:
                self._subclasses.setdefault(b.qual, set()).add(c.qual)

    # ------------------------------------------------------------------ loading
    def _load(self) -> None:
        for p in sorted(self.pkg_dir.rglob("*.py")):
            relp = p.relative_to(self.root)
            if "templates" in relp.parts:
                continue
            parts = list(relp.with_suffix("").parts)
            is_pkg = parts[-1] == "__init__"
            if is_pkg:
                parts = parts[:-1]
            name = ".".join(parts)
            src = p.read_text(encoding="utf-8")
            try:
                tree = ast.parse(src, filename=str(p))
            except SyntaxError as e:
                raise AnalysisError(f"cannot parse {relp}: {e}") from e
            m = Module(name=name, path=p, rel=str(relp), tree=tree, src=src, is_pkg=is_pkg)
            self.modules[name] = m
        for m in self.modules.values():
            self._index_module(m)

    def _abs_import(self, m: Module, level: int, module: str | None) -> str:
        if level == 0:
            return module or ""
        base = m.name.split(".")
        if not m.is_pkg:
            base = base[:-1]
        if level > 1:
            base = base[: len(base) - (level - 1)]
        return ".".join(base + ([module] if module else []))

    def _index_module(self, m: Module) -> None:
        def visit_body(body: list[ast.stmt]) -> None:
            for st in body:
                if isinstance(st, ast.Import):
                    for a in st.names:
                        m.imports[a.asname or a.name.split(".")[0]] = a.name if a.asname else a.name.split(".")[0]
                elif isinstance(st, ast.ImportFrom):
                    base = self._abs_import(m, st.level, st.module)
                    for a in st.names:
                        m.imports[a.asname or a.name] = f"{base}.{a.name}" if base else a.name
                elif isinstance(st, ast.ClassDef):
                    self._index_class(m, st)
                elif isinstance(st, (ast.FunctionDef, ast.AsyncFunctionDef)):
                    fi = self._mk_func(m, None, st, None)
                    if st.name not in m.functions or not _is_overload(st):
                        m.functions[st.name] = fi
                elif isinstance(st, ast.Assign):
                    for t in st.targets:
                        if isinstance(t, ast.Name):
                            m.variables[t.id] = st.value
                elif isinstance(st, ast.AnnAssign) and isinstance(st.target, ast.Name):
                    if st.value is not None:
                        m.variables[st.target.id] = st.value
                    m.var_ann[st.target.id] = st.annotation
                elif isinstance(st, ast.If):
                    # `if TYPE_CHECKING:` / version switches: index both arms (first definition wins for classes)
                    visit_body(st.body)
                    visit_body(st.orelse)
                elif isinstance(st, ast.Try):
                    visit_body(st.body)

        visit_body(m.tree.body)

    def _mk_func(self, m: Module, cls: ClassInfo | None, node: Any, parent: FuncInfo | None) -> FuncInfo:
        decs = [decorator_name(d) for d in node.decorator_list]
        kind = "function" if cls is None else "method"
        if cls is not None:
            if "classmethod" in decs:
                kind = "classmethod"
            elif "staticmethod" in decs:
                kind = "staticmethod"
            elif "property" in decs:
                kind = "property"
        if parent is not None:
            qual = f"{parent.qual}.<locals>.{node.name}"
        elif cls is not None:
            qual = f"{cls.qual}.{node.name}"
        else:
            qual = f"{m.name}.{node.name}"
        fi = FuncInfo(node.name, qual, m, cls, node, kind, parent, decs)
        if not _is_overload(node):
            self.all_functions.append(fi)
            if parent is None and cls is None:
                self.functions[qual] = fi
            elif cls is not None and parent is None:
                self.functions[qual] = fi
        # nested functions
        for sub in ast.walk(node):
            if sub is node:
                continue
            if isinstance(sub, (ast.FunctionDef, ast.AsyncFunctionDef)) and _direct_parent_func(node, sub):
                self._mk_func(m, cls, sub, fi)
        return fi

    def _index_class(self, m: Module, node: ast.ClassDef) -> None:
        qual = f"{m.name}.{node.name}"
        if node.name in m.classes:
            return  # version-switch duplicates (StrEnum vs str,Enum): keep the first
        ci = ClassInfo(node.name, qual, m, node, list(node.bases), decorators=[decorator_name(d) for d in node.decorator_list])
        m.classes[node.name] = ci
        self.classes[qual] = ci
        for st in node.body:
            if isinstance(st, ast.AnnAssign) and isinstance(st.target, ast.Name):
                ann_s = ast.unparse(st.annotation)
                if "ClassVar" in ann_s:
                    if st.value is not None:
                        ci.classvars[st.target.id] = st.value
                    ci.classvar_ann[st.target.id] = st.annotation
                else:
                    ci.fields[st.target.id] = st.annotation
                    if st.value is not None:
                        ci.field_defaults[st.target.id] = st.value
            elif isinstance(st, ast.Assign):
                for t in st.targets:
                    if isinstance(t, ast.Name):
                        ci.classvars[t.id] = st.value
            elif isinstance(st, (ast.FunctionDef, ast.AsyncFunctionDef)):
                fi = self._mk_func(m, ci, st, None)
                if not _is_overload(st) or st.name not in ci.methods:
                    ci.methods[st.name] = fi
        # instance attributes assigned in __init__ (plain classes such as Project)
        init = ci.methods.get("__init__")
        if init is not None:
            for sub in ast.walk(init.node):
                tgt = None
                ann = None
                if isinstance(sub, ast.AnnAssign):
                    tgt, ann = sub.target, sub.annotation
                elif isinstance(sub, ast.Assign) and len(sub.targets) == 1:
                    tgt = sub.targets[0]
                if isinstance(tgt, ast.Attribute) and isinstance(tgt.value, ast.Name) and tgt.value.id == "self":
                    if tgt.attr not in ci.fields or ci.fields[tgt.attr] is None:
                        ci.fields[tgt.attr] = ann

    def _resolve_bases(self) -> None:
        for c in self.classes.values():
            for b in c.base_exprs:
                if isinstance(b, ast.Subscript):
                    b = b.value
                d = dotted(b)
                if d is None:
                    continue
                r = self.resolve(c.module, d)
                if r and r[0] == "class":
                    c.bases.append(r[1].qual)
                elif r and r[0] == "ext":
                    c.bases.append(r[1])
                else:
                    c.bases.append(d)

    # ------------------------------------------------------------------ resolution
    def resolve(self, m: Module, name: str, _depth: int = 0) -> tuple[str, Any] | None:
        """Resolve a (dotted) name used in module m: ('class',ClassInfo)|('func',FuncInfo)|('module',Module)|
        ('var',(Module,name))|('ext',dotted)."""
        if _depth > 12:
            return None
        head, _, rest = name.partition(".")
        cur: tuple[str, Any] | None
        if head in m.classes:
            cur = ("class", m.classes[head])
        elif head in m.functions:
            cur = ("func", m.functions[head])
        elif head in m.imports:
            cur = self._resolve_abs(m.imports[head], _depth + 1)
        elif head in m.variables:
            cur = ("var", (m, head))
        else:
            return None
        while rest and cur is not None:
            head, _, rest = rest.partition(".")
            kind, obj = cur
            if kind == "module":
                cur = self.resolve(obj, head, _depth + 1)
                if cur is None:
                    sub = self.modules.get(f"{obj.name}.{head}")
                    cur = ("module", sub) if sub else None
            elif kind == "class":
                meth = self.find_method(obj, head)
                if meth is not None:
                    cur = ("func", meth)
                elif self.find_classvar(obj, head) is not None:
                    cur = ("classvar", (obj, head))
                else:
                    return None
            elif kind == "ext":
                cur = ("ext", f"{obj}.{head}")
            else:
                return None
        return cur

    def _resolve_abs(self, dotted_name: str, depth: int) -> tuple[str, Any] | None:
        if dotted_name in self.modules:
            return ("module", self.modules[dotted_name])
        if not dotted_name.startswith(PKG):
            return ("ext", dotted_name)
        modname, _, attr = dotted_name.rpartition(".")
        mod = self.modules.get(modname)
        if mod is None:
            return None
        r = self.resolve(mod, attr, depth + 1)
        if r is None:
            sub = self.modules.get(dotted_name)
            return ("module", sub) if sub else None
        return r

    # ------------------------------------------------------------------ class helpers
    def mro(self, c: ClassInfo) -> list[ClassInfo]:
        out: list[ClassInfo] = []
        seen: set[str] = set()

        def go(k: ClassInfo) -> None:
            if k.qual in seen:
                return
            seen.add(k.qual)
            out.append(k)
            for b in k.bases:
                if b in self.classes:
                    go(self.classes[b])

        go(c)
        return out

    def ext_bases(self, c: ClassInfo) -> set[str]:
        out = set()
        for k in self.mro(c):
            for b in k.bases:
                if b not in self.classes:
                    out.add(b)
        return out

    def subclasses(self, c: ClassInfo) -> list[ClassInfo]:
        return [self.classes[q] for q in sorted(self._subclasses.get(c.qual, ()))]

    def find_method(self, c: ClassInfo, name: str) -> FuncInfo | None:
        for k in self.mro(c):
            if name in k.methods:
                return k.methods[name]
        return None

    def find_classvar(self, c: ClassInfo, name: str) -> tuple[ClassInfo, ast.expr] | None:
        for k in self.mro(c):
            if name in k.classvars:
                return (k, k.classvars[name])
        return None

    def find_field(self, c: ClassInfo, name: str) -> tuple[ClassInfo, ast.expr | None] | None:
        for k in self.mro(c):
            if name in k.fields:
                return (k, k.fields[name])
        return None

    def all_fields(self, c: ClassInfo) -> dict[str, ast.expr | None]:
        out: dict[str, ast.expr | None] = {}
        for k in reversed(self.mro(c)):
            out.update(k.fields)
        return out

    def cls(self, short: str) -> ClassInfo:
        """Find a repo class by short name (unique) or qual."""
        if short in self.classes:
            return self.classes[short]
        hits = [c for c in self.classes.values() if c.name == short]
        if len(hits) != 1:
            raise AnalysisError(f"class {short!r}: {len(hits)} definitions found")
        return hits[0]

    def func(self, qual_suffix: str) -> FuncInfo:
        hits = [f for q, f in self.functions.items() if q == qual_suffix or q.endswith("." + qual_suffix)]
        if len(hits) != 1:
            raise AnalysisError(f"function {qual_suffix!r}: {len(hits)} definitions found")
        return hits[0]

    def has_func(self, qual_suffix: str) -> bool:
        return len([f for q, f in self.functions.items() if q == qual_suffix or q.endswith("." + qual_suffix)]) == 1

    def property_classes(self) -> list[ClassInfo]:
        proto = self.cls("PropertyProtocol")
        return [c for c in self.subclasses(proto)]

    def iter_funcs(self) -> Iterator[FuncInfo]:
        return iter(self.all_functions)

    def const_str(self, m: Module, node: ast.expr) -> str | None:
        """Statically evaluate a string expression made of literals and module-level constants."""
        if isinstance(node, ast.Constant) and isinstance(node.value, str):
            return node.value
        if isinstance(node, ast.Name):
            r = self.resolve(m, node.id)
            if r and r[0] == "var":
                mod, n = r[1]
                return self.const_str(mod, mod.variables[n])
            return None
        if isinstance(node, ast.JoinedStr):
            parts = []
            for v in node.values:
                if isinstance(v, ast.Constant):
                    parts.append(str(v.value))
                elif isinstance(v, ast.FormattedValue) and v.conversion == -1 and v.format_spec is None:
                    s = self.const_str(m, v.value)
                    if s is None:
                        return None
                    parts.append(s)
                else:
                    return None
            return "".join(parts)
        if isinstance(node, ast.BinOp) and isinstance(node.op, ast.Add):
            a, b = self.const_str(m, node.left), self.const_str(m, node.right)
            return a + b if a is not None and b is not None else None
        return None


def _is_overload(node: Any) -> bool:
    return any(decorator_name(d).endswith("overload") for d in node.decorator_list)


def _direct_parent_func(outer: ast.AST, inner: ast.AST) -> bool:
    """True iff `inner` is nested in `outer` with no other function/class in between."""
    stack: list[ast.AST] = list(ast.iter_child_nodes(outer))
    while stack:
        n = stack.pop()
        if n is inner:
            return True
        if isinstance(n, (ast.FunctionDef, ast.AsyncFunctionDef, ast.ClassDef, ast.Lambda)):
            continue
        stack.extend(ast.iter_child_nodes(n))
    return False
