"""Abstract values shared by the Python and the Jinja interpreters (E4/E5).

An AV over-approximates the set of run-time values an expression can have:
  types   possible classes (repo class quals, builtin names, external dotted names)
  labels  provenance / sanitisation labels of the *text* the value can contribute to generated output
  alts    optional string structure: a set of alternative part sequences (literal text | hole | macro result)
  elem/key/tup  container structure
  funcs   callables the value may denote
  consts  the concrete values, when finitely known
"""
from __future__ import annotations

from dataclasses import dataclass, field, replace
from typing import Any, Iterable

# ---- labels ---------------------------------------------------------------
CONST = "CONST"        # literal text from repository source
IDENT = "IDENT"        # result of PythonIdentifier / ClassName (sanitised identifier)
WORD = "WORD"          # result of snake_case / pascal_case / kebab_case / sanitize: word characters and '-' '_' only
NUM = "NUM"            # str()/repr() of an int, float or bool; HTTPStatus; counters
NONFINITE = "NONFINITE"  # str()/repr() of a float not known to be finite: may read `inf` / `nan`, which are names, not literals
ENUM = "ENUM"          # member/value of an enum defined in the repository
PYREPR = "PYREPR"      # repr(x) / f"{x!r}" / "%r": a complete Python literal
JSONREPR = "JSONREPR"  # str() of a non-str JSON value (numbers, bools, lists, dicts: element reprs)
RAW = "RAW_DOC"        # text taken from the OpenAPI document, untouched
RAW_NONSTR = "RAW_NONSTR"  # document value known not to be a str
CONFIG = "CONFIG"      # the user's own configuration / CLI arguments / cwd (trusted)
UNKNOWN = "UNKNOWN"    # analysis lost track
ESC = "ESC:"           # prefix: document text passed through an escaping replace-chain; suffix = neutralised chars
REPR_OF_ESC = "REPR_OF_ESC"  # repr() applied to already escaped text (double escaping, value changed)

RAWISH = {RAW, RAW_NONSTR, UNKNOWN}


def is_esc(label: str) -> bool:
    return label.startswith(ESC)


@dataclass(frozen=True)
class Part:
    kind: str  # lit | hole | macro
    text: str = ""  # literal text / description of hole / macro key
    labels: frozenset[str] = frozenset()
    origin: str = field(default="", compare=False)  # where the hole's value came from (diagnostics only)

    def __repr__(self) -> str:
        if self.kind == "lit":
            return repr(self.text)
        if self.kind == "macro":
            return f"<macro {self.text}>"
        return "<" + (self.text or "?") + ":" + ",".join(sorted(self.labels)) + ">"


Parts = tuple  # tuple[Part, ...]
# widening bounds; the thorough tier (VERIF_DEEP=1) re-runs the fixpoint with doubled bounds: widening only ever adds labels, so a
# finding must survive the more precise run and no finding may appear only there
DEEP = __import__("os").environ.get("VERIF_DEEP") == "1"
MAX_ALTS = 96 if DEEP else 48
MAX_PARTS = 14 if DEEP else 10  # longer concatenations (accumulating error texts) lose their structure
MAX_DEPTH = 4


@dataclass(frozen=True)
class AV:
    types: frozenset[str] = frozenset()
    labels: frozenset[str] = frozenset()
    elem: "AV | None" = None
    key: "AV | None" = None
    tup: "tuple[AV, ...] | None" = None
    alts: "frozenset[Parts] | None" = None
    funcs: frozenset[Any] = frozenset()
    consts: "frozenset[Any] | None" = None
    bound: "AV | None" = None  # receiver for bound methods
    attrs: "tuple[tuple[str, AV], ...] | None" = None  # inline fields of small value classes (Value, Class, ...)

    def attr(self, name: str) -> "AV | None":
        if self.attrs is None:
            return None
        for k, v in self.attrs:
            if k == name:
                return v
        return None

    @property
    def is_bottom(self) -> bool:
        return not (self.types or self.labels or self.funcs or self.elem or self.tup or self.alts or self.attrs)

    def with_labels(self, labels: Iterable[str]) -> "AV":
        return replace(self, labels=frozenset(labels), alts=None, consts=None)

    def add_labels(self, labels: Iterable[str]) -> "AV":
        return replace(self, labels=self.labels | frozenset(labels))

    def short(self) -> str:
        t = ",".join(sorted(x.rsplit(".", 1)[-1] for x in self.types))
        l = ",".join(sorted(self.labels))
        s = f"AV[{t}|{l}]"
        if self.alts is not None:
            s += f" alts={len(self.alts)}"
        if self.consts is not None:
            s += f" consts={sorted(map(repr, self.consts))[:4]}"
        return s


BOTTOM = AV()


def lit(text: str) -> AV:
    return AV(types=frozenset({"str"}), labels=frozenset({CONST}), alts=frozenset({(Part("lit", text),)}),
              consts=frozenset({text}))


def num(v: Any = None, t: str = "int") -> AV:
    return AV(types=frozenset({t}), labels=frozenset({NUM}), consts=frozenset({v}) if v is not None else None)


def typed(*types: str, labels: Iterable[str] = ()) -> AV:
    return AV(types=frozenset(types), labels=frozenset(labels))


def strval(labels: Iterable[str], desc: str = "", origin: str = "") -> AV:
    ls = frozenset(labels)
    return AV(types=frozenset({"str"}), labels=ls, alts=frozenset({(Part("hole", desc, ls, origin),)}))


def canon_alts(alts: "frozenset[Parts] | None") -> "frozenset[Parts] | None":
    """One alternative per literal skeleton: alternatives that differ only in hole labels are merged (label union).
    Keeps the set small and lets early-iteration (less informed) alternatives be absorbed by later ones."""
    if alts is None or len(alts) <= 1:
        return alts
    # an alternative with an empty-label hole denotes no string at all (nothing flows there yet): drop it
    live = frozenset(a for a in alts if all(p.kind != "hole" or p.labels for p in a))
    if live:
        alts = live
    if len(alts) <= 1:
        return alts
    groups: dict[tuple, list[Parts]] = {}
    for alt in alts:
        key = tuple((p.kind, p.text if p.kind != "hole" else "") for p in alt)
        groups.setdefault(key, []).append(alt)
    out = set()
    for key, members_ in groups.items():
        if len(members_) == 1:
            out.add(members_[0])
            continue
        merged = []
        for i, p in enumerate(members_[0]):
            if p.kind != "hole":
                merged.append(p)
            else:
                labs: frozenset[str] = frozenset()
                desc = ""
                origin = ""
                for mbr in members_:
                    labs |= mbr[i].labels
                descs_ = sorted(mbr[i].text for mbr in members_ if mbr[i].text)
                desc = descs_[0] if descs_ else ""
                origins_ = sorted(mbr[i].origin for mbr in members_ if mbr[i].origin)
                origin = origins_[0] if origins_ else ""
                merged.append(Part("hole", desc, labs, origin))
        out.add(tuple(merged))
    return frozenset(out)


def _depth(a: "AV | None") -> int:
    if a is None:
        return 0
    return 1 + max(_depth(a.elem), _depth(a.key), max((_depth(t) for t in a.tup), default=0) if a.tup else 0)


def join(a: "AV | None", b: "AV | None", _d: int = 0) -> AV:
    if a is None or a.is_bottom:
        return b if b is not None else BOTTOM
    if b is None or b.is_bottom:
        return a
    if a is b or a == b:
        return a
    types = a.types | b.types
    labels = a.labels | b.labels
    funcs = a.funcs | b.funcs
    if _d >= MAX_DEPTH:
        return AV(types=types, labels=labels | _deep_labels(a) | _deep_labels(b), funcs=funcs)
    tup = None
    elem_a, elem_b = a.elem, b.elem
    if a.tup is not None and b.tup is not None and len(a.tup) == len(b.tup):
        tup = tuple(join(x, y, _d + 1) for x, y in zip(a.tup, b.tup))
    else:
        if a.tup is not None:
            for x in a.tup:
                elem_a = join(elem_a, x, _d + 1)
        if b.tup is not None:
            for x in b.tup:
                elem_b = join(elem_b, x, _d + 1)
    elem = join(elem_a, elem_b, _d + 1) if (elem_a is not None or elem_b is not None) else None
    key = join(a.key, b.key, _d + 1) if (a.key is not None or b.key is not None) else None
    alts = None
    a_str = bool(a.labels) or a.alts is not None
    b_str = bool(b.labels) or b.alts is not None
    if a.alts is not None and b.alts is not None:
        u = canon_alts(a.alts | b.alts)
        alts = u if u is not None and len(u) <= MAX_ALTS else None
    elif a.alts is not None and not b_str:
        alts = a.alts
    elif b.alts is not None and not a_str:
        alts = b.alts

    consts = None
    if a.consts is not None and b.consts is not None:
        u2 = a.consts | b.consts
        consts = u2 if len(u2) <= 64 else None
    bound = join(a.bound, b.bound, _d + 1) if (a.bound is not None or b.bound is not None) else None
    attrs = None
    if a.attrs is not None and b.attrs is not None:
        da, db = dict(a.attrs), dict(b.attrs)
        attrs = tuple(sorted((k, join(da.get(k), db.get(k), _d + 1)) for k in set(da) | set(db)))
    elif a.attrs is not None or b.attrs is not None:
        attrs = a.attrs if a.attrs is not None else b.attrs
    return AV(types, labels, elem, key, tup, alts, funcs, consts, bound, attrs)


def _deep_labels(a: "AV | None") -> frozenset[str]:
    if a is None:
        return frozenset()
    out = set(a.labels)
    out |= _deep_labels(a.elem)
    out |= _deep_labels(a.key)
    if a.attrs:
        for _, v in a.attrs:
            out |= _deep_labels(v)
    if a.tup:
        for t in a.tup:
            out |= _deep_labels(t)
    return frozenset(out)


def join_keep(a: "AV | None", b: "AV | None") -> AV:
    """join that keeps string structure when one side is unstructured (used for macro parameters, whose call
    sites are few): the unstructured side becomes a one-hole alternative. Once collapsed it stays collapsed."""
    if a is None or a.is_bottom:
        return b if b is not None else BOTTOM
    if b is None or b.is_bottom:
        return a
    out = join(a, b)
    if out.alts is None and (a.alts is not None or b.alts is not None):
        if a.alts is not None and b.alts is None and b.labels and not getattr(b, "_collapsed", False):
            u = canon_alts(a.alts | as_parts(b))
        elif b.alts is not None and a.alts is None and a.labels:
            return out  # `a` (the accumulated value) already lost its structure: absorbing
        else:
            return out
        if u is not None and len(u) <= MAX_ALTS:
            return replace(out, alts=u)
    return out


def join_all(vals: Iterable["AV | None"]) -> AV:
    out = BOTTOM
    for v in vals:
        out = join(out, v)
    return out


def parts_labels(parts: Parts) -> frozenset[str]:
    out: set[str] = set()
    for p in parts:
        if p.kind == "lit":
            if p.text:
                out.add(CONST)
        else:
            out |= p.labels
    return frozenset(out)


def as_parts(a: AV, desc: str = "", origin: str = "") -> frozenset[Parts]:
    """String structure of a value (one opaque hole when unknown)."""
    if a.alts is not None:
        return a.alts
    return frozenset({(Part("hole", desc, frozenset(a.labels), origin),)})


def norm_parts(parts: Parts) -> Parts:
    out: list[Part] = []
    for p in parts:
        if p.kind == "lit":
            if not p.text:
                continue
            if out and out[-1].kind == "lit":
                out[-1] = Part("lit", out[-1].text + p.text)
                continue
        out.append(p)
    return tuple(out)


def concat(vals: list[AV], descs: "list[str] | None" = None, origin: str = "") -> AV:
    """Concatenation of string-ish values, keeping structure."""
    descs = descs or [""] * len(vals)
    seqs: list[Parts] = [()]
    labels: set[str] = set()
    ok = True
    for v, d in zip(vals, descs):
        alts = as_parts(v, d, origin)
        labels |= v.labels if v.labels else parts_labels(next(iter(alts)))
        new = []
        for s in seqs:
            for alt in alts:
                new.append(norm_parts(s + alt))
        if len(new) > MAX_ALTS or any(len(s_) > MAX_PARTS for s_ in new):
            ok = False
            break
        seqs = new
    if not ok:
        all_l: set[str] = set()
        for v in vals:
            all_l |= v.labels
        return AV(types=frozenset({"str"}), labels=frozenset(all_l))
    fs = canon_alts(frozenset(seqs)) or frozenset(seqs)
    lab: set[str] = set()
    for s in fs:
        lab |= parts_labels(s)
    consts = None
    if all(v.consts is not None and len(v.consts) == 1 for v in vals) and vals:
        try:
            consts = frozenset({"".join(str(next(iter(v.consts))) for v in vals)})
        except Exception:  # noqa: BLE001
            consts = None
    return AV(types=frozenset({"str"}), labels=frozenset(lab) or frozenset({CONST}), alts=fs, consts=consts)


def map_labels(a: AV, f: Any) -> AV:
    """Apply a label transfer function to a string value, keeping its structure."""
    new_alts = None
    if a.alts is not None:
        new_alts = frozenset(
            tuple(p if p.kind != "hole" else Part("hole", p.text, frozenset(f(p.labels)), p.origin) for p in alt)
            for alt in a.alts
        )
    return replace(a, labels=frozenset(f(a.labels)), alts=new_alts, consts=None)
