"""Shared conventions of the static checkers: reports, obligations, known findings, evidence, exit codes.

exit 0  every obligation discharged (or matched by a listed known finding -> KNOWN-FINDING line)
exit 1  VIOLATION property=<id> replay=<path>   (an obligation failed that known_findings.json does not list)
exit 2  ANALYSIS-ERROR property=<id> ...        (the analysis could not establish its own preconditions)
"""
from __future__ import annotations

import json
import os
import sys
import time
import traceback
from dataclasses import dataclass, field
from pathlib import Path
from typing import Any, Callable

VERIF = Path(__file__).resolve().parent.parent
DEFAULT_ROOT = Path(os.environ.get("VERIF_REPO_ROOT", "/repo"))
PKG = "openapi_python_client"


class AnalysisError(Exception):
    """The engine cannot establish its own preconditions (vanished anchor, floor, unsupported construct)."""


@dataclass
class Finding:
    rule: str
    construct: str  # stable key: qualified construct name + normalised expression, never a line number
    message: str
    where: str = ""  # file:line as of this run (diagnostic only, not part of the key)
    facts: dict[str, Any] = field(default_factory=dict)

    @property
    def key(self) -> tuple[str, str]:
        return (self.rule, self.construct)


@dataclass
class Obligation:
    rule: str
    construct: str
    lhs: Any
    rhs: Any
    ok: bool
    nontrivial: bool = True


class Report:
    """Collects what one property check analysed and decided."""

    def __init__(self, prop: str, tier: str, root: Path):
        self.prop = prop
        self.tier = tier
        self.root = root
        self.t0 = time.time()
        self.obligations: list[Obligation] = []
        self.findings: list[Finding] = []
        self.observations: list[str] = []
        self.indexed: dict[str, Any] = {}
        self.rules: dict[str, str] = {}
        self.assumptions: list[str] = []
        self.controls: dict[str, bool] = {}
        self.trusted: list[str] = []
        self.not_decided: list[str] = []

    # -- rule bookkeeping -------------------------------------------------
    def rule(self, rid: str, text: str) -> None:
        self.rules[rid] = text

    def ok(self, rule: str, construct: str, lhs: Any = None, rhs: Any = None, nontrivial: bool = True) -> None:
        self.obligations.append(Obligation(rule, construct, _short(lhs), _short(rhs), True, nontrivial))

    def fail(self, rule: str, construct: str, message: str, where: str = "", lhs: Any = None, rhs: Any = None,
             **facts: Any) -> None:
        self.obligations.append(Obligation(rule, construct, _short(lhs), _short(rhs), False, True))
        self.findings.append(Finding(rule, construct, message, where, {k: _short(v) for k, v in facts.items()}))

    def check(self, cond: bool, rule: str, construct: str, message: str, where: str = "", lhs: Any = None,
              rhs: Any = None, **facts: Any) -> bool:
        if cond:
            self.ok(rule, construct, lhs, rhs)
        else:
            self.fail(rule, construct, message, where, lhs, rhs, **facts)
        return cond

    def observe(self, text: str) -> None:
        self.observations.append(text)

    def floor(self, what: str, count: int, minimum: int) -> None:
        """Instance counts confirmed by hand on the pinned tree: below them the rule would pass vacuously."""
        self.indexed[what] = count
        if count < minimum:
            raise AnalysisError(f"floor: {what}={count} < {minimum} (rule would be vacuous; anchor moved?)")

    def control(self, name: str, fired: bool) -> None:
        """Positive control: a synthetic violating fragment the rule must flag on every run."""
        self.controls[name] = fired
        if not fired:
            raise AnalysisError(f"positive control '{name}' did not fire: the rule is blind")

    def require(self, cond: Any, what: str) -> Any:
        if not cond:
            raise AnalysisError(f"anchor missing: {what}")
        return cond


def _short(v: Any, n: int = 300) -> Any:
    if v is None or isinstance(v, (bool, int, float)):
        return v
    if isinstance(v, (list, tuple, set, frozenset)):
        lst = sorted(map(str, v)) if isinstance(v, (set, frozenset)) else [str(x) for x in v]
        if len(lst) > 12:
            lst = lst[:12] + [f"...(+{len(lst) - 12})"]
        return [x[:n] for x in lst]
    if isinstance(v, dict):
        return {str(k)[:80]: _short(x, n) for k, x in list(v.items())[:20]}
    s = str(v)
    return s if len(s) <= n else s[:n] + "..."


# ---------------------------------------------------------------------------
# known findings
# ---------------------------------------------------------------------------

def load_known() -> dict[str, Any]:
    p = VERIF / "known_findings.json"
    if not p.exists():
        return {"known": [], "fixed": []}
    return json.loads(p.read_text())


def known_for(prop: str) -> dict[tuple[str, str], dict[str, Any]]:
    out = {}
    for e in load_known().get("known", []):
        if e["property"] == prop:
            out[(e["rule"], e["construct"])] = e
    return out


def _what_part(construct: str) -> str:
    """the part of a construct key that says WHAT is reported, without WHERE: keys are `<function>::<what>` for Python constructs and
    `<template>::<macro or scope>::<what...>` for template constructs.  Empty when the key has no such part."""
    parts = construct.split("::")
    if len(parts) >= 3 and parts[0].endswith(".jinja"):
        return "::".join(parts[2:])
    if len(parts) >= 2:
        return "::".join(parts[1:])
    return ""


# ---------------------------------------------------------------------------
# running a property check
# ---------------------------------------------------------------------------

def finish(rep: Report, level_text: str) -> int:
    known = known_for(rep.prop)
    new = [f for f in rep.findings if f.key not in known]
    hit = [f for f in rep.findings if f.key in known]
    seen_keys = set()
    for f in hit:
        if f.key in seen_keys:
            continue
        seen_keys.add(f.key)
        e = known[f.key]
        print(f"KNOWN-FINDING: property={rep.prop} {f.rule} {f.construct} :: {e.get('what', f.message)}")
    stale = [k for k in known if k not in {f.key for f in rep.findings}]
    # A listed finding whose construct has *moved*: it is no longer observed where it was listed and the same rule reports the same
    # construct (same expression / role text, same context) at exactly one place where nothing was listed - the code around the defect was
    # restructured (a macro extracted, a helper introduced, a template split), the defect is the listed one.  Matched one to one: a second
    # occurrence next to a listed one that is still observed is a new violation.
    moved: dict[tuple[str, str], Finding] = {}
    by_what: dict[tuple[str, str], list[tuple[str, str]]] = {}
    for k in stale:
        by_what.setdefault((k[0], _what_part(k[1])), []).append(k)
    cand: dict[tuple[str, str], list[Finding]] = {}
    for f in new:
        cand.setdefault((f.rule, _what_part(f.construct)), []).append(f)
    for wk, olds in by_what.items():
        fs = cand.get(wk, [])
        distinct = {f.construct for f in fs}
        if wk[1] and len(olds) == 1 and len(distinct) == 1:
            moved[olds[0]] = fs[0]
    if moved:
        gone = {f.key for f in moved.values()}
        new = [f for f in new if f.key not in gone]
        for k, f in moved.items():
            seen_keys.add(k)
            hit.append(f)
            print(f"KNOWN-FINDING: property={rep.prop} {k[0]} {k[1]} :: {known[k].get('what', f.message)} [the construct has moved: now {f.construct}]")
        stale = [k for k in stale if k not in moved]
    for k in stale:
        # a listed finding that no longer occurs is not an alarm; say so for whoever maintains the file
        print(f"note: known finding no longer observed (repaired?): property={rep.prop} {k[0]} {k[1]}")
    for o in rep.observations:
        print(f"observation: {o}")
    evdir = VERIF / "evidence"
    if os.environ.get("VERIF_NO_EVIDENCE"):
        # scratch runs (self-tests on copies) must not touch the evidence of the real tree: replay files go next to the analysed copy
        # when the caller says where (VERIF_SCRATCH_DIR, removed by the caller), else into a temporary directory created only if
        # there is something to write
        if os.environ.get("VERIF_SCRATCH_DIR"):
            evdir = Path(os.environ["VERIF_SCRATCH_DIR"]) / "verif_ev"
        elif new:
            import tempfile as _tf

            evdir = Path(_tf.mkdtemp(prefix="verif_ev_"))
        else:
            evdir = Path(os.devnull)
    if str(evdir) != os.devnull:
        evdir.mkdir(parents=True, exist_ok=True)
    replay_paths = []
    rdir = evdir / "replay"
    if rdir.is_dir():
        for old in rdir.glob(f"{rep.prop}-*.json"):
            old.unlink()
    if new:
        rdir.mkdir(exist_ok=True)
        for i, f in enumerate(new):
            rp = rdir / f"{rep.prop}-{i}.json"
            rp.write_text(json.dumps({
                "property": rep.prop, "rule": f.rule, "rule_text": rep.rules.get(f.rule, ""),
                "construct": f.construct, "where": f.where, "message": f.message, "facts": f.facts,
                "root": str(rep.root),
            }, indent=1))
            replay_paths.append(rp)
            print(f"  {f.rule} {f.construct}\n    at {f.where}\n    {f.message}")
            print(f"VIOLATION property={rep.prop} replay={rp}")
    write_evidence(rep, level_text, len(new), hit)
    n_ob = len(rep.obligations)
    n_ok = sum(1 for o in rep.obligations if o.ok)
    print(f"[{rep.prop}] tier={rep.tier} obligations={n_ob} discharged={n_ok} known={len(seen_keys)} "
          f"new_violations={len(new)} indexed={json.dumps(rep.indexed, sort_keys=True)} "
          f"wall={time.time() - rep.t0:.2f}s")
    return 1 if new else 0


def write_evidence(rep: Report, level_text: str, violations: int, hit: list[Finding], error: str | None = None) -> None:
    if os.environ.get("VERIF_NO_EVIDENCE"):
        return  # self-test runs against scratch copies must not overwrite the evidence of the real tree
    evdir = VERIF / "evidence"
    evdir.mkdir(exist_ok=True)
    obs = rep.obligations
    distinct = {(o.rule, o.construct) for o in obs if o.nontrivial}
    samples = []
    seen_rules: dict[str, int] = {}
    for o in obs:
        if seen_rules.get(o.rule, 0) >= 3:
            continue
        seen_rules[o.rule] = seen_rules.get(o.rule, 0) + 1
        samples.append({"rule": o.rule, "construct": o.construct, "compared": [o.lhs, o.rhs], "ok": o.ok})
    per_rule: dict[str, dict[str, int]] = {}
    for o in obs:
        d = per_rule.setdefault(o.rule, {"obligations": 0, "discharged": 0})
        d["obligations"] += 1
        d["discharged"] += 1 if o.ok else 0
    ev = {
        "property_id": rep.prop,
        "tier": rep.tier if rep.tier in ("quick", "thorough") else "quick",
        "seed": int(os.environ.get("VERIF_SEED", "0") or 0),
        "level": "other",
        "coverage": {
            "explanation": level_text,
            "evaluations": max(len(obs), 0),
            "distinct_nontrivial": len(distinct),
            "rule": "one evaluation = one obligation (rule instance found in the current source of /repo, decided by "
                    "comparing two independently extracted facts); distinct = distinct (rule, construct key); "
                    "non-trivial = the obligation compares facts extracted from at least two different places",
            "samples": samples or [{"note": "no obligations (analysis error)"}],
            "obligations": len(obs),
            "discharged": sum(1 for o in obs if o.ok),
            "per_rule": per_rule,
            "rules": rep.rules,
            "indexed": rep.indexed,
            "known_findings_hit": sorted({f"{f.rule} {f.construct}" for f in hit}),
            "positive_controls": rep.controls,
            "observations": rep.observations[:50],
            "not_decided": rep.not_decided,
            "exhaustive": error is None,
            "analysed_root": str(rep.root),
        },
        "assumptions": rep.assumptions + [f"trusted: {t}" for t in rep.trusted],
        "wall_s": round(time.time() - rep.t0, 3),
        "violations": violations,
    }
    if error:
        ev["coverage"]["analysis_error"] = error
    (evdir / f"{rep.prop}.json").write_text(json.dumps(ev, indent=1, sort_keys=True))


def run_property(prop: str, fn: Callable[[Report, Any], str], tier: str, root: Path, ctx: Any = None) -> int:
    """fn(report, ctx) -> level text. Exceptions never masquerade as violations."""
    from .context import Ctx

    rep = Report(prop, tier, root)
    try:
        ctx = ctx if ctx is not None else Ctx(root)
        text = fn(rep, ctx)
        return finish(rep, text)
    except AnalysisError as e:
        print(f"ANALYSIS-ERROR property={prop} {e}")
        write_evidence(rep, "analysis error", 0, [], error=str(e))
        return 2
    except Exception as e:  # noqa: BLE001
        traceback.print_exc(file=sys.stdout)
        print(f"ANALYSIS-ERROR property={prop} internal: {type(e).__name__}: {e}")
        write_evidence(rep, "analysis error", 0, [], error=f"{type(e).__name__}: {e}")
        return 2
