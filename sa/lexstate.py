"""Lexical state machines of the *generated* languages (Python, TOML, inert text).

A state is a short string:
  CODE | COMMENT | S:<prefix>:<quote>   e.g.  S::"   S:r:\"\"\"   S:f:"   (prefix = sorted subset of 'bfr')
  a trailing '\\' marks a pending backslash escape at the end of the consumed text
  INERT for languages where nothing can be broken (Markdown, .gitignore)
"""
from __future__ import annotations

CODE = "CODE"
COMMENT = "COMMENT"
INERT = "INERT"
ERR = "ERR"


def language_of(template_name: str) -> str:
    n = template_name.rsplit("/", 1)[-1]
    if n.endswith(".py.jinja"):
        return "python"
    if n.endswith(".toml.jinja"):
        return "toml"
    return "inert"


def start_state(lang: str) -> str:
    return INERT if lang == "inert" else CODE


def is_string(state: str) -> bool:
    return state.startswith("S:")


def string_info(state: str) -> tuple[str, str]:
    """(prefix letters, quote) of a string state"""
    s = state[:-1] if state.endswith("\\") else state
    _, prefix, quote = s.split(":", 2)
    return prefix, quote


def feed(lang: str, state: str, text: str) -> str:
    if lang == "inert" or state == INERT:
        return INERT
    if lang == "python":
        return _feed_python(state, text)
    if lang == "toml":
        return _feed_toml(state, text)
    return state


def _feed_python(state: str, text: str) -> str:
    i = 0
    n = len(text)
    pending = False
    if is_string(state) and state.endswith("\\"):
        pending = True
        state = state[:-1]
    while i < n:
        ch = text[i]
        if state == CODE:
            if ch == "#":
                state = COMMENT
            elif ch in "\"'":
                # prefix letters directly before the quote
                j = i - 1
                pref = ""
                while j >= 0 and text[j] in "rRbBfFuU" and len(pref) < 2:
                    pref = text[j].lower() + pref
                    j -= 1
                if j >= 0 and (text[j].isalnum() or text[j] == "_"):
                    pref = ""
                q = ch * 3 if text[i:i + 3] == ch * 3 else ch
                state = "S:" + "".join(sorted(set(pref) - {"u"})) + ":" + q
                i += len(q)
                continue
        elif state == COMMENT:
            if ch == "\n":
                state = CODE
        elif is_string(state):
            prefix, q = string_info(state)
            if pending:
                pending = False
                i += 1
                continue
            if ch == "\\":
                pending = True
            elif text[i:i + len(q)] == q:
                state = CODE
                i += len(q)
                continue
            elif ch == "\n" and len(q) == 1:
                state = ERR
        i += 1
    if pending and is_string(state):
        state += "\\"
    return state


def _feed_toml(state: str, text: str) -> str:
    i = 0
    n = len(text)
    pending = state.endswith("\\") and is_string(state)
    if pending:
        state = state[:-1]
    while i < n:
        ch = text[i]
        if state == CODE:
            if ch == "#":
                state = COMMENT
            elif ch in "\"'":
                q = ch * 3 if text[i:i + 3] == ch * 3 else ch
                state = "S:" + ("r" if ch == "'" else "") + ":" + q  # TOML literal strings behave like raw strings
                i += len(q)
                continue
        elif state == COMMENT:
            if ch == "\n":
                state = CODE
        elif is_string(state):
            prefix, q = string_info(state)
            if pending:
                pending = False
                i += 1
                continue
            if ch == "\\" and "r" not in prefix:
                pending = True
            elif text[i:i + len(q)] == q:
                state = CODE
                i += len(q)
                continue
            elif ch == "\n" and len(q) == 1:
                state = ERR
        i += 1
    if pending and is_string(state):
        state += "\\"
    return state


def context_kind(lang: str, state: str) -> str:
    """Coarse kind used by the admission table."""
    if state == INERT:
        return "INERT"
    if state == CODE:
        return "CODE"
    if state == COMMENT:
        return "COMMENT"
    if state == ERR:
        return "ERR"
    if is_string(state):
        prefix, q = string_info(state)
        k = "STR3" if len(q) == 3 else "STR1"
        k += q[0]
        if "f" in prefix:
            k = "F" + k
        if "r" in prefix:
            k = "R" + k
        if lang == "toml":
            k = "TOML_" + k
        return k
    return "ERR"


def breaking_chars(kind: str) -> set[str]:
    """Characters that can end or corrupt the lexical context (the R05.2 oracle; from the language definitions)."""
    k = kind.replace("TOML_", "")
    if k in ("CODE", "COMMENT", "INERT", "ERR"):
        return set()
    raw = k.startswith("R") or k.startswith("FR") or k.startswith("RF")
    f = "F" in k.split("STR")[0]
    q = k[-1]
    triple = "STR3" in k
    out = {q}
    if not raw or True:
        out.add("\\")  # even in raw strings a trailing backslash swallows the closing quote
    if not triple:
        out |= {"\n", "\r"}
    if f:
        out |= {"{", "}"}
    return out
