"""Scanner of skeleton streams (see skeleton.py): BIND / READ / PARAM events per generated scope, in stream order.
BINDs of an assignment are recorded after the reads of its right-hand side (statement end), as Python evaluates."""
from __future__ import annotations

import re
from dataclasses import dataclass, field

from . import lexstate as LX

HOLE = "\ue000"
OPQ = "\ue001"
VARIANT = "\ue002"  # first character of a line that is an alternative of the line before it (exactly one of them is generated)

_KEYWORDS = {"if", "else", "elif", "for", "in", "is", "not", "and", "or", "return", "def", "class", "import", "from", "as",
             "try", "except", "finally", "raise", "with", "while", "pass", "break", "continue", "lambda", "None", "True",
             "False", "async", "await", "del", "global", "nonlocal", "assert", "yield"}


@dataclass
class Event:
    kind: str       # BIND | READ | PARAM | ATTRBIND | STRHOLE (a name hole inside a string literal that is data) |
                    # RAWCODE / RAWSTR (an opaque template value - `root` is its expression text - outside every string literal and
                    # comment / inside a string literal that is data); the last three have hole=True and no name |
                    # FMTKW (a name hole that is a keyword of `"...<opaque value>...".format(...)`: it names a field of a format
                    # string that the generator prepared - `ref`)
    name: str       # fixed identifier, or affix pattern "prefix\x00suffix" for holes
    hole: bool
    line: int
    text: str
    site: str = ""
    root: str = ""
    pos: int = 0
    inst: str = ""  # holes: the template loop rounds in which the hole was written (skeleton.Item.inst)
    ref: str = ""   # FMTKW: the template expression(s) of the opaque value(s) inside the format string, joined by " | "


@dataclass
class Scope:
    name: str
    kind: str  # module | class | function
    indent: int
    parent: "Scope | None"
    events: list[Event] = field(default_factory=list)
    children: list["Scope"] = field(default_factory=list)

    def path(self) -> str:
        if self.parent is None:
            return self.name
        if self.parent.kind == "module":
            return self.name
        return self.parent.path() + "/" + self.name


def strip_strings(line: str, state: str) -> tuple[str, str, list[str]]:
    """Blank out string/comment contents of one physical line (keeping f-string replacement fields);
    returns (code text, lexer state after the line, f-string expression texts)."""
    code, st, fexprs, _spans, _fields = strip_spans(line, state)
    return code, st, fexprs


def strip_spans(line: str, state: str) -> tuple[str, str, list[str], list[tuple[int, int, int]], list[tuple[int, int]]]:
    """strip_strings plus the string literals of the line: (start, end, column of the opening quote - or -1 when the literal was
    opened on an earlier line) of the *content* of each, and the (start, end) of the replacement fields of f-strings within them
    (code, not content: their texts are the fexprs).  The code text has the length of the line: column i of one is column i of
    the other."""
    out: list[str] = []
    fexprs: list[str] = []
    spans: list[tuple[int, int, int]] = []
    fields: list[tuple[int, int]] = []
    i = 0
    n = len(line)
    st = state
    cur: "list[int] | None" = [0, -1] if LX.is_string(state) else None  # [content start, opening column] of the literal being read
    while i < n:
        ch = line[i]
        if st == LX.CODE:
            if ch in "\"'":
                j = i - 1
                pref = ""
                while j >= 0 and line[j] in "rRbBfFuU" and len(pref) < 2:
                    pref = line[j] + pref
                    j -= 1
                if j >= 0 and (line[j].isalnum() or line[j] == "_"):
                    pref = ""
                q = line[i:i + 3] if line[i:i + 3] in ('"""', "'''") else ch
                st = "S:" + "".join(sorted(set(pref.lower()) - {"u"})) + ":" + q
                for k in range(len(pref)):
                    out[-1 - k] = " "
                out.append(" " * len(q))
                cur = [i + len(q), i - len(pref)]
                i += len(q)
                continue
            if ch == "#":
                st = LX.COMMENT
                out.append(" ")
                i += 1
                continue
            out.append(ch)
            i += 1
            continue
        if st == LX.COMMENT:
            out.append(" ")
            i += 1
            continue
        prefix, q = LX.string_info(st)
        if line[i] == "\\" and i + 1 < n:
            out.append("  ")
            i += 2
            continue
        if line[i:i + len(q)] == q:
            st = LX.CODE
            out.append(" " * len(q))
            if cur is not None:
                spans.append((cur[0], i, cur[1]))
                cur = None
            i += len(q)
            continue
        if "f" in prefix and line[i] == "{" and line[i:i + 2] != "{{":
            j = line.find("}", i)
            if j > 0:
                fexprs.append(line[i + 1:j])
                fields.append((i, j + 1))
                out.append(" " * (j - i + 1))
                i = j + 1
                continue
        if "f" in prefix and line[i:i + 2] in ("{{", "}}"):
            out.append("  ")
            i += 2
            continue
        out.append(" ")
        i += 1
    if st == LX.COMMENT:
        st = LX.CODE
    if cur is not None:
        spans.append((cur[0], n, cur[1]))
    if LX.is_string(st) and len(LX.string_info(st)[1]) == 1:
        st = LX.CODE  # unterminated single-line string in the skeleton: resynchronise
    return "".join(out), st, fexprs, spans, fields


def scan_lines(lines: list[str], opaque: list[frozenset[str]], holes: "list[tuple]", template: str,
               opaque_texts: "list[str] | None" = None) -> Scope:
    """holes: (root, site[, rounds]) of each name hole; opaque_texts: the template expression behind each opaque value (when given,
    RAWCODE events are recorded for the opaque values that stand in code)"""
    root = Scope(template, "module", -1, None)
    cur = root
    state = LX.CODE
    depth = 0
    in_def_sig: Scope | None = None
    deferred: list[tuple[str, str, Scope, int, str]] = []
    seg_start = False
    pos = [0]
    W = rf"(?:\w|{HOLE}\d+{HOLE}|{OPQ}\d+{OPQ})"
    tok_re = re.compile(rf"(?:[^\W\d]|{HOLE}\d+{HOLE}|{OPQ}\d+{OPQ}){W}*|==|!=|<=|>=|->|:=|\*\*|[-+*/%@&|^]=|[()\[\]{{}}=:,.*]|\S",
                        re.UNICODE)
    ident_start = re.compile(rf"[^\W\d]|{HOLE}|{OPQ}", re.UNICODE)
    opq_only = re.compile(rf"{OPQ}(\d+){OPQ}")

    def rounds_of(i: int) -> str:
        return holes[i][2] if len(holes[i]) > 2 else ""

    def classify(tok: str) -> tuple[str, str, str, str, str]:
        if OPQ in tok:
            return "ignore", tok, "", "", ""
        if HOLE in tok:
            idx = [int(x) for x in re.findall(rf"{HOLE}(\d+){HOLE}", tok)]
            parts = re.split(rf"{HOLE}\d+{HOLE}", tok)
            if len(idx) != 1:
                return "ignore", tok, "", "", ""
            return "hole", "\x00".join(parts), holes[idx[0]][1], holes[idx[0]][0], rounds_of(idx[0])
        return "fixed", tok, "", "", ""

    def emit(kind: str, tok: str, sc: Scope, ln: int, raw: str, skip: "set[str] | frozenset[str]" = frozenset()) -> None:
        cls_, nm, site, rt, inst = classify(tok)
        if cls_ == "ignore":
            return
        if cls_ == "fixed" and (nm in _KEYWORDS or nm in skip):
            return
        pos[0] += 1
        sc.events.append(Event(kind, nm, cls_ == "hole", ln, raw.strip()[:110], site, rt, pos[0], inst))

    hole_at = re.compile(rf"{HOLE}(\d+){HOLE}")
    opq_at = re.compile(rf"{OPQ}(\d+){OPQ}")
    fmt_calls: list[tuple[int, str]] = []  # open `"...".format(` calls: (bracket depth inside the call, expressions in the format string)
    stmt_head = [""]       # first word of the statement being read
    reflective = re.compile(r"\b(getattr|setattr|hasattr|delattr)\s*\([^()]*$")
    doc_literal = [False]  # the string literal that is open across lines stands where a statement starts (a docstring: no data)

    def positions(raw: str, code: str, spans: list, fields: list, at_stmt_start: bool, sc: Scope, ln: int) -> None:
        """Where the two spellings of a document name stand: a name hole inside the content of a string literal (not in a
        replacement field of an f-string, not in a comment, not in a literal that stands alone as a statement) is a STRHOLE; an
        opaque template value outside every literal and comment - or in a replacement field - is a RAWCODE."""
        if at_stmt_start and code.strip():
            m0 = re.match(r"[^\W\d]\w*", code.strip())
            stmt_head[0] = m0.group(0) if m0 else ""
        for a, b, opened in spans:
            # no data: a literal that stands alone where a statement starts (documentation), the message of a raise / assert
            # statement, the attribute name handed to getattr / setattr / hasattr / delattr (there the identifier is what is meant)
            doc = doc_literal[0] if opened < 0 else ((at_stmt_start and not raw[:opened].strip()) or stmt_head[0] in ("raise", "assert")
                                                     or bool(reflective.search(code[:opened])))
            doc_literal[0] = doc
            if doc:
                continue
            for m in hole_at.finditer(raw, a, b):
                if any(fa <= m.start() < fb for fa, fb in fields):
                    continue
                i = int(m.group(1))
                pos[0] += 1
                sc.events.append(Event("STRHOLE", "\x00", True, ln, raw.strip()[:110], holes[i][1], holes[i][0], pos[0], rounds_of(i)))
            if opaque_texts is not None:
                for m in opq_at.finditer(raw, a, b):
                    if not any(fa <= m.start() < fb for fa, fb in fields):
                        pos[0] += 1
                        sc.events.append(Event("RAWSTR", "", True, ln, raw.strip()[:110], "", opaque_texts[int(m.group(1))], pos[0]))
        if opaque_texts is None:
            return
        for m in opq_at.finditer(raw):
            in_code = code[m.start():m.end()] == m.group(0) or any(fa <= m.start() < fb for fa, fb in fields)
            if in_code:
                pos[0] += 1
                sc.events.append(Event("RAWCODE", "", True, ln, raw.strip()[:110], "", opaque_texts[int(m.group(1))], pos[0]))

    def emit_opaque(tok: str, sc: Scope, ln: int, raw: str) -> None:
        m = opq_only.fullmatch(tok)
        if not m:
            return
        for idn in sorted(opaque[int(m.group(1))]):
            pos[0] += 1
            sc.events.append(Event("READ", idn, False, ln, raw.strip()[:110], "", "", pos[0]))

    def flush() -> None:
        for kind, tok, sc, ln, raw in deferred:
            emit(kind, tok, sc, ln, raw)
        deferred.clear()

    # alternatives of one line exclude each other: a name bound by one of them is not bound when another one is evaluated, so the
    # BINDs of all of them are recorded after the READs of all of them
    held = {i for i, x in enumerate(lines, 1) if i < len(lines) and lines[i].startswith(VARIANT)}  # lines followed by an alternative
    before_alternatives: tuple = ()
    for ln, raw in enumerate(lines, 1):
        # every alternative of a line starts in the state (brackets, strings, scope) in which the first one started
        if raw.startswith(VARIANT):
            raw = raw.lstrip(VARIANT)
            if before_alternatives:
                depth, state, in_def_sig, cur, seg_start = before_alternatives
        elif ln in held:
            before_alternatives = (depth, state, in_def_sig, cur, seg_start)
        code, state, fexprs, spans, fields = strip_spans(raw, state)
        if not code.strip() and not fexprs:
            positions(raw, code, spans, fields, depth == 0 and in_def_sig is None, cur, ln)
            continue
        indent = len(code) - len(code.lstrip(" "))
        if depth == 0 and in_def_sig is None and code.strip():
            if (ln - 1) not in held:
                flush()
            while cur is not root and indent <= cur.indent:
                cur = cur.parent  # type: ignore[assignment]
        positions(raw, code, spans, fields, depth == 0 and in_def_sig is None, in_def_sig or cur, ln)
        toks = [m.group(0) for m in tok_re.finditer(code)]
        tpos = [m.start() for m in tok_re.finditer(code)]
        stmt_start = depth == 0 and in_def_sig is None
        first_tok = toks[0] if toks else ""
        line_comp: set[str] = set()
        for j, tk in enumerate(toks):
            if tk == "for" and j > 0:
                k2 = j + 1
                while k2 < len(toks) and toks[k2] != "in":
                    if ident_start.match(toks[k2]):
                        line_comp.add(toks[k2])
                    k2 += 1
        i = 0
        hdr = first_tok in ("def", "class") or (first_tok == "async" and len(toks) > 1 and toks[1] == "def")
        if stmt_start and hdr:
            k0 = 2 if first_tok == "async" else 1
            if k0 < len(toks):
                emit("BIND", toks[k0], cur, ln, raw)
                cls_, nm, _s, _r, _i = classify(toks[k0])
                label = nm.replace("\x00", "<H>") if cls_ != "ignore" else "<class>"
                kind_ = "class" if first_tok == "class" else "function"
                last = cur.children[-1] if cur.children else None
                if (ln - 1) in held and last is not None and (last.name, last.kind, last.indent) == (label, kind_, indent):
                    new = last  # an alternative header of the definition just opened: one scope, not two
                else:
                    new = Scope(label, kind_, indent, cur)
                    cur.children.append(new)
                if first_tok == "class":
                    for tk in toks[k0 + 1:]:
                        if ident_start.match(tk):
                            emit("READ", tk, cur, ln, raw)
                    cur = new
                    continue
                in_def_sig = new
                i = k0 + 1
        if in_def_sig is not None:
            outer = in_def_sig.parent
            assert outer is not None
            while i < len(toks):
                tk = toks[i]
                if tk in ("(", "[", "{"):
                    depth += 1
                    seg_start = depth == 1
                    i += 1
                    continue
                if tk in (")", "]", "}"):
                    depth -= 1
                    i += 1
                    if depth == 0:
                        while i < len(toks):
                            if opq_only.fullmatch(toks[i]):
                                emit_opaque(toks[i], outer, ln, raw)
                            elif ident_start.match(toks[i]):
                                emit("READ", toks[i], outer, ln, raw)
                            i += 1
                        cur = in_def_sig
                        in_def_sig = None
                    continue
                if depth == 1 and tk == ",":
                    seg_start = True
                    i += 1
                    continue
                if tk in ("*", "**"):
                    i += 1
                    continue
                if depth == 1 and seg_start and ident_start.match(tk):
                    emit("PARAM", tk, in_def_sig, ln, raw)
                    seg_start = False
                    i += 1
                    continue
                if opq_only.fullmatch(tk):
                    emit_opaque(tk, outer, ln, raw)
                elif ident_start.match(tk):
                    emit("READ", tk, outer, ln, raw)
                seg_start = False
                i += 1
            continue
        sc = cur
        bind_idx: set[int] = set()
        if stmt_start and toks:
            if first_tok in ("import", "from"):
                after_import = False
                for j, tk in enumerate(toks):
                    if tk == "import":
                        after_import = True
                        continue
                    if after_import and ident_start.match(tk) and tk != "as":
                        if j + 1 < len(toks) and toks[j + 1] in ("as", "."):
                            continue
                        emit("BIND", tk, sc, ln, raw)
                continue
            if first_tok == "for":
                j = 1
                while j < len(toks) and toks[j] != "in":
                    if ident_start.match(toks[j]):
                        bind_idx.add(j)
                    j += 1
            elif ident_start.match(first_tok) and first_tok not in _KEYWORDS:
                if len(toks) > 1 and (toks[1] in ("=", ":", ":=") or re.fullmatch(r"[-+*/%@&|^]=", toks[1])):
                    if toks[1] == ":" and sc.kind != "class" and "=" not in toks[2:]:
                        pass  # bare annotation inside a function: declares, binds nothing
                    else:
                        bind_idx.add(0)
            if first_tok in ("with", "except"):
                for j, tk in enumerate(toks):
                    if tk == "as" and j + 1 < len(toks):
                        bind_idx.add(j + 1)
        # `"...<opaque value>...".format(`: the literal is a format string that the generator prepared; the keywords name its fields
        fmt_open: dict[int, str] = {}
        if opaque_texts is not None:
            for j in range(len(toks) - 2):
                if toks[j] == "." and toks[j + 1] == "format" and toks[j + 2] == "(":
                    end = len(raw[:tpos[j]].rstrip())  # where the closing quote of a literal would end
                    for a, b, _opened in spans:
                        if end - b in (1, 3) and raw[b:end] in ('"', "'", '"""', "'''"):
                            texts = [opaque_texts[int(m.group(1))] for m in opq_at.finditer(raw, a, b)
                                     if not any(fa <= m.start() < fb for fa, fb in fields)]
                            if texts:
                                fmt_open[j + 2] = " | ".join(texts)
        prev = ""
        for j, tk in enumerate(toks):
            if tk in ("(", "[", "{"):
                depth += 1
                if j in fmt_open:
                    fmt_calls.append((depth, fmt_open[j]))
            elif tk in (")", "]", "}"):
                depth = max(0, depth - 1)
                while fmt_calls and depth < fmt_calls[-1][0]:
                    fmt_calls.pop()
            if fmt_calls and depth == fmt_calls[-1][0] and HOLE in tk and j + 1 < len(toks) and toks[j + 1] == "=":
                cls_, nm, site, rt, inst = classify(tk)
                if cls_ == "hole":
                    pos[0] += 1
                    sc.events.append(Event("FMTKW", nm, True, ln, raw.strip()[:110], site, rt, pos[0], inst, fmt_calls[-1][1]))
            if opq_only.fullmatch(tk):
                emit_opaque(tk, sc, ln, raw)
            elif ident_start.match(tk):
                nxt = toks[j + 1] if j + 1 < len(toks) else ""
                if j in bind_idx:
                    kind = "ATTRBIND" if sc.kind == "class" else "BIND"
                    if first_tok == "for":
                        emit(kind, tk, sc, ln, raw)
                    else:
                        deferred.append((kind, tk, sc, ln, raw))
                elif prev == ".":
                    pass
                elif nxt == "=" and depth > 0:
                    pass
                else:
                    emit("READ", tk, sc, ln, raw, line_comp)
            prev = tk
        for fx in fexprs:
            for m in tok_re.finditer(fx):
                tk = m.group(0)
                if ident_start.match(tk) and not fx[:m.start()].rstrip().endswith("."):
                    emit("READ", tk, sc, ln, raw)
        if depth == 0 and ln not in held:
            flush()
    flush()
    return root
