"""Annotation -> abstract value (types only). Part of E1/E4."""
from __future__ import annotations

import ast

from .domain import AV, BOTTOM, ENUM, NUM, join
from .pyindex import ClassInfo, Module, PyIndex, dotted

SEQ_NAMES = {"list", "List", "set", "Set", "frozenset", "Iterator", "Iterable", "Sequence", "Generator",
             "Collection", "MutableSequence", "AbstractSet"}
MAP_NAMES = {"dict", "Dict", "Mapping", "MutableMapping"}
BUILTIN = {"str", "int", "float", "bool", "bytes", "object", "type"}


class TypeResolver:
    def __init__(self, ix: PyIndex):
        self.ix = ix
        self._memo: dict[tuple[str, str], AV] = {}

    def is_enum(self, c: ClassInfo) -> bool:
        return any(b.rsplit(".", 1)[-1] in ("Enum", "StrEnum", "IntEnum") for b in self.ix.ext_bases(c))

    def class_av(self, c: ClassInfo, expand: bool = True) -> AV:
        names = {c.qual}
        if expand:
            names |= {s.qual for s in self.ix.subclasses(c)}
            # a Protocol / abstract base is never instantiated itself
            if any(b.endswith("Protocol") for b in c.bases) and len(names) > 1:
                names.discard(c.qual)
        labels = frozenset({ENUM}) if self.is_enum(c) else frozenset()
        return AV(types=frozenset(names), labels=labels)

    def from_ann(self, m: Module, node: ast.expr | None, depth: int = 0) -> AV:
        if node is None or depth > 8:
            return BOTTOM
        key = (m.name, ast.dump(node))
        if key in self._memo:
            return self._memo[key]
        v = self._from_ann(m, node, depth)
        self._memo[key] = v
        return v

    def _from_ann(self, m: Module, node: ast.expr, depth: int) -> AV:
        ix = self.ix
        if isinstance(node, ast.Constant):
            if node.value is None:
                return AV(types=frozenset({"None"}))
            if isinstance(node.value, str):
                try:
                    return self.from_ann(m, ast.parse(node.value, mode="eval").body, depth + 1)
                except SyntaxError:
                    return BOTTOM
            return BOTTOM
        if isinstance(node, ast.BinOp) and isinstance(node.op, ast.BitOr):
            return join(self.from_ann(m, node.left, depth + 1), self.from_ann(m, node.right, depth + 1))
        if isinstance(node, (ast.Name, ast.Attribute)):
            d = dotted(node) or ""
            short = d.rsplit(".", 1)[-1]
            r = ix.resolve(m, d)
            if r is None:
                if short in BUILTIN:
                    return self._builtin(short)
                if short == "Any":
                    return AV(types=frozenset({"Any"}))
                if short in SEQ_NAMES:
                    return AV(types=frozenset({"list" if short not in ("set", "Set", "frozenset") else "set"}))
                if short in MAP_NAMES:
                    return AV(types=frozenset({"dict"}))
                if short == "None":
                    return AV(types=frozenset({"None"}))
                return AV(types=frozenset({d}))
            kind, obj = r
            if kind == "class":
                return self.class_av(obj)
            if kind == "var":
                mod, n = obj
                val = mod.variables[n]
                # TypeVar("T", bound=X) / NewType("N", base) / alias
                if isinstance(val, ast.Call):
                    fn = dotted(val.func) or ""
                    if fn.endswith("TypeVar"):
                        for kw in val.keywords:
                            if kw.arg == "bound":
                                return self.from_ann(mod, kw.value, depth + 1)
                        return AV(types=frozenset({"Any"}))
                    if fn.endswith("NewType") and len(val.args) == 2:
                        return self.from_ann(mod, val.args[1], depth + 1)
                    return BOTTOM
                return self.from_ann(mod, val, depth + 1)
            if kind == "ext":
                e = obj
                es = e.rsplit(".", 1)[-1]
                if es == "Any":
                    return AV(types=frozenset({"Any"}))
                if es in ("Path", "PosixPath"):
                    return AV(types=frozenset({"Path"}))
                if es == "HTTPStatus":
                    return AV(types=frozenset({"HTTPStatus"}), labels=frozenset({NUM}))
                if es in SEQ_NAMES:
                    return AV(types=frozenset({"set" if es in ("Set", "AbstractSet") else "list"}))
                if es in MAP_NAMES:
                    return AV(types=frozenset({"dict"}))
                if es in ("StrictStr",):
                    return self._builtin("str")
                if es in ("StrictInt",):
                    return self._builtin("int")
                if es in ("StrictFloat",):
                    return self._builtin("float")
                if es in ("StrictBool",):
                    return self._builtin("bool")
                return AV(types=frozenset({e}))
            return BOTTOM
        if isinstance(node, ast.Subscript):
            d = dotted(node.value) or ""
            short = d.rsplit(".", 1)[-1]
            args = node.slice.elts if isinstance(node.slice, ast.Tuple) else [node.slice]
            if short in ("Optional",):
                return join(self.from_ann(m, args[0], depth + 1), AV(types=frozenset({"None"})))
            if short in ("Union",):
                out = BOTTOM
                for a in args:
                    out = join(out, self.from_ann(m, a, depth + 1))
                return out
            if short in ("ClassVar", "Final", "Annotated", "Required", "NotRequired"):
                return self.from_ann(m, args[0], depth + 1)
            if short in ("Literal",):
                out = BOTTOM
                for a in args:
                    if isinstance(a, ast.Constant):
                        t = type(a.value).__name__ if a.value is not None else "None"
                        out = join(out, AV(types=frozenset({t}), consts=frozenset({a.value})))
                return out
            if short in ("type", "Type"):
                inner = self.from_ann(m, args[0], depth + 1)
                return AV(types=frozenset({"type"}), funcs=frozenset(("class", t) for t in inner.types))
            if short in ("tuple", "Tuple"):
                if len(args) == 2 and isinstance(args[1], ast.Constant) and args[1].value is Ellipsis:
                    return AV(types=frozenset({"tuple"}), elem=self.from_ann(m, args[0], depth + 1))
                return AV(types=frozenset({"tuple"}), tup=tuple(self.from_ann(m, a, depth + 1) for a in args))
            if short in SEQ_NAMES:
                t = "set" if short in ("set", "Set", "frozenset", "AbstractSet") else "list"
                if short in ("Iterator", "Iterable", "Generator"):
                    t = "iter"
                return AV(types=frozenset({t}), elem=self.from_ann(m, args[0], depth + 1))
            if short in MAP_NAMES:
                k = self.from_ann(m, args[0], depth + 1)
                v = self.from_ann(m, args[1], depth + 1) if len(args) > 1 else BOTTOM
                return AV(types=frozenset({"dict"}), key=k, elem=v)
            # generic alias defined in the repo, e.g. ReferenceOr[T]
            r = self.ix.resolve(m, d)
            if r and r[0] == "var":
                mod, n = r[1]
                base = self.from_ann(mod, mod.variables[n], depth + 1)
                out = base
                for a in args:
                    out = join(out, self.from_ann(m, a, depth + 1))
                return out
            if r and r[0] == "class":
                return self.class_av(r[1])
            return self.from_ann(m, node.value, depth + 1)
        if isinstance(node, ast.List):  # Callable[[...], X] argument lists
            return BOTTOM
        return BOTTOM

    @staticmethod
    def _builtin(short: str) -> AV:
        if short in ("int", "float", "bool"):
            return AV(types=frozenset({short}), labels=frozenset({NUM}))
        return AV(types=frozenset({short}))
