"""Skeletons of the generated code: the template flow graph unrolled into a stream of text and holes
(both branches of every `if` in sequence, loop bodies twice, macros inlined per candidate), then scanned for
BIND / READ events of identifiers per generated scope. A may-happen-after over-approximation, not a rendering:
no template variable has a value, holes stay holes.
"""
from __future__ import annotations

import re
from dataclasses import dataclass, field
from typing import Any

from jinja2 import nodes

from .core import AnalysisError
from .jinja_interp import JinjaIndex, expr_text

NAME_ATTRS = ("python_name",)
HOLE = "\ue000"      # placeholder delimiter for document-derived name holes (private use: not \w)
OPQ = "\ue001"       # placeholder delimiter for opaque value holes
IDENT_RE = re.compile(r"[^\W\d]\w*", re.UNICODE)


@dataclass(frozen=True)
class Item:
    kind: str            # t (text) | n (name hole) | o (opaque value)
    text: str = ""
    idents: frozenset[str] = frozenset()   # identifiers an opaque value may read (type strings ...)
    site: str = ""                         # template::macro in which the hole is written


Sym = tuple  # tuple[Item, ...]


def T(s: str) -> Sym:
    return (Item("t", s),) if s else ()


class SkelWalker:
    def __init__(self, jx: JinjaIndex, type_idents: frozenset[str], max_depth: int = 1):
        self.jx = jx
        self.type_idents = type_idents
        self.max_depth = max_depth
        self.prop_templates = sorted(n for n in jx.templates if n.startswith("property_templates/") and n.endswith(".py.jinja")
                                     and not n.endswith(("property_macros.py.jinja",)))
        self.out: list[Item] = []
        self.stack: list[tuple[str, str]] = []
        self.truncated = 0
        self.unknown_calls: dict[str, int] = {}

    # ---- public --------------------------------------------------------------------------------------------------
    def walk_template(self, name: str) -> list[Item]:
        ti = self.jx.templates[name]
        self.out = []
        env: dict[str, Any] = {}
        self._bind_toplevel(ti, env)
        self.block(ti.tree.body, env, ti.name)
        return self.out

    def _bind_toplevel(self, ti: Any, env: dict[str, Any]) -> None:
        for n in ti.tree.body:
            if isinstance(n, nodes.Macro):
                env[n.name] = ("macros", [(ti.name, n.name)])

    # ---- statements ----------------------------------------------------------------------------------------------------
    def block(self, body: list[nodes.Node], env: dict[str, Any], tname: str) -> None:
        for n in body:
            self.stmt(n, env, tname)

    def stmt(self, n: nodes.Node, env: dict[str, Any], tname: str) -> None:
        if isinstance(n, nodes.Output):
            for c in n.nodes:
                if isinstance(c, nodes.TemplateData):
                    self.out.append(Item("t", c.data))
                else:
                    self.out.extend(self.sym(c, env, tname))
            return
        if isinstance(n, nodes.If):
            const = self._const_test(n.test, env)
            if const is True:
                self.block(n.body, env, tname)
                return
            if const is False and not n.elif_:
                if n.else_:
                    self.block(n.else_, env, tname)
                return
            if const is not False:
                self.block(n.body, dict(env), tname)
            for el in n.elif_:
                self._sep()
                self.block(el.body, dict(env), tname)
            if n.else_:
                self._sep()
                self.block(n.else_, dict(env), tname)
            # `set`s inside branches: keep the last binding of each (over-approximation is in the events, not the env)
            for sub in n.find_all(nodes.Assign):
                if isinstance(sub.target, nodes.Name) and sub.target.name not in env:
                    env[sub.target.name] = self.sym(sub.node, env, tname)
            return
        if isinstance(n, nodes.For):
            for _ in range(2 if len(self.stack) <= 1 else 1):
                e2 = dict(env)
                self._bind_target(n.target, n.iter, e2)
                self.block(n.body, e2, tname)
            return
        if isinstance(n, nodes.Macro):
            env[n.name] = ("macros", [(tname, n.name)])
            return
        if isinstance(n, nodes.Assign):
            if isinstance(n.target, nodes.Name):
                env[n.target.name] = self.sym(n.node, env, tname)
            return
        if isinstance(n, nodes.Import):
            env[n.target] = ("tplmods", self._template_names(n.template))
            return
        if isinstance(n, nodes.FromImport):
            for tn in self._template_names(n.template):
                for item in n.names:
                    src, dst = (item, item) if isinstance(item, str) else item
                    if src in self.jx.templates[tn].macros:
                        env[dst] = ("macros", [(tn, src)])
            return
        if isinstance(n, nodes.Include):
            for tn in self._template_names(n.template):
                self.block(self.jx.templates[tn].tree.body, dict(env), tn)
            return
        if isinstance(n, (nodes.ExprStmt, nodes.Continue, nodes.Break)):
            return
        if isinstance(n, (nodes.With, nodes.Scope, nodes.CallBlock, nodes.FilterBlock, nodes.AssignBlock)):
            self.block(getattr(n, "body", []), dict(env), tname)
            return

    @staticmethod
    def _const_test(test: nodes.Node, env: dict[str, Any]) -> "bool | None":
        """`{% if flag %}` where flag is a macro parameter bound to a literal at this call site (e.g. multipart=False)"""
        neg = False
        if isinstance(test, nodes.Not):
            neg = True
            test = test.node
        if isinstance(test, nodes.Name):
            v = env.get(test.name)
            if isinstance(v, tuple) and len(v) == 1 and isinstance(v[0], Item) and v[0].kind == "o" and v[0].text in ("True", "False"):
                val = v[0].text == "True"
                return (not val) if neg else val
        return None

    def _cur_indent(self, pending: Sym = ()) -> int:
        """indentation of the virtual line being written (candidates of one dispatch are laid out on lines of their own)"""
        text = ""
        for it in list(self.out[-40:]) + list(pending):
            text += it.text if it.kind == "t" else "x"
        last = text.rsplit("\n", 1)[-1]
        return len(last) - len(last.lstrip(" "))

    def _sep(self) -> None:
        """alternatives are laid out one after the other: keep their tokens apart"""
        for it in reversed(self.out):
            if it.kind == "t" and it.text:
                if it.text.endswith("\n") or it.text.endswith(" "):
                    return
                break
            if it.kind != "t":
                break
        self.out.append(Item("t", " "))

    def _bind_target(self, target: nodes.Node, it: nodes.Node, env: dict[str, Any]) -> None:
        if isinstance(target, nodes.Name):
            env[target.name] = ("obj", self.root_of(it, env) + "[*]")
        elif isinstance(target, nodes.Tuple):
            for x in target.items:
                if isinstance(x, nodes.Name):
                    env[x.name] = ("obj", x.name)

    def _template_names(self, e: nodes.Node) -> list[str]:
        if isinstance(e, nodes.Const) and isinstance(e.value, str):
            return [e.value] if e.value in self.jx.templates else []
        txt = expr_text(e)
        if "property_templates/" in txt and ".template" in txt:
            return list(self.prop_templates)
        raise AnalysisError(f"skeleton: cannot enumerate templates of `{txt}`")

    # ---- symbolic expressions -----------------------------------------------------------------------------------------
    def sym(self, e: nodes.Node, env: dict[str, Any], tname: str) -> Sym:
        if isinstance(e, nodes.Const):
            return T(str(e.value)) if isinstance(e.value, str) else (Item("o", repr(e.value)),)
        if isinstance(e, nodes.TemplateData):
            return T(e.data)
        if isinstance(e, nodes.Name):
            v = env.get(e.name)
            if isinstance(v, tuple) and (not v or isinstance(v[0], Item)):
                return v
            return (Item("o", e.name),)
        if isinstance(e, nodes.Getattr):
            if e.attr in NAME_ATTRS:
                site = f"{tname}::{self.stack[-1][1] if self.stack and self.stack[-1][0] == tname else '<top>'}"
                return (Item("n", self.root_of(e, env), frozenset(), site),)
            return (Item("o", self.root_of(e, env)),)
        if isinstance(e, (nodes.Add, nodes.Concat)):
            parts = [e.left, e.right] if isinstance(e, nodes.Add) else list(e.nodes)
            out: Sym = ()
            for p in parts:
                out += self.sym(p, env, tname)
            return out
        if isinstance(e, nodes.CondExpr):
            a = self.sym(e.expr1, env, tname)
            b = self.sym(e.expr2, env, tname) if e.expr2 is not None else ()
            return a + T(" ") + b if b else a
        if isinstance(e, nodes.Filter):
            base = self.sym(e.node, env, tname) if e.node is not None else ()
            if e.name == "indent":
                width = 4
                if e.args and isinstance(e.args[0], nodes.Const):
                    width = int(e.args[0].value)
                return self._indent(base, width)
            if e.name in ("trim", "wordwrap", "safe", "string", "upper", "lower"):
                return base
            if e.name in ("length", "count"):
                return (Item("o", expr_text(e)),)
            return (Item("o", expr_text(e), self._idents_of(base)),)
        if isinstance(e, nodes.Call):
            return self.call(e, env, tname)
        return (Item("o", expr_text(e)),)

    def root_of(self, e: nodes.Node, env: dict[str, Any]) -> str:
        """expression text with macro parameters / `set` aliases replaced by what they were bound to at the call site"""
        if isinstance(e, nodes.Name):
            v = env.get(e.name)
            if isinstance(v, tuple) and len(v) == 2 and v[0] == "obj":
                return v[1]
            if isinstance(v, tuple) and len(v) == 1 and isinstance(v[0], Item) and v[0].kind == "o":
                return v[0].text
            return e.name
        if isinstance(e, nodes.Getattr):
            return f"{self.root_of(e.node, env)}.{e.attr}"
        if isinstance(e, nodes.Getitem):
            return f"{self.root_of(e.node, env)}[{expr_text(e.arg)}]"
        return expr_text(e)

    @staticmethod
    def _idents_of(s: Sym) -> frozenset[str]:
        out: set[str] = set()
        for it in s:
            out |= it.idents
        return frozenset(out)

    @staticmethod
    def _indent(s: Sym, width: int) -> Sym:
        out = []
        pad = " " * width
        for it in s:
            if it.kind == "t" and "\n" in it.text:
                out.append(Item("t", it.text.replace("\n", "\n" + pad)))
            else:
                out.append(it)
        return tuple(out)

    def call(self, e: nodes.Call, env: dict[str, Any], tname: str) -> Sym:
        fn = e.node
        targets: list[tuple[str, str]] = []
        if isinstance(fn, nodes.Name):
            v = env.get(fn.name)
            if isinstance(v, tuple) and v and v[0] == "macros":
                targets = list(v[1])
        elif isinstance(fn, nodes.Getattr) and isinstance(fn.node, nodes.Name):
            v = env.get(fn.node.name)
            if isinstance(v, tuple) and v and v[0] == "tplmods":
                targets = [(tn, fn.attr) for tn in v[1] if fn.attr in self.jx.templates[tn].macros]
                if not targets:
                    return ()
        if targets:
            out: Sym = ()
            for k, (tn, mn) in enumerate(targets):
                piece = self.inline(tn, mn, e, env, tname)
                if k and out and piece:
                    out += T("\n" + " " * self._cur_indent(out))
                out += piece
            return out
        # python methods
        txt = expr_text(e)
        if isinstance(fn, nodes.Getattr):
            if fn.attr == "to_string":
                recv = expr_text(fn.node)
                recv = self.root_of(fn.node, env)
                site = f"{tname}::{self.stack[-1][1] if self.stack and self.stack[-1][0] == tname else '<top>'}"
                return (Item("n", recv + ".python_name", frozenset(), site), Item("t", ": "), Item("o", recv + ".type", self.type_idents),
                        Item("t", " = "), Item("o", recv + ".default", frozenset({"UNSET", "isoparse", "UUID"})))
            if "type_string" in fn.attr or fn.attr in ("response_type",):
                return (Item("o", txt, self.type_idents),)
        self.unknown_calls[txt.split("(")[0]] = self.unknown_calls.get(txt.split("(")[0], 0) + 1
        return (Item("o", txt),)

    def inline(self, tn: str, mn: str, e: nodes.Call, env: dict[str, Any], tname: str) -> Sym:
        depth = sum(1 for x in self.stack if x == (tn, mn))
        if depth >= self.max_depth or len(self.stack) > 12:
            self.truncated += 1
            return (Item("o", f"<{tn}::{mn}>"),)
        m = self.jx.templates[tn].macros[mn]
        ti = self.jx.templates[tn]
        e2: dict[str, Any] = {}
        self._bind_toplevel(ti, e2)
        for n in ti.tree.body:
            if isinstance(n, (nodes.FromImport, nodes.Import)):
                self.stmt(n, e2, tn)
        names = [a.name for a in m.args]
        nd = len(m.defaults)
        for i, a in enumerate(m.args):
            j = i - (len(names) - nd)
            if j >= 0:
                e2[a.name] = self.sym(m.defaults[j], e2, tn)
        for i, a in enumerate(e.args):
            if i < len(names):
                e2[names[i]] = self._arg(a, env, tname)
        for k in e.kwargs:
            if k.key in names:
                e2[k.key] = self._arg(k.value, env, tname)
        saved = self.out
        self.out = []
        self.stack.append((tn, mn))
        try:
            self.block(m.body, e2, tn)
            res = tuple(self.out)
        finally:
            self.stack.pop()
            self.out = saved
        return res

    def _arg(self, a: nodes.Node, env: dict[str, Any], tname: str) -> Any:
        if isinstance(a, nodes.Name):
            v = env.get(a.name)
            if isinstance(v, tuple) and v and v[0] in ("macros", "tplmods", "obj"):
                return v
            if v is None:
                return ("obj", a.name)
        if isinstance(a, (nodes.Getattr, nodes.Getitem)) and not (isinstance(a, nodes.Getattr) and a.attr in NAME_ATTRS):
            return ("obj", self.root_of(a, env))
        return self.sym(a, env, tname)


# ----------------------------------------------------------------------------------------------------------------------
# scanning the stream (see skelscan.py)
# ----------------------------------------------------------------------------------------------------------------------
from .skelscan import Event, Scope, scan_lines  # noqa: E402


def to_lines(items: list[Item]) -> tuple[list[str], list[frozenset[str]], list[tuple[str, str]]]:
    """Virtual source: name holes become placeholder identifiers, opaque values an expression placeholder."""
    buf: list[str] = []
    opq: list[frozenset[str]] = []
    holes: list[tuple[str, str]] = []
    for it in items:
        if it.kind == "t":
            buf.append(it.text)
        elif it.kind == "n":
            buf.append(f"{HOLE}{len(holes)}{HOLE}")
            holes.append((it.text, it.site))
        else:
            buf.append(f"{OPQ}{len(opq)}{OPQ}")
            opq.append(it.idents)
    return "".join(buf).split("\n"), opq, holes


def scan(items: list[Item], template: str) -> Scope:
    lines, opq, holes = to_lines(items)
    return scan_lines(lines, opq, holes, template)
