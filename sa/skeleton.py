"""Skeletons of the generated code: the template flow graph unrolled into a stream of text and holes
(both branches of every `if` in sequence, loop bodies twice, macros inlined per candidate), then scanned for
BIND / READ events of identifiers per generated scope. A may-happen-after over-approximation, not a rendering:
no template variable has a value, holes stay holes.
"""
from __future__ import annotations

import re
from dataclasses import dataclass, field, replace
from typing import Any

from jinja2 import nodes

from .core import AnalysisError
from .jinja_interp import JinjaIndex, expr_text

NAME_ATTRS = ("python_name",)
HOLE = "\ue000"      # placeholder delimiter for document-derived name holes (private use: not \w)
OPQ = "\ue001"       # placeholder delimiter for opaque value holes
IDENT_RE = re.compile(r"[^\W\d]\w*", re.UNICODE)


@dataclass(frozen=True)
class Item:
    kind: str            # t (text) | n (name hole) | o (opaque value) | a (alternatives: exactly one of `alts` stands here)
    text: str = ""
    idents: frozenset[str] = frozenset()   # identifiers an opaque value may read (type strings ...)
    site: str = ""                         # template::macro in which the hole is written
    alts: tuple = ()                       # kind a: the alternative texts (tuple[Sym, ...])
    uid: int = 0                           # kind a: occurrences of one decision (same uid) take the same alternative
    inst: str = ""                         # kind n: the rounds of the enclosing template loops in which the hole was written
                                           # ("<loop>.<round>/..."): holes of one root written in one round name one document entity


Sym = tuple  # tuple[Item, ...]


def T(s: str) -> Sym:
    return (Item("t", s),) if s else ()


class SkelWalker:
    # A template module imported (or a macro defined) inside a branch of a non-constant `if` and called after the `if`: when False the
    # call stays opaque, as it always was (the one such call, the additional-properties `construct` of model.py.jinja's from_dict, is
    # listed as not decided by C18); when True it is inlined, which reports two more sites of the known from_dict collisions.
    IMPORTS_SURVIVE_IF = False

    def __init__(self, jx: JinjaIndex, type_idents: frozenset[str], max_depth: int = 1):
        self.jx = jx
        self.type_idents = type_idents
        self.max_depth = max_depth
        self.prop_templates = sorted(n for n in jx.templates if n.startswith("property_templates/") and n.endswith(".py.jinja")
                                     and not n.endswith(("property_macros.py.jinja",)))
        self.out: list[Item] = []
        self.stack: list[tuple[str, str]] = []
        self.truncated = 0
        self.unknown_calls: dict[str, int] = {}
        self._uid = 0
        self._caller: list[Any] = []   # the enclosing `{% call %}` blocks (innermost last): the text of one without parameters, the
                                       # block itself - ("block", node, env, template, macro stack) - of one with parameters
        self._caller_depth: list[int] = []
        self._lent = 0                 # macros on the stack that were called by a `{% call %}` block with parameters
        self._rounds: list[str] = []   # "<loop>.<round>" of the template loops being unrolled (outermost first)
        self._loops = 0
        self._module_envs: dict[str, dict[str, Any]] = {}
        self._blocks: dict[str, list] = {}   # block name -> its definitions along the `extends` chain of the walked template, base first
        self._supers: list[tuple[list, int]] = []  # the block definitions being written (innermost last)

    # ---- public --------------------------------------------------------------------------------------------------
    def walk_template(self, name: str) -> list[Item]:
        ti = self.jx.templates[name]
        self.out = []
        env: dict[str, Any] = {}
        # `{% extends "base" %}`: the text is the base template's, in which every block the extending template defines stands for
        # the base's block of that name (`super()` there prints the block it replaces); what the extending template binds at top
        # level (macros, imports, `set`) is bound before the base's text is written
        chain = [ti]
        while True:
            ext = next((n for n in chain[-1].tree.body if isinstance(n, nodes.Extends)), None)
            if ext is None or not (isinstance(ext.template, nodes.Const) and ext.template.value in self.jx.templates) \
                    or self.jx.templates[ext.template.value] in chain:
                break
            chain.append(self.jx.templates[ext.template.value])
        self._blocks = {}
        for t in reversed(chain):  # base first: the most derived definition of a block is the last one in its list
            for b in t.tree.find_all(nodes.Block):
                self._blocks.setdefault(b.name, []).append((t.name, b))
        for t in chain[:-1]:
            self._bind_toplevel(t, env)
            for n in t.tree.body:
                if isinstance(n, (nodes.FromImport, nodes.Import, nodes.Assign, nodes.AssignBlock, nodes.Macro)):
                    self.stmt(n, env, t.name)
        base = chain[-1]
        self._bind_toplevel(base, env)
        self.block(base.tree.body, env, base.name)
        return self.out

    def _bind_toplevel(self, ti: Any, env: dict[str, Any]) -> None:
        for n in ti.tree.body:
            if isinstance(n, nodes.Macro):
                env[n.name] = ("macros", [(ti.name, n.name)])

    # ---- statements ----------------------------------------------------------------------------------------------------
    def block(self, body: list[nodes.Node], env: dict[str, Any], tname: str) -> None:
        for n in body:
            self.stmt(n, env, tname)

    def stmt(self, n: nodes.Node, env: dict[str, Any], tname: str) -> None:
        if isinstance(n, nodes.Output):
            for c in n.nodes:
                if isinstance(c, nodes.TemplateData):
                    self.out.append(Item("t", c.data))
                else:
                    self.out.extend(self.sym(c, env, tname))
            return
        if isinstance(n, nodes.If):
            # the arms of the chain (`if` / `elif`...) in order: an arm whose test is decided false is never written, an arm whose
            # test is decided true is the `else` of the arms before it (nothing after it is ever written)
            arms: list[list[nodes.Node]] = []
            last: "list[nodes.Node] | None" = list(n.else_) if n.else_ else None
            for test, body in [(n.test, n.body)] + [(el.test, el.body) for el in n.elif_]:
                const = self._const_test(test, env)
                if const is False:
                    continue
                if const is True:
                    last = list(body)
                    break
                arms.append(body)
            if not arms:
                if last:
                    self.block(last, env, tname)
                return
            # an `if` is no scope in Jinja: what a branch binds (`set`, `set` block, import) is bound after the `if` on the paths
            # through that branch; on the other paths the earlier binding stays
            ends: list[dict[str, Any]] = []
            pieces: list[Sym] = []

            def branch(body: list[nodes.Node]) -> None:
                ends.append(dict(env))
                start = len(self.out)
                self.block(body, ends[-1], tname)
                pieces.append(tuple(self.out[start:]))
                del self.out[start:]

            for body in arms:
                branch(body)
            if last:
                branch(last)
            else:
                ends.append(dict(env))
                pieces.append(())
            if not any(self._has_newline(p) for p in pieces):
                # an `if` within one generated line: exactly one of the pieces stands in that line
                self.out.extend(self.alt(pieces))
            else:
                for k, p in enumerate(pieces):
                    if k and (p or k < len(pieces) - 1 or last):
                        self._sep(line=True)
                    self.out.extend(p)
            self._merge(env, ends)
            return
        if isinstance(n, nodes.For):
            it = self.as_list(n.iter, env, tname)
            self._loops += 1
            loop, rnd = self._loops, 0
            if it is not None:
                # a list the template builds itself (literal items, `map(attribute=...)`, concatenations): one round per item
                exact = not any(many for _s, many in it[1]) and n.test is None  # the rounds laid out are the rounds there are
                for k, (s, many) in enumerate(it[1]):
                    for _ in range((2 if self._depth() <= 1 else 1) if many else 1):
                        e2 = dict(env)
                        rnd += 1
                        self._rounds.append(f"{loop}.{rnd}")
                        # `loop.first` / `loop.last` are known in every round of a list whose items are all spelled out
                        e2["loop"] = ("loop", {"first": k == 0, "last": k == len(it[1]) - 1} if exact else None)
                        if isinstance(n.target, nodes.Name):
                            e2[n.target.name] = self._stamped(s) if many else s  # (an item that stands for many: one entity per round)
                        elif isinstance(n.target, nodes.Tuple) and self._kind(s) == "list" and len(s[1]) == len(n.target.items) \
                                and not any(m for _c, m in s[1]):
                            # an item that is itself a literal tuple / list: its components, one per target
                            self._bind_target(n.target, n.iter, e2)
                            for x, (c, _m) in zip(n.target.items, s[1]):
                                if isinstance(x, nodes.Name):
                                    e2[x.name] = c
                        else:
                            self._bind_target(n.target, n.iter, e2)
                        try:
                            self.block(n.body, e2, tname)
                        finally:
                            self._rounds.pop()
            else:
                for _ in range(2 if self._depth() <= 1 else 1):
                    e2 = dict(env)
                    e2["loop"] = ("loop", None)
                    self._bind_target(n.target, n.iter, e2)
                    rnd += 1
                    self._rounds.append(f"{loop}.{rnd}")
                    try:
                        self.block(n.body, e2, tname)
                    finally:
                        self._rounds.pop()
            if n.else_:
                self._sep()
                self.block(n.else_, dict(env), tname)
            return
        if isinstance(n, nodes.Macro):
            env[n.name] = ("macros", [(tname, n.name)])
            return
        if isinstance(n, nodes.Assign):
            if isinstance(n.target, nodes.Name):
                env[n.target.name] = self.val(n.node, env, tname)
            return
        if isinstance(n, nodes.AssignBlock):
            # `{% set x %}...{% endset %}` prints nothing where it stands: the text is captured and stands wherever x is printed
            saved = self.out
            self.out = []
            try:
                self.block(n.body, dict(env), tname)
                res: Sym = tuple(self.out)
            finally:
                self.out = saved
            if n.filter is not None:
                res = self._filtered(n.filter, res, env, tname)
            if isinstance(n.target, nodes.Name):
                env[n.target.name] = res
            return
        if isinstance(n, nodes.Import):
            env[n.target] = ("tplmods", self._template_names(n.template))
            return
        if isinstance(n, nodes.FromImport):
            for tn in self._template_names(n.template):
                for item in n.names:
                    src, dst = (item, item) if isinstance(item, str) else item
                    if src in self.jx.templates[tn].macros:
                        env[dst] = ("macros", [(tn, src)])
            return
        if isinstance(n, nodes.Include):
            for tn in self._template_names(n.template):
                self.block(self.jx.templates[tn].tree.body, dict(env), tn)
            return
        if isinstance(n, (nodes.ExprStmt, nodes.Continue, nodes.Break)):
            return
        if isinstance(n, nodes.CallBlock) and n.args:
            # `{% call(a, b) m(...) %}...{% endcall %}`: the text depends on what each `caller(x, y)` inside m gives it - it is
            # written where `caller` is called, with the block's parameters bound to those arguments (and everything else as it is
            # bound here: a call block is a closure)
            self._caller.append(("block", n, dict(env), tname, list(self.stack), self._lent))
            self._lent += 1  # (the macro called writes this block's text: its loops are unrolled like loops standing here)
            try:
                self.out.extend(self.sym(n.call, env, tname))
            finally:
                self._lent -= 1
                self._caller.pop()
            return
        if isinstance(n, (nodes.FilterBlock, nodes.CallBlock)):
            # `{% filter f %}...{% endfilter %}` prints its text through f; `{% call m(...) %}...{% endcall %}` prints m(...), in
            # which `caller()` stands for the text
            saved = self.out
            self.out = []
            try:
                self.block(n.body, dict(env), tname)
                res = tuple(self.out)
            finally:
                self.out = saved
            if isinstance(n, nodes.FilterBlock):
                self.out.extend(self._filtered(n.filter, res, env, tname))
            else:
                self._caller.append(res)
                try:
                    self.out.extend(self.sym(n.call, env, tname))
                finally:
                    self._caller.pop()
            return
        if isinstance(n, nodes.With):
            e2 = dict(env)
            for t, v in zip(n.targets, n.values):
                if isinstance(t, nodes.Name):
                    e2[t.name] = self.val(v, env, tname)
            self.block(n.body, e2, tname)
            return
        if isinstance(n, nodes.Block):
            defs = getattr(self, "_blocks", {}).get(n.name) or [(tname, n)]
            self._block_def(defs, len(defs) - 1, env)
            return
        if isinstance(n, nodes.Scope):
            self.block(getattr(n, "body", []), dict(env), tname)
            return

    def _block_def(self, defs: list, k: int, env: dict[str, Any]) -> None:
        """write the k-th definition of a block (`defs`: base first); `super()` in it writes the definition before it"""
        tn, b = defs[k]
        self._supers.append((defs, k))
        try:
            self.block(b.body, dict(env), tn)
        finally:
            self._supers.pop()

    def _merge(self, env: dict[str, Any], ends: list[dict[str, Any]]) -> None:
        """Bindings after an `if`, from the bindings at the end of each of its paths (`ends`, one per branch, in order)."""
        names: list[str] = []
        for e in ends:
            for k, v in e.items():
                if (k not in env or env[k] is not v) and k not in names:
                    names.append(k)
        for k in names:
            vals: list[Any] = []
            for e in ends:
                v = e.get(k)
                if v is not None and not any(v is w or v == w for w in vals):
                    vals.append(v)
            kinds = {self._kind(v) for v in vals}
            if kinds & {"macros", "tplmods"} and not self.IMPORTS_SURVIVE_IF:
                continue
            if len(kinds) > 1 and kinds & {"macros", "tplmods"}:
                # a macro / template module on some paths, a plain value (`none`) on others: what can be called is what matters
                vals = [v for v in vals if self._kind(v) in ("macros", "tplmods")]
                kinds = {self._kind(v) for v in vals}
            if len(vals) == 1 or len(kinds) > 1:
                env[k] = vals[-1]
            elif kinds == {"sym"}:
                env[k] = self.alt(vals)
            elif kinds <= {"macros", "tplmods"}:
                kind = next(iter(kinds))
                targets: list[Any] = []
                for v in vals:
                    targets += [t for t in v[1] if t not in targets]
                env[k] = (kind, targets)
            elif kinds == {"list"}:
                env[k] = ("list", tuple(x for v in vals for x in v[1]))
            else:
                env[k] = vals[-1]

    @staticmethod
    def _has_newline(s: Sym) -> bool:
        return any((it.kind == "t" and "\n" in it.text) or any(SkelWalker._has_newline(a) for a in it.alts) for it in s)

    @staticmethod
    def _kind(v: Any) -> str:
        if isinstance(v, tuple) and v and isinstance(v[0], str):
            return v[0]
        return "sym"

    def alt(self, alts: list[Sym]) -> Sym:
        """exactly one of the alternatives stands here"""
        uniq: list[Sym] = []
        for a in alts:
            if a not in uniq:
                uniq.append(a)
        if len(uniq) == 1:
            return uniq[0]
        self._uid += 1
        return (Item("a", alts=tuple(uniq), uid=self._uid),)

    @staticmethod
    def _const_test(test: nodes.Node, env: dict[str, Any]) -> "bool | None":
        """`{% if flag %}` where flag is a macro parameter bound to a literal at this call site (e.g. multipart=False)"""
        neg = False
        if isinstance(test, nodes.Not):
            neg = True
            test = test.node
        if isinstance(test, nodes.Name):
            v = env.get(test.name)
            if isinstance(v, tuple) and len(v) == 1 and isinstance(v[0], Item) and v[0].kind == "o" and v[0].text in ("True", "False", "None"):
                val = v[0].text == "True"  # (a parameter bound to the literal true / false / none at this call)
                return (not val) if neg else val
        if isinstance(test, nodes.Const) and isinstance(test.value, bool):
            return (not test.value) if neg else test.value
        if isinstance(test, (nodes.Getattr, nodes.Getitem)) or (isinstance(test, nodes.Name) and test.name in env):
            # the truth of a text the template spells out (an entry of a literal dict, a variable bound to nothing but text): empty or not
            t = SkelWalker._known_text(test, env)
            if t is not None:
                val = bool(t)
                return (not val) if neg else val
        if isinstance(test, nodes.Getattr) and isinstance(test.node, nodes.Name) and test.node.name == "loop" and test.attr in ("first", "last"):
            # a round of a loop over a list whose items the template spells out: which round it is is known
            v = env.get("loop")
            if isinstance(v, tuple) and len(v) == 2 and v[0] == "loop" and isinstance(v[1], dict):
                val = v[1][test.attr]
                return (not val) if neg else val
        if isinstance(test, nodes.Compare) and len(test.ops) == 1 and test.ops[0].op in ("eq", "ne", "in", "notin"):
            # both sides are texts the template spells out here (a literal, a parameter / loop variable / `set` variable bound to
            # one at this place): `kind == "star"` in a call block whose `kind` is what this `caller("star", ...)` was given
            op, rhs = test.ops[0].op, test.ops[0].expr
            a = SkelWalker._known_text(test.expr, env)
            if a is not None:
                if op in ("eq", "ne"):
                    b = SkelWalker._known_text(rhs, env)
                    val = None if b is None else (a == b) == (op == "eq")
                else:
                    v = env.get(rhs.name) if isinstance(rhs, nodes.Name) else None
                    if isinstance(rhs, (nodes.List, nodes.Tuple)):
                        members = [SkelWalker._known_text(x, env) for x in rhs.items]
                    elif isinstance(v, tuple) and len(v) == 2 and v[0] == "list" and not any(many for _s, many in v[1]):
                        members = [SkelWalker._text_of(s) if SkelWalker._kind(s) == "sym" else None for s, _m in v[1]]
                    else:
                        members = [None]
                    val = None if any(m is None for m in members) else (a in members) == (op == "in")
                if val is not None:
                    return (not val) if neg else val
        if isinstance(test, (nodes.And, nodes.Or)):
            a, b = SkelWalker._const_test(test.left, env), SkelWalker._const_test(test.right, env)
            absorbing = isinstance(test, nodes.Or)  # `or`: one true operand decides; `and`: one false operand decides
            if a is absorbing or b is absorbing:
                val = absorbing
            elif a is None or b is None:
                return None
            else:
                val = not absorbing
            return (not val) if neg else val
        return None

    @staticmethod
    def _known_text(e: nodes.Node, env: dict[str, Any]) -> "str | None":
        """the text of e when the template spells it out: a string literal, a name bound to nothing but text, an entry of a
        literal dict that is nothing but text"""
        if isinstance(e, nodes.Const):
            return e.value if isinstance(e.value, str) else None
        v = env.get(e.name) if isinstance(e, nodes.Name) else SkelWalker._entry(e, env)
        if isinstance(v, tuple) and SkelWalker._kind(v) == "sym":
            return SkelWalker._text_of(v)
        return None

    @staticmethod
    def _entry(e: nodes.Node, env: dict[str, Any]) -> Any:
        """`d.key` / `d["key"]` where d is (a name bound to, or an entry of) a dict the template wrote as a literal: the value the
        literal gives that key (None: not such an expression, or no such key).  `d.items` and the like are dict methods, not keys."""
        if isinstance(e, nodes.Getattr):
            base, key, sub = e.node, e.attr, False
        elif isinstance(e, nodes.Getitem) and SkelWalker._known_text(e.arg, env) is not None:
            base, key, sub = e.node, SkelWalker._known_text(e.arg, env), True  # (`d["key"]`, `d[k]` with k bound to a text here)
        else:
            return None
        d = env.get(base.name) if isinstance(base, nodes.Name) else SkelWalker._entry(base, env)
        if not (isinstance(d, tuple) and len(d) == 2 and d[0] == "dict") or (not sub and hasattr(dict, key)):
            return None
        return next((v for k, v in d[1] if k == key), None)

    def _depth(self) -> int:
        """how deep in macro calls the text being written stands (loops are unrolled twice at the top, once deeper); a macro that a
        call block with parameters calls stands where the block stands"""
        return len(self.stack) - self._lent

    def _cur_indent(self, pending: Sym = ()) -> int:
        """indentation of the virtual line being written (candidates of one dispatch are laid out on lines of their own)"""
        text = ""
        for it in list(self.out[-40:]) + list(pending):
            text += it.text if it.kind == "t" else "x"
        last = text.rsplit("\n", 1)[-1]
        return len(last) - len(last.lstrip(" "))

    def _sep(self, line: bool = False) -> None:
        """alternatives are laid out one after the other: keep their tokens apart. line: the alternatives are blocks of lines (the
        branches of an `if` that writes lines): when one ends without its newline (`{%- else %}`, the newline follows the `if`), the
        next one starts on a line of its own, indented like the line that was being written - two statements, not one."""
        for it in reversed(self.out):
            if it.kind == "t" and it.text:
                if it.text.endswith("\n") or (it.text.endswith(" ") and not line):
                    return
                break
            if it.kind != "t":
                break
        if line and self.out:
            self.out.append(Item("t", "\n" + " " * self._cur_indent()))
        else:
            self.out.append(Item("t", " "))

    def _bind_target(self, target: nodes.Node, it: nodes.Node, env: dict[str, Any]) -> None:
        if isinstance(target, nodes.Name):
            env[target.name] = ("obj", self.root_of(it, env) + "[*]")
        elif isinstance(target, nodes.Tuple):
            for x in target.items:
                if isinstance(x, nodes.Name):
                    env[x.name] = ("obj", x.name)

    def _template_names(self, e: nodes.Node) -> list[str]:
        if isinstance(e, nodes.Const) and isinstance(e.value, str):
            return [e.value] if e.value in self.jx.templates else []
        txt = expr_text(e)
        if "property_templates/" in txt and ".template" in txt:
            return list(self.prop_templates)
        raise AnalysisError(f"skeleton: cannot enumerate templates of `{txt}`")

    # ---- symbolic expressions -----------------------------------------------------------------------------------------
    def sym(self, e: nodes.Node, env: dict[str, Any], tname: str) -> Sym:
        if isinstance(e, nodes.Const):
            return T(str(e.value)) if isinstance(e.value, str) else (Item("o", repr(e.value)),)
        if isinstance(e, nodes.TemplateData):
            return T(e.data)
        if isinstance(e, nodes.Name):
            v = env.get(e.name)
            if isinstance(v, tuple) and (not v or isinstance(v[0], Item)):
                return v
            return (Item("o", e.name),)
        if isinstance(e, (nodes.Getattr, nodes.Getitem)):
            ent = self._entry(e, env)
            if ent is not None:
                return self._printed(ent)
        if isinstance(e, nodes.Getattr):
            if e.attr in NAME_ATTRS:
                return (self._name_item(self.root_of(e, env), tname),)
            return (Item("o", self.root_of(e, env)),)
        if isinstance(e, nodes.Getitem) and isinstance(e.arg, nodes.Const) and e.arg.value in NAME_ATTRS:
            return (self._name_item(f"{self.root_of(e.node, env)}.{e.arg.value}", tname),)
        if isinstance(e, nodes.Mod) and isinstance(e.left, nodes.Const) and isinstance(e.left.value, str):
            args = list(e.right.items) if isinstance(e.right, nodes.Tuple) else [e.right]
            got = self._formatted(e.left.value.split("%s"), args, env, tname)
            if got is not None:
                return got
        if isinstance(e, nodes.Mul):
            # `" " * 8`: a text the template spells out, repeated a literal number of times
            for txt, cnt in ((e.left, e.right), (e.right, e.left)):
                if isinstance(cnt, nodes.Const) and isinstance(cnt.value, int) and not isinstance(cnt.value, bool) and 0 <= cnt.value <= 64:
                    base = self.sym(txt, env, tname)
                    if self._text_of(base) is not None and not (isinstance(txt, nodes.Const) and not isinstance(txt.value, str)):
                        return base * cnt.value
        if isinstance(e, (nodes.Add, nodes.Concat)):
            parts = [e.left, e.right] if isinstance(e, nodes.Add) else list(e.nodes)
            out: Sym = ()
            for p in parts:
                out += self.sym(p, env, tname)
            return out
        if isinstance(e, nodes.CondExpr):
            # `A if T else B` printed in a line gives one of two lines (never A and B side by side)
            const = self._const_test(e.test, env)
            if const is True:
                return self.sym(e.expr1, env, tname)
            if const is False:
                return self.sym(e.expr2, env, tname) if e.expr2 is not None else ()
            return self.alt([self.sym(e.expr1, env, tname), self.sym(e.expr2, env, tname) if e.expr2 is not None else ()])
        if isinstance(e, nodes.Filter):
            if e.name == "join":
                lst = self.as_list(e.node, env, tname) if e.node is not None else None
                if lst is not None:
                    sep = self.sym(e.args[0], env, tname) if e.args else ()
                    out2: Sym = ()
                    for s, many in lst[1]:
                        for _ in range(2 if many else 1):
                            out2 += (sep if out2 else ()) + self._printed(s)
                    return out2
            base = self.sym(e.node, env, tname) if e.node is not None else ()
            return self._filtered(e, base, env, tname)
        if isinstance(e, nodes.Call):
            return self.call(e, env, tname)
        return (Item("o", expr_text(e)),)

    def _formatted(self, pieces: list[str], args: list[nodes.Node], env: dict[str, Any], tname: str) -> "Sym | None":
        """literal pieces with one argument printed between each two of them (`"{}_x".format(a)`, `"%s_x" % a`, `"%s_x" | format(a)`)"""
        if len(pieces) != len(args) + 1 or any("{" in p or "%" in p for p in pieces):
            return None
        out: Sym = T(pieces[0])
        for a, p in zip(args, pieces[1:]):
            out += self.sym(a, env, tname) + T(p)
        return out

    def _filtered(self, e: nodes.Filter, base: Sym, env: dict[str, Any], tname: str) -> Sym:
        """the text `base` passed through the filter e"""
        if e.name == "format" and len(base) == 1 and base[0].kind == "t" and not e.kwargs:
            got = self._formatted(base[0].text.split("%s"), list(e.args), env, tname)
            if got is not None:
                return got
        if e.name == "indent":
            width = 4
            kw = {k.key: k.value for k in e.kwargs}
            w_, first = (e.args[0] if e.args else kw.get("width")), (e.args[1] if len(e.args) > 1 else kw.get("first"))
            if isinstance(w_, nodes.Const) and isinstance(w_.value, int):
                width = w_.value
            elif isinstance(w_, nodes.Filter) and w_.name in ("length", "count") and w_.node is not None and not w_.args:
                # the width is the length of a text the template spells out (`indent(pad | length)`)
                pad = self._text_of(self.sym(w_.node, env, tname))
                if pad is not None:
                    width = len(pad)
            out = self._indent(base, width)
            if isinstance(first, nodes.Const) and first.value:
                out = T(" " * width) + out
            return out
        if e.name in ("trim", "wordwrap", "safe", "string", "upper", "lower"):
            return base
        if e.name in ("length", "count"):
            return (Item("o", expr_text(e)),)
        return (Item("o", expr_text(e), self._idents_of(base)),)

    # ---- lists the template builds itself ----------------------------------------------------------------------------------
    # ("list", ((Sym, many), ...)): the printable text of each item in order; `many`: the item stands for any number of items
    _SAME_ITEMS = ("list", "unique", "select", "reject", "selectattr", "rejectattr")
    _REORDER = ("sort", "reverse")

    def val(self, e: nodes.Node, env: dict[str, Any], tname: str) -> Any:
        lst = self.as_list(e, env, tname)
        if lst is not None:
            return lst
        if isinstance(e, nodes.Dict):
            return self._item_val(e, env, tname)
        ent = self._entry(e, env)
        if ent is not None:
            return ent
        if isinstance(e, nodes.Name) and self._kind(env.get(e.name)) == "dict":
            return env[e.name]
        return self.sym(e, env, tname)

    def _items_of(self, e: nodes.Node, env: dict[str, Any], tname: str) -> tuple:
        lst = self.as_list(e, env, tname)
        if lst is not None:
            return lst[1]
        return (((Item("o", self.root_of(e, env) + "[*]"),), True),)

    def _site(self, tname: str) -> str:
        return f"{tname}::{self.stack[-1][1] if self.stack and self.stack[-1][0] == tname else '<top>'}"

    def _name_item(self, root: str, tname: str) -> Item:
        """a hole filled from a document-derived python name, written in template tname in the current loop rounds"""
        return Item("n", root, frozenset(), self._site(tname), inst="/".join(self._rounds))

    def _stamped(self, s: Sym) -> Sym:
        """s as the item of the current round of a loop over a list the template built before the loop"""
        here = "/".join(self._rounds)
        if self._kind(s) != "sym":
            return s  # (a macro, a template module, an object, a list: no text, nothing to stamp)
        out = []
        for it in s:
            if it.kind == "n":
                out.append(replace(it, inst=f"{it.inst}/{here}" if it.inst else here))
            elif it.kind == "a":
                out.append(replace(it, alts=tuple(self._stamped(a) for a in it.alts)))
            else:
                out.append(it)
        return tuple(out)

    @staticmethod
    def _text_of(s: Any) -> "str | None":
        """the text of a value that is nothing but text the template spells out (no hole, no alternative)"""
        if SkelWalker._kind(s) != "sym" or any(it.kind != "t" for it in s):
            return None
        return "".join(it.text for it in s)

    def _printed(self, v: Any) -> Sym:
        """what an item of a list prints as (a macro, a template module, an object or a list prints as an opaque value)"""
        if self._kind(v) == "sym":
            return v
        if v[0] == "obj":
            return (Item("o", v[1]),)
        if v[0] == "list":
            return (Item("o", "<list>", self._idents_of(tuple(it for s, _m in v[1] for it in self._printed(s)))),)
        return (Item("o", f"<{v[0]}>"),)

    def _item_val(self, x: nodes.Node, env: dict[str, Any], tname: str) -> Any:
        """the value of an item of a literal list / tuple: a name bound to a macro, a template module, an object or a list keeps
        that value (so the loop variable can be called, or taken apart, like the name itself); an item that is itself a literal
        list / tuple keeps its components; anything else is what it prints as"""
        if isinstance(x, nodes.Name):
            v = env.get(x.name)
            if isinstance(v, tuple) and v and v[0] in ("macros", "tplmods", "obj", "list", "dict"):
                return v
        if isinstance(x, (nodes.List, nodes.Tuple)):
            return ("list", tuple((self._item_val(y, env, tname), False) for y in x.items))
        if isinstance(x, nodes.Dict) and all(isinstance(p.key, nodes.Const) and isinstance(p.key.value, str) for p in x.items):
            # a dict the template writes as a literal: ("dict", ((key, value), ...)), the last value of a repeated key
            ents: dict[str, Any] = {}
            for p in x.items:
                ents[p.key.value] = self._item_val(p.value, env, tname)
            return ("dict", tuple(ents.items()))
        ent = self._entry(x, env)
        if ent is not None:
            return ent
        return self.sym(x, env, tname)

    def _attr_of(self, root: str, attr: str, tname: str) -> Sym:
        if attr in NAME_ATTRS:
            return (self._name_item(f"{root}.{attr}", tname),)
        return (Item("o", f"{root}.{attr}"),)

    def as_list(self, e: nodes.Node, env: dict[str, Any], tname: str) -> "tuple | None":
        """The list value of e when the template spells out what its items print as (None: an opaque iterable)."""
        if isinstance(e, (nodes.List, nodes.Tuple)):
            return ("list", tuple((self._item_val(x, env, tname), False) for x in e.items))
        if isinstance(e, nodes.Name):
            v = env.get(e.name)
            return v if isinstance(v, tuple) and len(v) == 2 and v[0] == "list" else None
        if isinstance(e, (nodes.Getattr, nodes.Getitem)):
            v = self._entry(e, env)
            return v if isinstance(v, tuple) and len(v) == 2 and v[0] == "list" else None
        view = None
        if isinstance(e, nodes.Call) and isinstance(e.node, nodes.Getattr) and e.node.attr in ("items", "keys", "values") \
                and not (e.args or e.kwargs or e.dyn_args or e.dyn_kwargs):
            view = (e.node.node, e.node.attr)
        elif isinstance(e, nodes.Filter) and e.name in ("items", "dictsort") and e.node is not None and not (e.args or e.kwargs):
            view = (e.node, "items")
        if view is not None:
            # the entries of a dict the template wrote as a literal, in the order written (`dictsort`: sorted by key)
            d = self._item_val(view[0], env, tname)
            if self._kind(d) != "dict":
                return None
            ents = sorted(d[1], key=lambda kv: kv[0].lower()) if isinstance(e, nodes.Filter) and e.name == "dictsort" else d[1]
            if view[1] == "keys":
                return ("list", tuple((T(k), False) for k, _v in ents))
            if view[1] == "values":
                return ("list", tuple((v, False) for _k, v in ents))
            return ("list", tuple((("list", ((T(k), False), (v, False))), False) for k, v in ents))
        if isinstance(e, nodes.Add):
            if self.as_list(e.left, env, tname) is None and self.as_list(e.right, env, tname) is None:
                return None
            return ("list", self._items_of(e.left, env, tname) + self._items_of(e.right, env, tname))
        if isinstance(e, nodes.CondExpr):
            const = self._const_test(e.test, env)
            arms = [x for x, take in ((e.expr1, const is not False), (e.expr2, const is not True)) if take and x is not None]
            if all(self.as_list(x, env, tname) is None for x in arms):
                return None
            # (either list: its items may follow the other's in a later round of an enclosing loop - laid out in sequence)
            return ("list", tuple(it for x in arms for it in self._items_of(x, env, tname)))
        if isinstance(e, nodes.Filter) and e.node is not None:
            if e.name == "map":
                attr = next((k.value.value for k in e.kwargs if k.key == "attribute" and isinstance(k.value, nodes.Const)), None)
                if not isinstance(attr, str) or e.args:
                    return None
                out = []
                for s, many in self._items_of(e.node, env, tname):
                    if self._kind(s) == "obj":
                        out.append((self._attr_of(s[1], attr, tname), many))
                    elif self._kind(s) == "sym" and len(s) == 1 and s[0].kind == "o":
                        out.append((self._attr_of(s[0].text, attr, tname), many))
                    else:
                        out.append(((Item("o", f"{expr_text(e)}", self._idents_of(self._printed(s))),), many))
                return ("list", tuple(out))
            if e.name in self._SAME_ITEMS:
                return self.as_list(e.node, env, tname)
            if e.name in self._REORDER:
                lst = self.as_list(e.node, env, tname)
                if lst is not None and len(lst[1]) > 1:
                    return ("list", lst[1] + lst[1])  # any order: each item may come after each other one
                return lst
        return None

    def root_of(self, e: nodes.Node, env: dict[str, Any]) -> str:
        """expression text with macro parameters / `set` aliases replaced by what they were bound to at the call site"""
        if isinstance(e, nodes.Name):
            v = env.get(e.name)
            if isinstance(v, tuple) and len(v) == 2 and v[0] == "obj":
                return v[1]
            if isinstance(v, tuple) and len(v) == 1 and isinstance(v[0], Item) and v[0].kind == "o":
                return v[0].text
            return e.name
        ent = self._entry(e, env)
        if isinstance(ent, tuple) and len(ent) == 2 and ent[0] == "obj":
            return ent[1]
        if isinstance(ent, tuple) and len(ent) == 1 and isinstance(ent[0], Item) and ent[0].kind == "o":
            return ent[0].text
        if isinstance(e, nodes.Getattr):
            return f"{self.root_of(e.node, env)}.{e.attr}"
        if isinstance(e, nodes.Getitem):
            return f"{self.root_of(e.node, env)}[{expr_text(e.arg)}]"
        return expr_text(e)

    @staticmethod
    def _idents_of(s: Sym) -> frozenset[str]:
        out: set[str] = set()
        for it in s:
            out |= it.idents
            for a in it.alts:
                out |= SkelWalker._idents_of(a)
        return frozenset(out)

    @staticmethod
    def _indent(s: Sym, width: int) -> Sym:
        out = []
        pad = " " * width
        for it in s:
            if it.kind == "t" and "\n" in it.text:
                out.append(Item("t", it.text.replace("\n", "\n" + pad)))
            elif it.kind == "a":
                out.append(replace(it, alts=tuple(SkelWalker._indent(a, width) for a in it.alts)))
            else:
                out.append(it)
        return tuple(out)

    def call(self, e: nodes.Call, env: dict[str, Any], tname: str) -> Sym:
        fn = e.node
        targets: list[tuple[str, str]] = []
        if isinstance(fn, nodes.Name) and fn.name == "caller" and self._caller and "caller" not in env:
            blk = self._caller[-1]
            if not (len(blk) == 6 and blk[0] == "block"):
                return blk
            return self._call_block(blk, e, env, tname)
        if isinstance(fn, nodes.Name) and fn.name == "super" and self._supers and "super" not in env and not e.args:
            defs, k = self._supers[-1]
            if k == 0:
                return ()
            saved = self.out
            self.out = []
            try:
                self._block_def(defs, k - 1, env)
                return tuple(self.out)
            finally:
                self.out = saved
        if isinstance(fn, nodes.Getattr) and fn.attr == "format" and isinstance(fn.node, nodes.Const) and isinstance(fn.node.value, str) \
                and not e.kwargs and not e.dyn_args and not e.dyn_kwargs:
            got = self._formatted(re.split(r"\{\d*\}", fn.node.value), e.args, env, tname)
            if got is not None:
                return got
        if isinstance(fn, nodes.Name):
            v = env.get(fn.name)
            if isinstance(v, tuple) and v and v[0] == "macros":
                targets = list(v[1])
        elif isinstance(fn, nodes.Getattr) and isinstance(fn.node, nodes.Name):
            v = env.get(fn.node.name)
            if isinstance(v, tuple) and v and v[0] == "tplmods":
                targets = [(tn, fn.attr) for tn in v[1] if fn.attr in self.jx.templates[tn].macros]
                if not targets:
                    return ()
        if targets:
            out: Sym = ()
            for k, (tn, mn) in enumerate(targets):
                piece = self.inline(tn, mn, e, env, tname)
                if k and out and piece:
                    out += T("\n" + " " * self._cur_indent(out))
                out += piece
            return out
        # python methods
        txt = expr_text(e)
        if isinstance(fn, nodes.Getattr):
            if fn.attr == "to_string":
                recv = expr_text(fn.node)
                recv = self.root_of(fn.node, env)
                return (self._name_item(recv + ".python_name", tname), Item("t", ": "), Item("o", recv + ".type", self.type_idents),
                        Item("t", " = "), Item("o", recv + ".default", frozenset({"UNSET", "isoparse", "UUID"})))
            if "type_string" in fn.attr or fn.attr in ("response_type",):
                return (Item("o", txt, self.type_idents),)
        self.unknown_calls[txt.split("(")[0]] = self.unknown_calls.get(txt.split("(")[0], 0) + 1
        return (Item("o", txt),)

    def _call_block(self, blk: tuple, e: nodes.Call, env: dict[str, Any], tname: str) -> Sym:
        """the text of a call block with parameters for one `caller(...)`: its parameters are bound to the arguments given here
        (evaluated where `caller` is called), the rest of its names as they were bound where the block stands; the text is written
        by the template / macro in which the block stands (sites), in the loop rounds in which `caller` is called"""
        _tag, n, benv, btname, bstack, blent = blk
        if len(self._caller_depth) >= 3:
            self.truncated += 1
            return (Item("o", f"<{btname}::caller>"),)
        e2 = dict(benv)
        names = [a.name for a in n.args]
        nd = len(n.defaults)
        for i, a in enumerate(n.args):
            j = i - (len(names) - nd)
            if j >= 0:
                e2[a.name] = self.sym(n.defaults[j], e2, btname)
        for i, a in enumerate(e.args):
            if i < len(names):
                e2[names[i]] = self._arg(a, env, tname)
        for k in e.kwargs:
            if k.key in names:
                e2[k.key] = self._arg(k.value, env, tname)
        saved, self.out = self.out, []
        saved_stack, self.stack = self.stack, (list(bstack) if bstack and bstack[-1][0] == btname else list(bstack) + [(btname, "<top>")])
        saved_callers, self._caller = self._caller, self._caller[:-1]  # (`caller()` inside the block is the enclosing macro's)
        saved_lent, self._lent = self._lent, blent
        self._caller_depth.append(1)
        try:
            self.block(n.body, e2, btname)
            return tuple(self.out)
        finally:
            self._caller_depth.pop()
            self.out, self.stack, self._caller, self._lent = saved, saved_stack, saved_callers, saved_lent

    def inline(self, tn: str, mn: str, e: nodes.Call, env: dict[str, Any], tname: str) -> Sym:
        depth = sum(1 for x in self.stack if x == (tn, mn))
        if depth >= self.max_depth or len(self.stack) > 12:
            self.truncated += 1
            return (Item("o", f"<{tn}::{mn}>"),)
        m = self.jx.templates[tn].macros[mn]
        e2 = dict(self._module_env(tn))
        names = [a.name for a in m.args]
        nd = len(m.defaults)
        for i, a in enumerate(m.args):
            j = i - (len(names) - nd)
            if j >= 0:
                e2[a.name] = self.sym(m.defaults[j], e2, tn)
        for i, a in enumerate(e.args):
            if i < len(names):
                e2[names[i]] = self._arg(a, env, tname)
        for k in e.kwargs:
            if k.key in names:
                e2[k.key] = self._arg(k.value, env, tname)
        saved = self.out
        self.out = []
        self.stack.append((tn, mn))
        try:
            self.block(m.body, e2, tn)
            res = tuple(self.out)
        finally:
            self.stack.pop()
            self.out = saved
        return res

    def _module_env(self, tn: str) -> dict[str, Any]:
        """What a macro of template tn sees besides its parameters: the template's macros, its imports and its top-level `set`
        variables (a macro reads them like any global; the value is taken at the end of the template)."""
        got = self._module_envs.get(tn)
        if got is not None:
            return got
        ti = self.jx.templates[tn]
        e2: dict[str, Any] = {}
        self._module_envs[tn] = e2  # (a top-level `set` that calls a macro of the same template sees what is bound so far)
        self._bind_toplevel(ti, e2)
        saved, self.out = self.out, []
        saved_stack, self.stack = self.stack, [(tn, "<top>")]
        try:
            for n in ti.tree.body:
                if isinstance(n, (nodes.FromImport, nodes.Import, nodes.Assign, nodes.AssignBlock)):
                    self.stmt(n, e2, tn)
        finally:
            self.out = saved
            self.stack = saved_stack
        return e2

    def _arg(self, a: nodes.Node, env: dict[str, Any], tname: str) -> Any:
        if isinstance(a, nodes.Name):
            v = env.get(a.name)
            if isinstance(v, tuple) and v and v[0] in ("macros", "tplmods", "obj", "list", "dict"):
                return v
            if v is None:
                return ("obj", a.name)
        if isinstance(a, (nodes.Dict, nodes.List, nodes.Tuple)):
            return self._item_val(a, env, tname)
        ent = self._entry(a, env)
        if ent is not None:
            return ent
        if isinstance(a, (nodes.Getattr, nodes.Getitem)) and not (isinstance(a, nodes.Getattr) and a.attr in NAME_ATTRS):
            return ("obj", self.root_of(a, env))
        return self.sym(a, env, tname)


# ----------------------------------------------------------------------------------------------------------------------
# scanning the stream (see skelscan.py)
# ----------------------------------------------------------------------------------------------------------------------
from .skelscan import Event, Scope, scan_lines  # noqa: E402


VARIANT = "\ue002"  # first character of a line that is an alternative of the line before it
ALT_CAP = 24  # variants of one generated line that are laid out; beyond it the alternatives stand side by side


class _TooMany(Exception):
    pass


def _variants(sym: Sym, choice: dict[int, int]) -> list[tuple[list[Item], dict[int, int]]]:
    """The texts `sym` can stand for, free of alternatives, each with the decisions taken for it (one decision - `uid` - is taken
    the same way wherever it occurs in the line)."""
    results: list[tuple[list[Item], dict[int, int]]] = [([], choice)]
    for it in sym:
        if it.kind != "a":
            for items, _ch in results:
                items.append(it)
            continue
        new: list[tuple[list[Item], dict[int, int]]] = []
        for items, ch in results:
            for k in ([ch[it.uid]] if it.uid in ch else range(len(it.alts))):
                for sub, ch3 in _variants(it.alts[k], {**ch, it.uid: k}):
                    new.append((items + sub, ch3))
        if len(new) > ALT_CAP:
            raise _TooMany
        results = new
    return results


def _side_by_side(sym: Sym) -> list[Item]:
    out: list[Item] = []
    for it in sym:
        if it.kind != "a":
            out.append(it)
            continue
        for k, a in enumerate(it.alts):
            if k:
                out.append(Item("t", " "))
            out.extend(_side_by_side(a))
    return out


def resolve_alternatives(items: list[Item]) -> list[Item]:
    """A generated line in which alternatives stand (a conditional expression, a variable bound differently on different paths) is
    laid out once per alternative, one line after the other - as the branches of a block `if` are."""
    out: list[Item] = []
    line: list[Item] = []

    def close() -> None:
        if any(it.kind == "a" for it in line):
            try:
                vs = [v for v, _ in _variants(tuple(line), {})]
            except _TooMany:
                vs = [_side_by_side(tuple(line))]
            # alternatives exclude each other: what one of them binds is not bound when another one is evaluated. For statements
            # of one line the scanner is told so (VARIANT: the line is an alternative of the line before it)
            one_line = not any(it.kind == "t" and "\n" in it.text for v in vs for it in v)
            for k, v in enumerate(vs):
                if k:
                    out.append(Item("t", "\n" + (VARIANT if one_line else "")))
                out.extend(v)
        else:
            out.extend(line)
        line.clear()

    for it in items:
        if it.kind == "t" and "\n" in it.text:
            parts = it.text.split("\n")
            line.append(Item("t", parts[0]))
            for p in parts[1:]:
                close()
                out.append(Item("t", "\n"))
                line.append(Item("t", p))
        else:
            line.append(it)
    close()
    return out


def _lines(items: list[Item]) -> tuple[list[str], list[frozenset[str]], list[tuple[str, str, str]], list[str]]:
    """(lines, identifiers each opaque value may read, (root, site, rounds) of each name hole, expression text of each opaque value)"""
    buf: list[str] = []
    opq: list[frozenset[str]] = []
    opq_text: list[str] = []
    holes: list[tuple[str, str, str]] = []
    for it in resolve_alternatives(items):
        if it.kind == "t":
            buf.append(it.text)
        elif it.kind == "n":
            buf.append(f"{HOLE}{len(holes)}{HOLE}")
            holes.append((it.text, it.site, it.inst))
        else:
            buf.append(f"{OPQ}{len(opq)}{OPQ}")
            opq.append(it.idents)
            opq_text.append(it.text)
    return "".join(buf).split("\n"), opq, holes, opq_text


def to_lines(items: list[Item]) -> tuple[list[str], list[frozenset[str]], list[tuple[str, str, str]]]:
    """Virtual source: name holes become placeholder identifiers, opaque values an expression placeholder; a line in which
    alternatives stand is written once per alternative."""
    lines, opq, holes, _texts = _lines(items)
    return [x.lstrip(VARIANT) for x in lines], opq, holes


def scan(items: list[Item], template: str) -> Scope:
    lines, opq, holes, texts = _lines(items)  # (alternatives of a line keep their VARIANT mark: `scan_lines` reads and removes it)
    return scan_lines(lines, opq, holes, template, texts)
