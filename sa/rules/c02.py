"""C02 - model decode/encode is a lossless JSON round trip (structural clauses only)."""
from __future__ import annotations

import ast
import copy
import re
from dataclasses import dataclass
from typing import Any, Iterator, NamedTuple

from jinja2 import nodes

from .. import lexstate as LX
from .. import tplq
from ..astutil import Locals, call_name, cfg_of, enclosing_loop_body, names_in, norm, receivers, region, role_anon, short, stmt_of, where
from ..cfg import ENTRY, EXIT
from ..core import PKG, Report
from ..jinja_interp import expr_text

LEVEL = ("structural clauses that are necessary for the round trip (the behaviour itself - equality of run-time values - is not "
         "decided): writers and readers of a model use the same wire-key expression, in a string context, and together cover the "
         "whole property domain; every kind whose Python type differs from its JSON type defines both directions and converts; "
         "containers delegate both directions to their inner kind; a union member is decoded without fall-through only when no "
         "alternative remains, members are tried in document order; imports and lazy imports of every property are collected "
         "together; additional properties are merged before the declared keys and from_dict keeps the remainder; to_dict builds a "
         "fresh dict; Unset handling is by isinstance (shared with C10).")

REQ, OPT = "model.required_properties", "model.optional_properties"


def run(rep: Report, ctx: Any) -> str:
    ix = ctx.py
    jx = ctx.jinja
    it, ji = ctx.flow
    rep.rule("R02.1", "writer/reader key agreement: field_dict.update({...}), field_dict[...] =, d.pop(...) (both forms) use the same "
                      "wire-key expression inside a \"...\" literal, the Python side is python_name everywhere; the writers together and "
                      "the pops together cover required and optional properties (loop domain x guards incl. loop filters, as truth "
                      "tables); every other loop over the model's properties that prints code (a hole outside string literals and "
                      "comments of the generated module) iterates required + optional, by itself or together with the loops that print "
                      "the same text under the same conditions")
    rep.rule("R02.2", "both directions exist for every non-identity kind: if the Python type differs from the JSON type the template "
                      "defines construct and transform; construct_function is routed through construct_template; list and union call "
                      "construct / transform of the template imported for their inner property, with that inner property (the template "
                      "imported where the call is made, or handed on together with the member in a sequence made from the members)")
    rep.rule("R02.3", "plain JSON out: in every text the transform macro of a non-identity kind can print (every combination of its "
                      "conditions; set variables and blocks, macros of this or an imported template, call blocks followed) the destination "
                      "is assigned something else than UNSET, and no such assignment has the bare source as its value unless a later "
                      "one converts the destination in place")
    rep.rule("R02.4", "additional properties: merged before the declared-key update; from_dict assigns the remainder of d")
    rep.rule("R02.5", "to_dict returns a fresh dict: field_dict is only ever bound to a new empty dict (internal state is copied, not aliased)")
    mt = jx.templates.get("model.py.jinja")
    rep.require(mt, "model.py.jinja")
    td = mt.macros.get("_to_dict")
    rep.require(td, "_to_dict")

    # ---- R02.1 -----------------------------------------------------------------------------------------------------
    # template-bound variables are canonical (sa/jinja_canon.py): the variable of `for x in ITER` reads `ITER[*]`, a set variable
    # reads as its definition.  A loop over the model's properties is recognised by what it iterates (the set variable it may go
    # through is replaced by its definition), its variable is `<text of its iterable>[*]`.
    mdefs = _set_defs(mt)
    dom = f"({REQ} + {OPT})"

    def leaves(n: nodes.Node) -> set[str]:
        n = _inline(n, mdefs)
        return leaves(n.left) | leaves(n.right) if isinstance(n, nodes.Add) else {expr_text(n)}

    def admitted(n: nodes.Node) -> set[bool] | None:
        """the values of `.required` among the properties the iterable yields (None: not a selection of the model's properties that is
        understood): required_properties holds exactly the properties with .required, optional_properties the others"""
        n = _inline(n, mdefs)
        if isinstance(n, nodes.Add):
            l_, r_ = admitted(n.left), admitted(n.right)
            return None if l_ is None or r_ is None else l_ | r_
        if isinstance(n, nodes.CondExpr):     # the domain depends on a condition: what is admitted whichever way it goes
            l_, r_ = admitted(n.expr1), (admitted(n.expr2) if n.expr2 is not None else set())
            return None if l_ is None or r_ is None else l_ & r_
        if isinstance(n, (nodes.List, nodes.Tuple)) and not n.items:
            return set()
        if expr_text(n) in domain_lists:      # the variable of a loop over a literal list of domains: any of them
            out: set[bool] = set()
            for x in domain_lists[expr_text(n)]:
                a_ = admitted(x)
                if a_ is None:
                    return None
                out |= a_
            return out
        if isinstance(n, nodes.Filter) and n.node is not None and (n.name in ("selectattr", "rejectattr") or n.name in _SAME_ELEMENTS or
                                                                   _mapped_attr(n) is not None):
            inner = admitted(n.node)
            if n.name not in ("selectattr", "rejectattr") or inner is None:
                return inner       # the same properties in another order / as a list / each seen through one attribute
            sel = len(n.args) == 1 and isinstance(n.args[0], nodes.Const) and n.args[0].value == "required" and not n.kwargs and \
                not _mapped_path(n.node)      # (the attribute tested is the property's own)
            return inner & ({True} if n.name == "selectattr" else {False}) if sel else None
        return {REQ: {True}, OPT: {False}}.get(expr_text(n))

    # (a loop over a literal list of domains, `for ps in [A, B]`, is no loop over properties: the loop over its variable is)
    domain_lists = {f"{expr_text(f.iter)}[*]": list(lit.items) for f in mt.tree.find_all(nodes.For)
                    for lit in [_inline(f.iter, mdefs)] if isinstance(lit, (nodes.List, nodes.Tuple)) and lit.items}
    prop_loops = [(f, leaves(f.iter)) for f in mt.tree.find_all(nodes.For) if f"{expr_text(f.iter)}[*]" not in domain_lists]
    prop_loops = [(f, lv) for f, lv in prop_loops if any(REQ in x or OPT in x for x in lv)]
    rep.floor("property_loops", len(prop_loops), 4)
    loop_dom = {expr_text(f.iter): (admitted(f.iter) or set()) for f, lv in prop_loops}
    # the variable of a loop over the properties stands for the property <p>; of a loop over `PROPS | map(attribute="a")` for <p>.a
    pvars = {f"{expr_text(f.iter)}[*]": "<p>" + "".join(f".{a}" for a in _mapped_path(_inline(f.iter, mdefs))) for f, lv in prop_loops}

    def strip_pv(t: str) -> str:
        for v in sorted(pvars, key=len, reverse=True):
            t = t.replace(v, pvars[v])
        while "(<p>)" in t:      # a set variable that stands for the loop variable reads as its parenthesised definition
            t = t.replace("(<p>)", "<p>")
        return t

    def natom(t: str) -> str:
        return _strip_parens(strip_pv(t))

    key_sites = []
    for e in ji.emissions.values():
        if e.template != "model.py.jinja":
            continue
        if e.kind.endswith('STR1"') and e.hole.endswith(".name") and strip_pv(e.hole).startswith("<p>."):
            key_sites.append(e)
    by_place = {}
    for e in key_sites:
        by_place.setdefault((e.macro, e.expr, e.ordinal), e)
    # the reader really pops the key.  A pop form is one value of a text the template assembles: `d.pop("<key>")` or
    # `d.pop("<key>", <default>)`.  What is examined is the set of texts each site can yield (sa `_Texts`), not how the site is
    # written: concatenation with `+` / `~` / `%` / format, a conditional expression or a set variable for a part, `{% if %}` around
    # whole `set`s, a `{% set %}...{% endset %}` block, a macro of this template returning the text, or the pop written out in the
    # template text are the same forms.  Every conditional part is a guard of the form, like an enclosing `{% if %}`.
    texts = _Texts(mt)
    pops = _pop_forms(mt, texts)
    rep.floor("pop_forms", len(pops), 1)
    rep.floor("wire_key_sites", len(by_place), 1)
    exprs = {strip_pv(e.hole) for e in by_place.values()} | {strip_pv(pf.key) if pf.key is not None else pf.text for pf in pops}
    rep.check(exprs == {"<p>.name"}, "R02.1", "model.py.jinja::wire-key-expression",
              f"writers and readers disagree on the wire key: {sorted(exprs)}", where=f"{PKG}/templates/model.py.jinja",
              lhs=sorted(exprs), rhs=["<property>.name"])
    # the writers are the holes of to_dict (the macro and the macros of the template it prints) inside a "..." literal; the reader is a
    # pop form inside a loop over the properties whose text reaches the output
    to_dict_region = {m.name for m in _macro_region(mt, "_to_dict")}
    places = {(e.macro, strip_pv(e.expr)) for e in by_place.values()}
    popped = sorted({pf.text for pf in pops if pf.printed and pf.frag.loops and pf.key is not None and strip_pv(pf.key) == "<p>.name"})
    rep.check(any(m in to_dict_region and x == "<p>.name" for m, x in places) and bool(popped), "R02.1",
              "model.py.jinja::both-writers-and-reader", "a writer (to_dict) or the reader (from_dict pops) no longer keys by property.name",
              where=f"{PKG}/templates/model.py.jinja", lhs=[sorted(places), popped], rhs="\"<property.name>\" written in _to_dict + a printed d.pop(\"<property.name>\"...)")
    for pf in pops:
        key_ok = pf.key is not None and strip_pv(pf.key) == "<p>.name"
        rep.check(key_ok and pf.default in (None, "UNSET"), "R02.1", f"model.py.jinja::pop[{'optional' if pf.default is not None or 'UNSET' in pf.text else 'required'}]",
                  "from_dict does not pop the key written by to_dict", where=f"{PKG}/templates/model.py.jinja:{pf.frag.line}", lhs=pf.text,
                  rhs="'d.pop(\"' + property.name + '\"...)'")
    # same domain.  required_properties holds exactly the properties with .required, optional_properties the others: a site inside a
    # loop serves the values of `.required` its loop domain admits and its guards (if / elif / else / loop filter) allow.  The sites
    # writing a wire key in to_dict must together serve both values, so must the pops of from_dict; a loop that neither writes nor
    # pops a wire key (conversions, constructor keywords, declarations) must iterate the whole domain itself.
    def served(fr: tplq.Frag) -> set[bool]:
        admits = loop_dom.get(fr.loops[-1], set()) if fr.loops else set()
        out: set[bool] = set()
        for env in _emitted_envs(fr, natom):
            out |= ({env["<p>.required"]} & admits) if "<p>.required" in env else admits
        return out

    writers = [fr for fr in _region_frags(mt, td.body) if fr.kind == "expr" and fr.loops and strip_pv(fr.text) == "<p>.name"]
    readers = [pf.frag for pf in pops if pf.frag.loops]
    no_default = {id(pf.frag) for pf in pops if pf.default is None}
    for what, sites, key in (("to_dict writes", writers, "_to_dict::writers-cover-domain"), ("from_dict pops", readers, "from_dict::pops-cover-domain")):
        got: set[bool] = set()
        for fr in sites:
            got |= served(fr)
        rep.check(got == {True, False}, "R02.1", f"model.py.jinja::{key}",
                  f"{what} the wire key only for properties with required in {sorted(got)}: the others are written but not read, or the reverse",
                  where=f"{PKG}/templates/model.py.jinja", lhs=sorted(got), rhs=[False, True])
    # a pop without default raises KeyError when the key is absent: it may only serve required properties
    for fr in readers:
        if id(fr) in no_default:
            rep.check(served(fr) <= {True}, "R02.1", "model.py.jinja::pop[required]::only-when-required",
                      "a property that is not required is popped without a default: a valid instance that omits it makes from_dict raise KeyError",
                      where=f"{PKG}/templates/model.py.jinja:{fr.line}", lhs=sorted(served(fr)), rhs=[True])
    # Which loops carry this obligation.  A loop whose holes all land inside a string literal (not an f-string) or a comment of the
    # generated module, and that writes / pops no wire key, prints documentation: whether it lists every property is no matter of
    # the round trip.  The lexical context of a hole is the one the joint interpreter recorded for it (an unrecorded hole, e.g. the
    # call of another template's macro, counts as code).  Loops that print the same text under the same conditions for a property
    # (the loop's property written <p>, the alias of an imported template <tpl>, white space aside) are one loop written in pieces:
    # together they must admit both values.
    em_at: dict[int, list[Any]] = {}
    for e in ji.emissions.values():
        if e.template == mt.name:
            em_at.setdefault(e.line, []).append(e)

    def in_code(fr: tplq.Frag) -> bool:
        ems = em_at.get(fr.line, [])
        ems = [e for e in ems if e.expr == fr.text] or ems
        return not ems or any(not ((LX.is_string(e.state) and "f" not in LX.string_info(e.state)[0]) or e.state in (LX.COMMENT, LX.INERT))
                              for e in ems)

    # (a site is the node of the template's tree it was read from - through whichever macros the text is printed)
    site_nodes = [_orig(fr.node) for fr in writers + readers]
    role: dict[int, str | None] = {}
    for f, lv in prop_loops:
        body = _region_frags(mt, f.body)
        has_site = any(x is s for s in site_nodes for x in f.find_all(type(s)))
        if not has_site and not any(fr.kind == "expr" and in_code(fr) for fr in body):
            role[id(f)] = None
            continue
        aliases = sorted({i.target for i in f.find_all(nodes.Import)}, key=len, reverse=True)

        def anon(t: str, own: str = f"{expr_text(f.iter)}[*]", aliases: list[str] = aliases) -> str:
            t = t.replace(own, pvars[own])
            for a in aliases:
                t = re.sub(rf"(?<![\w.]){re.escape(a)}(?![\w(])", "<tpl>", t)
            return _strip_parens(t)

        role[id(f)] = " ".join(((f"{{%for if {anon(expr_text(f.test))}%}}" if f.test is not None else "") + "".join((fr.text if fr.kind == "data" else "{{" + anon(fr.text) + "}}") + "".join(
            f"{{%{'' if pol else 'not '}{anon(g)}%}}" for g, pol in fr.guards) for fr in body)).split())
    rep.floor("property_loops_printing_code", sum(r is not None for r in role.values()), 3)
    for f, lv in prop_loops:
        if role[id(f)] is None:
            continue
        txt = expr_text(_inline(f.iter, mdefs))
        has_site = any(x is s for s in site_nodes for x in f.find_all(type(s)))
        adm = loop_dom[expr_text(f.iter)]
        together: set[bool] = set()
        for f2, _ in prop_loops:
            if role[id(f2)] == role[id(f)]:
                together |= loop_dom[expr_text(f2.iter)]
        ok = together == {True, False} or (bool(adm) and has_site)
        rep.check(ok, "R02.1", f"model.py.jinja::domain[{txt}]@{_macro_of(mt, f)}",
                  "a loop over the model's properties iterates another domain than required + optional (a property would be written but "
                  "not read, or the reverse)", where=f"{PKG}/templates/model.py.jinja:{f.lineno}", lhs=txt, rhs=dom)
    top = _region_frags(mt, mt.tree.body)

    # ---- R02.10: what from_dict decoded is what the object gets --------------------------------------------------------------------
    rep.rule("R02.10", "the decoded value reaches the object unchanged: inside the argument list of cls(...), under every condition of the "
                       "template, a property's keyword is python_name=python_name and nothing else (no default, no fallback in place of "
                       "UNSET: the object must remember that the key was absent); in the loop that pops the keys, the property's local is "
                       "assigned from the pop and from nothing else")
    # the argument list: from the text `cls(` to the parenthesis that closes it, in output order
    inside: set[int] = set()      # template lines of the pieces printed inside it
    depth = 0
    for fr in top:
        if fr.kind == "expr":
            if depth:
                inside.add(fr.line)
            continue
        t = fr.text
        k = 0
        while k < len(t):
            if not depth:
                m = re.compile(r"\bcls\(").search(t, k)
                if m is None:
                    break
                depth, k = 1, m.end()
                continue
            depth += (t[k] in "([{") - (t[k] in ")]}")
            k += 1
        if depth:
            inside.add(fr.line)
    n_ctor = 0
    ctor_dom: set[bool] = set()
    for f, lv in prop_loops:
        # (the printed call of a macro of this template is followed by what the macro prints: the call itself is no piece of text)
        body = [fr for fr in _region_frags(mt, [f]) if fr.kind == "data" or _bound_body(mt, _unfiltered(fr.node)) is None]
        if not any(fr.kind == "expr" and fr.line in inside for fr in body):
            continue
        n_ctor += 1
        ctor_dom |= loop_dom[expr_text(f.iter)]
        names: list[str] = []
        for fr in body:
            for a in tplq.guard_atoms(fr):
                if natom(a) not in names:
                    names.append(natom(a))
        bad = None
        for env in tplq.assignments(names):
            printed = "".join((fr.text if fr.kind == "data" else "{{" + natom(fr.text) + "}}") for fr in body
                              if tplq.guard_holds(fr, {a: env[natom(a)] for a in tplq.guard_atoms(fr)}))
            if not re.fullmatch(r"\{\{<p>\.python_name\}\}=\{\{<p>\.python_name\}\},?", "".join(printed.split())):
                bad = (env, " ".join(printed.split()))
                break
        rep.check(bad is None, "R02.10", f"model.py.jinja::from_dict::constructor-receives-decoded[{expr_text(_inline(f.iter, mdefs))}]",
                  f"cls(...) does not receive the decoded value itself for every property: when {bad[0] if bad else None} the template prints "
                  f"`{bad[1] if bad else None}`; a value substituted for UNSET is written by to_dict, so decode -> encode adds a key the instance "
                  "did not have", where=f"{PKG}/templates/model.py.jinja:{f.lineno}", lhs=bad[1] if bad else None,
                  rhs="{{<p>.python_name}}={{<p>.python_name}}, under every condition")
    rep.floor("constructor_keyword_loops", n_ctor, 1)
    # python side: python_name everywhere - the loops inside cls(...) (each prints python_name=python_name, above) take in every property
    rep.check(ctor_dom == {True, False}, "R02.1", "model.py.jinja::constructor-keywords", "cls(...) is not called with python_name=python_name for every property",
              where=f"{PKG}/templates/model.py.jinja", lhs=sorted(ctor_dom), rhs="<property.python_name>=<property.python_name> for every property")
    # where from_dict pops: `<local> = ...` is only ever `<local> = <the pop>` (the conversions live in the kinds' construct macros)
    reader_nodes = {id(_orig(fr.node)) for fr in readers}
    for f, lv in prop_loops:
        body = _region_frags(mt, [f])
        if not any(id(_orig(fr.node)) in reader_nodes for fr in _stmt_frags([f], (nodes.Assign, nodes.AssignBlock, nodes.Output), ti=mt)):
            continue
        for i, a in enumerate(body[:-1]):
            eq = body[i + 1]
            m = re.match(r"\s*(:[^=\n]+)?=(?!=)\s*", eq.text) if a.kind == "expr" and eq.kind == "data" and natom(a.text) == "<p>.python_name" else None
            if m is None or (i and body[i - 1].kind == "data" and re.search(r"[\w.\])]$", body[i - 1].text)):
                continue       # (not the beginning of an assignment to the local)
            rest = eq.text[m.end():]
            if rest.strip():
                vals = [rest]
            else:
                nxt = body[i + 2] if i + 2 < len(body) else None
                vals = ["".join(p_ if isinstance(p_, str) else "{{" + p_[1] + "}}" for p_ in alt.parts) for alt in texts.expr(nxt.node)] if nxt is not None and nxt.kind == "expr" else [""]
            ok = all(v.lstrip().startswith("d.pop(") for v in vals)
            rep.check(ok, "R02.10", "model.py.jinja::from_dict::local-bound-from-pop", "in from_dict a property's local is assigned from something else "
                      "than the pop of its key: the value that reaches cls(...) is not the decoded one", where=f"{PKG}/templates/model.py.jinja:{a.line}",
                      lhs=[v[:60] for v in vals], rhs="d.pop(\"<property.name>\"...)")

    # ---- R02.2 / R02.3 ----------------------------------------------------------------------------------------------------
    n_k = n_conv = 0
    proto = ix.cls("PropertyProtocol")
    for c in ix.property_classes():
        tname = ix.const_str(*_cv(ix, c, "template")) or ""
        ti = jx.templates.get("property_templates/" + tname)
        rep.require(ti, f"template of {c.name}")
        ts = ix.const_str(*_cv(ix, c, "_type_string"))
        js = ix.const_str(*_cv(ix, c, "_json_type_string"))
        jd = _cv(ix, c, "json_is_dict")
        json_is_dict = isinstance(jd[1], ast.Constant) and jd[1].value is True
        overrides_json = any("get_base_json_type_string" in k.methods for k in ix.mro(c) if k is not proto) or \
            any("get_base_type_string" in k.methods for k in ix.mro(c) if k is not proto)
        differs = (ts != js) or json_is_dict or overrides_json
        if c.name in ("ConstProperty",):
            differs = False  # Literal[...] of a JSON scalar: same representation
        if c.name == "LiteralEnumProperty":
            differs = False  # a Literal of str/int values: identity on the wire, construct only checks membership
        n_k += 1
        if differs:
            has_c, has_t = "construct" in ti.macros, "transform" in ti.macros
            rep.check(has_c and has_t, "R02.2", f"{c.name}::both-directions",
                      f"the Python type ({ts or 'computed'}) differs from the JSON type ({js or 'computed'}) but {tname} defines "
                      f"construct={has_c}, transform={has_t}: the missing direction silently becomes the identity", where=f"{PKG}/templates/{ti.name}",
                      lhs=[has_c, has_t], rhs=[True, True])
            if has_t and c.name not in ("UnionProperty", "ListProperty"):
                n_conv += 1
                _transform_converts(rep, jx, ti, c.name)
        if "construct_function" in ti.macros:
            # (anywhere in construct and the macros of the template it calls; the function handed over by position or by keyword)
            routed = any(isinstance(c2, nodes.Call) and expr_text(c2.node).rsplit(".", 1)[-1] == "construct_template" and
                         "construct_function" in [expr_text(a) for a in [*c2.args[:1], *[k.value for k in c2.kwargs]]]
                         for m2 in _macro_region(ti, "construct") for c2 in m2.find_all(nodes.Call))
            rep.check(routed, "R02.2", f"{c.name}::construct-routed", "construct does not go through construct_template(construct_function, ...)",
                      where=f"{PKG}/templates/{ti.name}", lhs=None, rhs="construct_template(construct_function, property, source)")
    rep.floor("property_kinds", n_k, 8)
    rep.floor("converting_kinds", n_conv, 3)
    # list / union delegate to the inner template in both directions: reachable from construct (transform) there is a call
    # ALIAS.construct(X, ...) (ALIAS.transform(X, ...)) where ALIAS is the import of "property_templates/" + X.template and X is the
    # inner property (property.inner_property / an element of property.inner_properties); the alias and X may be spelled anyhow
    for tn in ("list_property.py.jinja", "union_property.py.jinja"):
        ti = jx.templates.get("property_templates/" + tn)
        rep.require(ti, tn)
        got_d = {d: d in _delegated(ti, d) for d in ("construct", "transform")}
        rep.check(all(got_d.values()), "R02.2", f"{tn}::delegates-both-directions",
                  "a container no longer delegates construct and transform to its inner template", where=f"{PKG}/templates/{ti.name}",
                  lhs=got_d, rhs="construct and transform of the inner property's template, called with the inner property")

    # ---- R02.4 / R02.5 ---------------------------------------------------------------------------------------------------------
    frs = _region_frags(mt, td.body)     # in output order, the macros that to_dict prints included

    def first(text: str) -> int | None:
        return next((i for i, f in enumerate(frs) if f.kind == "data" and text in f.text), None)

    upd_add, loop_add, upd_decl = first("field_dict.update(self.additional_properties)"), \
        first("for prop_name, prop in self.additional_properties.items()"), first("field_dict.update({")
    rep.check(upd_add is not None and loop_add is not None and upd_decl is not None and max(upd_add, loop_add) < upd_decl, "R02.4",
              "model.py.jinja::_to_dict::additional-before-declared", "additional properties are not merged before the declared keys (a declared key "
              "could be overwritten by an undeclared one)", where=f"{PKG}/templates/model.py.jinja:{td.lineno}")
    rem = [f for f in top if f.kind == "data" and re.search(r"\.additional_properties = (d|additional_properties)\b", f.text)]
    rep.check(len(rem) >= 1 and any(re.search(r"\.additional_properties = d\b", f.text) for f in rem), "R02.4",
              "model.py.jinja::from_dict::remainder", "from_dict does not keep the remainder of the popped dict as additional properties",
              where=f"{PKG}/templates/model.py.jinja")
    binds = []
    for f in frs:
        if f.kind == "data":
            for line in f.text.splitlines():
                m = re.match(r"\s*field_dict(\s*:\s*[^=]+)?\s*=\s*(.+)$", line)
                if m and not line.strip().startswith("field_dict["):
                    binds.append(m.group(2).strip())
    rep.check(bool(binds) and all(b == "{}" for b in binds), "R02.5", "model.py.jinja::_to_dict::fresh-dict",
              f"field_dict is bound to {binds}: the dict returned by to_dict aliases internal state, so encoding mutates the object",
              where=f"{PKG}/templates/model.py.jinja:{td.lineno}", lhs=binds, rhs=["{}"])
    rets = [f for f in frs if f.kind == "data" and "return field_dict" in f.text]
    rep.check(len(rets) == 1 and not rets[0].guards, "R02.5", "model.py.jinja::_to_dict::returns-field_dict", "to_dict does not return field_dict",
              where=f"{PKG}/templates/model.py.jinja")
    # Unset handling by isinstance (shared with C10 R10.2): the text construct_template emits for a property that is not required, with
    # every hole written as <its expression> (set variables replaced by their definitions, constant parts of a hole as text), decides
    # between UNSET and construct_function by isinstance(X, Unset) on the very variable X that holds the source
    pm = jx.templates.get("property_templates/property_macros.py.jinja")
    rep.require(pm, "property_macros.py.jinja")
    ctm = pm.macros.get("construct_template")
    rep.require(ctm, "construct_template")
    pdefs = _set_defs(pm)
    cfr = list(tplq.frags(ctm.body))
    cnames: list[str] = []
    for fr in cfr:
        for a in tplq.guard_atoms(fr):
            if _strip_parens(a) not in cnames:
                cnames.append(_strip_parens(a))
    rep.require("property.required" in cnames, "construct_template decides on property.required")
    arms = []
    for env in tplq.assignments(cnames):
        if env["property.required"]:
            continue
        arms.append("".join(_render(fr, pdefs) for fr in cfr if tplq.guard_holds(fr, {a: env[_strip_parens(a)] for a in tplq.guard_atoms(fr)})))
    by_inst = bool(arms)
    for arm in arms:
        m = re.search(r"^[ \t]*if isinstance\((\S+?),\s*Unset\):[ \t]*\n[^\n]*=\s*UNSET\b", arm, re.M)
        raw = m.group(1) if m else None
        calls = [c for fr in cfr if fr.kind == "expr" for c in [fr.node, *fr.node.find_all(nodes.Call)] if isinstance(c, nodes.Call)
                 and expr_text(c.node) == "construct_function" and len(c.args) >= 2 and _hole_text(c.args[1], pdefs) == raw]
        by_inst = by_inst and m is not None and re.search(r"^[ \t]*" + re.escape(raw) + r"[ \t]*=[ \t]*<source>", arm, re.M) is not None and bool(calls)
    rep.check(by_inst, "R02.2", "construct_template::unset-by-isinstance",
              "optional values are recognised as absent by something other than isinstance(..., Unset): present falsy values ({} / 0 / '') "
              "would be decoded as UNSET", where=f"{PKG}/templates/{pm.name}", lhs=(arms[0].strip()[:240] if arms else None),
              rhs="X = <source> ... if isinstance(X, Unset): ... = UNSET / else: ... construct_function(property, X)")
    from .c15 import check_no_parent_mutation

    rep.rule("R02.6", "a composed (allOf) child never mutates the property objects it inherits: the parent's own decode/encode is unchanged")
    check_no_parent_mutation(rep, ctx, "R02.6")
    rep.rule("R02.7", "union decode falls through: a member that has a type check is decoded in terminal form (no try/except around its "
                      "construct) only when it is the last member and no pass-through member was seen before it (seen: a namespace flag set "
                      "where a member's template has no construct, or the selection of exactly those members being empty)")
    _union_fallthrough(rep, jx)
    rep.rule("R02.8", "union members are tried in document order: the list given to UnionProperty(inner_properties=...) is assembled in single "
                      "passes (no second pass over the same sequence, i.e. no partition), never sorted / made a set, and arrives the right "
                      "way round (reversed / [::-1] / taking from the end / putting in front cancel in pairs; a work list is refilled at "
                      "the end it is consumed at); the decode loop iterates property.inner_properties itself, or a selection of it in the same "
                      "order that holds exactly the members whose template has a construct (a call-block parameter that the called macro "
                      "fills from a namespace list, extended at its end in one loop over the whole member list)")
    _member_order(rep, ix)
    rep.rule("R02.9", "whatever collects a property's imports for a model module collects its lazy imports on the same paths (the model "
                      "classes that the emitted decode/encode code names are imported lazily); a kind that forwards get_imports to its inner "
                      "properties forwards get_lazy_imports too")
    _imports_parity(rep, ix)
    rep.rule("R02.11", "the parsed document is not rewritten behind the builders' back: every in-place write to a field of a document object "
                       "(a class of the package that defines Schema; receiver found by its abstract type, wherever the write is made: "
                       "attribute store, mutating call on the field or an alias of it, setattr - the field being every text the name "
                       "argument can be, by its abstract value -, the result of a pydantic validator) is one "
                       "of the writes frozen in DOCUMENT_WRITERS - the fields that say which values are valid (enum, const, properties, "
                       "required, items, ...) reach the builders as the document wrote them")
    _document_frame(rep, ix, it)
    rep.rule("R02.12", "a model drops only its own import from its import sets: wherever a function of ModelProperty's module tests an import "
                       "line (an element of an iterated collection) against, or removes from a collection, a text made from the model's own "
                       "class_info, that text names the import in full - it contains everything get_lazy_imports writes from the model "
                       "(module name, class name and the text between them), however either text is put together (f-string, +, local, "
                       "property)")
    _own_import_named_in_full(rep, ix, it)
    rep.rule("R02.13", "no value of the document is paired away: where the property builders (parser/properties) walk two or more sequences in "
                       "step - zip(...) without strict=True, map(f, a, b) - and one of them holds document values, the walk ends with the "
                       "shortest, so the sequences are of one origin (one made from the other: a slice, a comprehension without filter, "
                       "keys()/values() of one dict, range(len(..))) or their lengths are compared on every path to the walk; otherwise the "
                       "values beyond the shorter sequence get no member / property and a valid instance that uses them is not decoded")
    _no_silent_pairing(rep, ix, it)
    rep.rule("R02.14", "from_dict takes its copy of the source apart by pops and by nothing else: in the text of from_dict (under any condition of "
                       "the template; a text put together in a set variable included) the working dict - the local bound to a copy of the "
                       "source parameter - is bound once, to that copy; no item of it is deleted or assigned, no mutating method other than "
                       "pop is called on it, and no pop stands as a statement of its own (a value popped and dropped is neither decoded nor "
                       "kept as an additional property)")
    _working_dict_frame(rep, mt, top, texts)
    from .registries import check_enum_class_shared

    rep.rule("R02.15", "a class shared by name holds the values of every declaration that names it: each property keeps its own value list "
                       "but imports the one class registered under the name (the registration is overwritten by the last builder), so the "
                       "enum builders may reuse a registered name only for an entry of the same kind with equal values - anything else is "
                       "an error (the condition of R07.4 / R09.3, needed here because a member missing from the shared class makes from_dict "
                       "raise for a valid instance)")
    check_enum_class_shared(rep, ctx, "R02.15")
    rep.not_decided += ["whether null is a value of a property (which kinds accept None: a guard in from_dict that reads, not writes, the "
                        "source is value-level behaviour); what a function that is handed the working dict does to it",
                        "that construct(transform(x)) == x on values (isoparse(x.isoformat()), which of two overlapping union members accepts a "
                        "value, recursion)", "a union member without a type check (const) is decoded in terminal form wherever it stands",
                        "the direction of a loop that walks a member list by a computed index or position (taken to run forwards); in which order "
                        "the parts of a union (anyOf, oneOf, type list) follow each other",
                        "sequences walked in step by index (for i, x in enumerate(a): b[i]) or cut by a slice / islice to another's length; "
                        "a length comparison made by the caller of the function that pairs"]
    return LEVEL


# ---- R02.14 --------------------------------------------------------------------------------------------------------------------
def _working_dict_frame(rep: Report, mt: Any, top: list[Any], texts: Any) -> None:
    loc = f"{PKG}/templates/{mt.name}"
    # the text of from_dict in output order, every condition taken (a forbidden statement under any condition is one), a hole written \x00;
    # the texts a hole can be (a set variable holding code) are read on their own
    full = ""
    spans: list[tuple[int, Any]] = []
    for fr in top:
        spans.append((len(full), fr))
        full += fr.text if fr.kind == "data" else "\x00"
    m = re.search(r"(?m)^[ \t]*def from_dict\(\s*\w+[^,)]*,\s*(\w+)", full)
    rep.require(m is not None, "def from_dict(cls, <source>) in model.py.jinja")
    src = m.group(1)
    end = re.compile(r"(?m)^[ \t]*(?:@\w|def |class )").search(full, m.end())
    lo, hi = m.start(), (end.start() if end else len(full))
    body = re.sub(r"(?m)#[^\n]*$", "", full[lo:hi])
    extra: list[str] = []
    for at, fr in spans:
        if fr.kind == "expr" and lo <= at < hi:
            for alt in texts.expr(fr.node):
                if any(isinstance(p_, str) for p_ in alt.parts):
                    extra.append(re.sub(r"\x00\d+\x01", "\x00", texts.render(alt)[0]))
    copy_of = rf"(?:dict\(\s*{src}\s*\)|\{{\s*\*\*\s*{src}\s*\}}|{src}\.copy\(\)|copy(?:\.copy)?\(\s*{src}\s*\))"
    # the working dict, by role: what is bound to a copy of the source, and what the declared keys are popped from
    names = sorted(set(re.findall(rf"(?m)^[ \t]*(\w+)[ \t]*(?::[^=\n]+)?=[ \t]*{copy_of}[ \t]*$", body)) |
                   {r for t in [body, *extra] for r in re.findall(r"(?<![\w.\x00])(\w+)\.pop\(\s*\"\x00\"", t)})
    rep.require(names, f"the working dict of from_dict (a local bound to a copy of `{src}`, or the receiver of the pops)")
    bad: list[str] = []
    for w in names:
        nm = rf"(?<![\w.\x00]){re.escape(w)}(?![\w\x00])"
        for k, t in enumerate([body, *extra]):
            for d in re.finditer(rf"\bdel\b[^\n]*?{nm}", t):
                bad.append(f"{' '.join(t[d.start():_value_end(t, d.start())].split())[:80]}: an item of the working dict is deleted")
            for b in re.finditer(nm + r"\[", t):
                item = _call_text(t, b.start(), b.end() - 1)
                if re.match(r"\s*(?:[-+*/%|&^@]|//|\*\*|<<|>>)?=(?!=)", t[b.start() + len(item):]):
                    bad.append(f"{' '.join(t[b.start():_value_end(t, b.start())].split())[:80]}: an item of the working dict is assigned")
            for c in re.finditer(nm + r"\.(\w+)\(", t):
                if c.group(1) in _MUTATORS - {"pop"}:
                    bad.append(f"{' '.join(_call_text(t, c.start(), c.end() - 1).split())[:80]}: the working dict is changed by .{c.group(1)}()")
            if k:
                continue       # (statement structure: only where the text is laid out in lines)
            for c in re.finditer(rf"(?m)^[ \t]*{nm}\.pop\(", t):
                call = _call_text(t, c.start(), c.end() - 1)
                if re.match(r"[ \t]*(?:\n|$)", t[c.start() + len(call):]):
                    bad.append(f"{' '.join(call.split())[:80]}: a value is popped and dropped")
            for a in re.finditer(rf"(?m)^[ \t]*(?:for\b[^\n]*?\b)?{nm}[ \t]*(?::[^=\n]+)?=(?!=)[ \t]*", t):
                v = t[a.end():_value_end(t, a.end())].strip()
                if re.fullmatch(copy_of, v) is None:
                    bad.append(f"{' '.join(t[a.start():_value_end(t, a.end())].split())[:80]}: the working dict is bound to something else than a copy of `{src}`")
    shown = [re.sub("\x00", "<...>", b) for b in bad]
    rep.check(not bad, "R02.14", "model.py.jinja::from_dict::working-dict-only-popped",
              "from_dict changes its copy of the source otherwise than by popping the declared keys into the decoders: what is removed or "
              "replaced there is neither decoded nor kept as an additional property, so a value of a valid instance is lost on decode",
              where=loc, lhs=shown[:3], rhs=f"<d> = dict({src}); <local> = <d>.pop(\"<property.name>\"...); ... = <d>")


# ---- R02.3 ---------------------------------------------------------------------------------------------------------------------
def _transform_converts(rep: Report, jx: Any, ti: Any, kind: str) -> None:
    """The statements `<destination> ... = <value>` in the texts of the kind's transform macro.  `source` and `destination` are the
    macro's parameters (model.py.jinja passes them by keyword); everything else is read off the text, however it is assembled."""
    m = ti.macros["transform"]
    loc = f"{PKG}/templates/{ti.name}"
    params = {a.name for a in m.args}
    rep.require({"source", "destination"} <= params, f"{ti.name}::transform takes source and destination")
    texts = _Texts(ti, jx)
    alts = texts.body(m.body, 0, texts.scope_defs(m.body))
    bare: list[str] = []
    none: list[str] = []
    hidden: list[str] = []
    n_alt = 0
    for a in alts:
        fr = _Stmt("stmt", "transform", m.lineno, a.guards, a.gnodes, (), m)
        env = next(iter(_emitted_envs(fr, _strip_parens)), None)
        if env is None:
            continue       # contradictory conditions: never printed
        n_alt += 1
        txt, holes = texts.render(a)
        dst = {k for k, h in enumerate(holes) if h == "destination"}
        src = {k for k, h in enumerate(holes) if h == "source"}

        def show(t: str, holes: list[str] = holes) -> str:
            return re.sub(r"\x00(\d+)\x01", lambda h: f"<{holes[int(h.group(1))]}>", t).strip()

        vals: list[tuple[str, str]] = []      # (statement, value) of the assignments to the destination, in output order
        for mt_ in re.finditer(r"(?m)^[ \t]*\x00(\d+)\x01[^=\n]*(?<![=!<>+\-*/%&|^])=(?!=)[ \t]*", txt):
            if int(mt_.group(1)) not in dst:
                continue
            end = _value_end(txt, mt_.end())
            vals.append((txt[mt_.start():end], txt[mt_.end():end].strip()))
        present = [(st, v) for st, v in vals if v != "UNSET"]
        when = ", ".join(f"{k}={v}" for k, v in sorted(env.items())) or "always"
        if not present:
            opaque = [p_[1] for p_ in a.parts if not isinstance(p_, str) and not isinstance(p_[0], (nodes.Name, nodes.Getattr))]
            (hidden if opaque else none).append(f"[{when}] {show(txt)[:160]!r}")
            continue
        for i, (st, v) in enumerate(present):
            one = re.fullmatch(r"\x00(\d+)\x01", _strip_parens(v).strip())
            if one is None or int(one.group(1)) not in src:
                continue
            # converted in place afterwards: a later assignment whose value is made from the destination
            if any(any(f"\x00{k}\x01" in v2 for k in dst) and re.fullmatch(r"\x00(\d+)\x01", _strip_parens(v2).strip()) is None
                   for _, v2 in present[i + 1:]):
                continue
            bare.append(f"[{when}] {show(st)}")
    rep.require(n_alt > 0, f"a text that {ti.name}::transform prints")
    rep.require(not hidden, f"the assignment of the destination in {ti.name}::transform (printed by something that is not followed: {hidden[:2]})")
    rep.check(not bare and not none, "R02.3", f"{kind}::transform-converts",
              ("transform assigns the bare source: a rich Python object would be emitted as JSON" if bare else
               "transform prints a text in which the destination is never assigned a value of the source"),
              where=loc, lhs=(bare or none)[:3], rhs="<destination> = a conversion of <source>, under every condition")


def _value_end(t: str, i: int) -> int:
    """end of the expression that starts at t[i]: the end of the line on which every bracket opened since is closed"""
    depth, q, j = 0, "", i
    while j < len(t):
        ch = t[j]
        if q:
            if ch == "\\":
                j += 1
            elif ch == q:
                q = ""
        elif ch in "\"'":
            q = ch
        elif ch in "([{":
            depth += 1
        elif ch in ")]}":
            depth -= 1
        elif ch == "\n" and depth <= 0:
            return j
        j += 1
    return len(t)


# ---- R02.11 --------------------------------------------------------------------------------------------------------------------
# Who may write the parsed document in place.  role: `normaliser` = a pydantic validator of a document class (with its helpers) writing
# the object it validates, `builder` = any other function.  value: `*` anything, `None` only the constant None.
# role          class     field               value   why this write loses no valid instance
DOCUMENT_WRITERS: tuple[tuple[str, str, str, str, str], ...] = (
    ("normaliser", "Schema", "exclusiveMinimum", "*", "3.0 spells an exclusive bound as a flag next to minimum, 3.1 as the number itself: same bound, one spelling"),
    ("normaliser", "Schema", "minimum", "*", "cleared when the bound moved to exclusiveMinimum (same bound)"),
    ("normaliser", "Schema", "exclusiveMaximum", "*", "as exclusiveMinimum"),
    ("normaliser", "Schema", "maximum", "*", "as minimum"),
    ("normaliser", "Schema", "type", "*", "3.0 `nullable: true` respelled as the 3.1 type list: the null type is added, nothing is taken away"),
    ("normaliser", "Schema", "oneOf", "*", "`nullable: true` on a composition: a null member is added"),
    ("normaliser", "Schema", "anyOf", "*", "`nullable: true` on a composition: a null member is added"),
    ("normaliser", "Schema", "allOf", "*", "nullable allOf becomes oneOf[null, allOf]: the allOf list moves into the new member"),
    ("builder", "Schema", "oneOf", "*", "an enum with a null among its values is re-dispatched as a union of null and (a copy holding) the other values"),
    ("builder", "Schema", "enum", "None", "cleared after its values were handed to the copy inside oneOf, so that the re-dispatch sees a union"),
)
_MUTATORS = {"append", "extend", "insert", "remove", "pop", "clear", "update", "add", "discard", "sort", "reverse", "setdefault", "popitem",
             "appendleft", "extendleft", "popleft", "difference_update", "intersection_update", "symmetric_difference_update"}
_VALIDATOR_DECORATORS = {"model_validator", "field_validator", "validator", "root_validator"}


def _document_frame(rep: Report, ix: Any, it: Any) -> None:
    schema = ix.cls("Schema")
    rep.require(schema, "class Schema")
    pkg = schema.module.name.rsplit(".", 1)[0]
    doc = {c.qual: c for c in ix.classes.values() if c.module.name == pkg or c.module.name.startswith(pkg + ".")}

    def doc_classes(e: ast.AST) -> list[Any]:
        av = it.node_av.get(id(e))
        return [doc[t] for t in sorted(getattr(av, "types", ()) or ()) if t in doc]

    def deco(f: Any) -> list[tuple[str, ast.expr]]:
        return [((call_name(d) if isinstance(d, ast.Call) else norm(d)).rsplit(".", 1)[-1], d) for d in f.node.decorator_list]

    validators = [f for f in ix.all_functions if f.cls is not None and f.cls.qual in doc and any(n in _VALIDATOR_DECORATORS for n, _ in deco(f))]
    normalising: dict[str, Any] = {}
    for v in validators:
        for g in region(ix, v):
            normalising.setdefault(g.qual, v)
    found: dict[tuple[str, str, str], list[tuple[str, str]]] = {}      # (role, class, field) -> [(where, value)]

    def note(f: Any, at: ast.AST, recv: ast.AST, fld: str, value: str) -> None:
        role = "normaliser" if f.qual in normalising else "builder"
        for c in doc_classes(recv):
            found.setdefault((role, c.name, fld), []).append((where(f, at), value))

    def field_names(nm: ast.AST | None) -> list[str]:
        if isinstance(nm, ast.Constant) and isinstance(nm.value, str):
            return [nm.value]
        consts = getattr(it.node_av.get(id(nm)), "consts", None) if nm is not None else None
        if consts and all(isinstance(c, str) for c in consts):
            return sorted(consts)
        return ["<computed>"]

    def fields_of(e: ast.AST | None, loc: Locals, depth: int = 0) -> list[tuple[ast.AST, str]]:
        """(document object, field) for every field of a document object that e may be: the field itself, an item of it, a local bound
        to it (directly, as one of a display that is unpacked / iterated, or on one branch of a conditional)"""
        if isinstance(e, ast.Attribute) and doc_classes(e.value):
            return [(e.value, e.attr)]
        if isinstance(e, (ast.Subscript, ast.NamedExpr)):
            return fields_of(e.value, loc, depth)
        if isinstance(e, ast.IfExp):
            return fields_of(e.body, loc, depth) + fields_of(e.orelse, loc, depth)
        if isinstance(e, ast.BoolOp):
            return [x for v in e.values for x in fields_of(v, loc, depth)]
        if isinstance(e, ast.Name) and depth < 3:
            out: list[tuple[ast.AST, str]] = []
            for kind, _, v in loc.defs.get(e.id, []):
                # (a display is a container of its own: only what is taken out of it again - by a loop or by unpacking - is the field)
                taken = kind.startswith("for") or "[" in kind
                for v1 in (v.elts if taken and isinstance(v, (ast.Tuple, ast.List)) else [] if isinstance(v, (ast.Tuple, ast.List)) else [v]):
                    if not isinstance(v1, ast.Starred):
                        out += fields_of(v1, loc, depth + 1)
            return out
        return []

    for f in ix.all_functions:
        loc = Locals(f.node)
        for x in _own(f.node):
            targets: list[tuple[ast.AST, str]] = []
            if isinstance(x, ast.Assign):
                targets = [(t, "None" if isinstance(x.value, ast.Constant) and x.value.value is None else norm(x.value)) for t in x.targets]
            elif isinstance(x, (ast.AugAssign, ast.AnnAssign)) and (isinstance(x, ast.AugAssign) or x.value is not None):
                targets = [(x.target, "None" if isinstance(x.value, ast.Constant) and x.value.value is None else norm(x.value))]
            elif isinstance(x, ast.Delete):
                targets = [(t, "<del>") for t in x.targets]
            for t, val in targets:
                for t1 in (t.elts if isinstance(t, (ast.Tuple, ast.List)) else [t]):
                    if isinstance(t1, ast.Attribute) and doc_classes(t1.value):
                        note(f, x, t1.value, t1.attr, val if t1 is t else "<unpacked>")
                    elif isinstance(t1, ast.Subscript):
                        for obj, fl in fields_of(t1.value, loc):
                            note(f, x, obj, fl, "<item>")
            if not isinstance(x, ast.Call):
                continue
            fn = x.func
            if isinstance(fn, ast.Attribute) and fn.attr in _MUTATORS:
                for obj, fl in fields_of(fn.value, loc):
                    note(f, x, obj, fl, f".{fn.attr}()")
            cn = call_name(x).rsplit(".", 1)[-1]
            if cn in ("setattr", "__setattr__", "delattr", "__delattr__"):
                args = x.args[1:] if cn.startswith("__") and isinstance(fn, ast.Attribute) and norm(fn.value) == "object" else x.args
                if len(args) >= (1 if "del" in cn else 2) and doc_classes(args[0]):
                    # which field: every text the name can be (a constant, or whatever reaches it - a local, a parameter fed by the
                    # calls, an element of a table of names - when the abstract value knows all its values); otherwise <computed>
                    val = "None" if len(args) > 2 and isinstance(args[2], ast.Constant) and args[2].value is None else "<set>"
                    for fl in field_names(args[1] if len(args) > 1 else None):
                        note(f, x, args[0], fl, val)
    # what a validator hands back is what the document holds afterwards: a model validator returns the object it was given (or a copy
    # with named fields replaced: those are written), a field validator the value it was given (otherwise it writes its fields)
    for v in validators:
        names = dict(deco(v))
        params = [a.arg for a in v.params]
        own = params[1] if len(params) > 1 and v.kind in ("classmethod", "method") and params[0] in ("cls", "self") else params[0] if params else None
        if v.kind in ("method", "function") and params and params[0] == "self":
            own = "self"
        d = names.get("field_validator") or names.get("validator")
        fields = [a.value for a in d.args if isinstance(a, ast.Constant) and isinstance(a.value, str)] if isinstance(d, ast.Call) else []
        for r in _own(v.node):
            if not isinstance(r, ast.Return) or (isinstance(r.value, ast.Name) and r.value.id == own):
                continue
            val = r.value
            if fields:
                for fl in fields:
                    found.setdefault(("normaliser", v.cls.name, fl), []).append((where(v, r), norm(val) if val is not None else "None"))
                continue
            upd = next((k.value for k in val.keywords if k.arg == "update"), None) if isinstance(val, ast.Call) and call_name(val).endswith("model_copy") else None
            rep.require(isinstance(upd, ast.Dict) and all(isinstance(k, ast.Constant) and isinstance(k.value, str) for k in upd.keys),
                        f"what the validator {short(v)} returns ({where(v, r)}): the object it validates, or a model_copy(update={{...}}) of it")
            for k, vv in zip(upd.keys, upd.values):
                found.setdefault(("normaliser", v.cls.name, k.value), []).append((where(v, r), "None" if isinstance(vv, ast.Constant) and vv.value is None else norm(vv)))
    rep.floor("document_validators", len(validators), 1)
    rep.floor("document_write_kinds", len(found), 5)
    allowed = {(r, c, fl): val for r, c, fl, val, _ in DOCUMENT_WRITERS}
    for (role, cname, fl), sites in sorted(found.items()):
        want = allowed.get((role, cname, fl))
        bad = [(w, v) for w, v in sites if want is None or (want != "*" and v != want)]
        rep.check(not bad, "R02.11", f"{role}::{cname}.{fl}",
                  f"the field `{fl}` of the parsed document ({cname}) is rewritten in place by a {role}" +
                  (" that is not among the frozen writers" if want is None else f" with another value than {want}") +
                  ": the builders no longer see what the document said, so a value the schema allows (or the way it is to be decoded) can be lost",
                  where=bad[0][0] if bad else sites[0][0], lhs=[f"{w}: {v[:60]}" for w, v in bad[:3]], rhs="one of DOCUMENT_WRITERS")


# ---- R02.12 --------------------------------------------------------------------------------------------------------------------
_STR_TESTS = {"startswith", "endswith", "find", "rfind", "index", "count", "__contains__", "removeprefix", "removesuffix"}
_REMOVALS = {"discard", "remove", "difference", "difference_update"}


def _own_import_named_in_full(rep: Report, ix: Any, it: Any) -> None:
    mp = ix.cls("ModelProperty")
    prod = mp.methods.get("get_lazy_imports")
    rep.require(prod, "ModelProperty.get_lazy_imports")
    locs: dict[str, Locals] = {}
    used: set[str] = {prod.qual}

    def is_model(f: Any, e: ast.AST) -> bool:
        if isinstance(e, ast.Name) and f.cls is not None and mp in ix.mro(f.cls) and f.params and e.id == f.params[0].arg and f.kind in ("method", "property"):
            return True
        av = it.node_av.get(id(e))
        return mp.qual in (getattr(av, "types", ()) or ())

    def text(f: Any, e: ast.AST) -> str:
        """the expression with a receiver that is the model written <model>"""
        if is_model(f, e):
            return "<model>"
        if isinstance(e, ast.Attribute):
            return f"{text(f, e.value)}.{e.attr}"
        return norm(e)

    def seq(f: Any, e: ast.AST | None, depth: int = 0) -> str:
        """the text e evaluates to: literal parts as they are, every other part as {expression}"""
        if isinstance(e, ast.Constant) and isinstance(e.value, str):
            return e.value.replace("{", "{{")
        if depth > 6 or e is None:
            return "{?}"
        if isinstance(e, ast.JoinedStr):
            return "".join(seq(f, v.value if isinstance(v, ast.FormattedValue) and v.conversion == -1 and v.format_spec is None else v, depth + 1)
                           for v in e.values)
        if isinstance(e, ast.BinOp) and isinstance(e.op, ast.Add):
            return seq(f, e.left, depth + 1) + seq(f, e.right, depth + 1)
        if isinstance(e, ast.Name):
            loc = locs.setdefault(f.qual, Locals(f.node))
            ds = loc.defs.get(e.id, [])
            if len(ds) == 1 and ds[0][0] == "assign" and ds[0][2] is not None:
                return seq(f, ds[0][2], depth + 1)
        if isinstance(e, ast.Attribute) and is_model(f, e.value):
            g = next((k.methods[e.attr] for k in ix.mro(mp) if e.attr in k.methods), None)
            if g is not None and g.kind == "property":
                rets = [r for r in _own(g.node) if isinstance(r, ast.Return)]
                if len(rets) == 1:
                    used.add(g.qual)
                    return seq(g, rets[0].value, depth + 1)
        return "{" + text(f, e) + "}"

    def model_holes(t: str) -> list[str]:
        return re.findall(r"\{(<model>[^{}]*)\}", t)

    # what the producer writes from the model: from its first part made from the model to its last
    cores: list[str] = []
    for r in _own(prod.node):
        if isinstance(r, ast.Return) and r.value is not None:
            for el in (r.value.elts if isinstance(r.value, (ast.Set, ast.List, ast.Tuple)) else [r.value]):
                t = seq(prod, el)
                hs = model_holes(t)
                if hs:
                    cores.append(t[t.index("{" + hs[0] + "}"):t.rindex("{" + hs[-1] + "}") + len(hs[-1]) + 2])
    rep.require(cores, "the import line ModelProperty.get_lazy_imports writes from the model's class_info")
    parts = {h for c in cores for h in model_holes(c)}
    n = 0
    for f in ix.all_functions:
        if f.module is not mp.module or f.qual in used:
            continue
        loc = locs.setdefault(f.qual, Locals(f.node))
        inner_params = {a.arg for x in ast.walk(f.node) if isinstance(x, ast.Lambda) for a in x.args.args}

        def element(e: ast.AST, loc: Locals = loc, inner_params: set[str] = inner_params) -> bool:
            if not isinstance(e, ast.Name):
                return False
            ds = loc.defs.get(e.id, [])
            return (bool(ds) and all(k.startswith("for") for k, _, _ in ds)) or (not ds and e.id in inner_params)

        for x in ast.walk(f.node):
            groups: list[tuple[list[ast.AST], bool]] = []      # (operands, is one of them to be an element of an iterated collection)
            if isinstance(x, ast.Compare) and all(isinstance(o, (ast.In, ast.NotIn, ast.Eq, ast.NotEq)) for o in x.ops):
                groups.append(([x.left, *x.comparators], True))
            elif isinstance(x, ast.Call) and isinstance(x.func, ast.Attribute) and x.func.attr in _STR_TESTS:
                groups.append(([x.func.value, *x.args], True))
            elif isinstance(x, ast.Call) and isinstance(x.func, ast.Attribute) and x.func.attr in _REMOVALS:
                groups.append(([y for a in x.args for y in (a.elts if isinstance(a, (ast.Set, ast.List, ast.Tuple)) else [a])], False))
            elif isinstance(x, ast.BinOp) and isinstance(x.op, ast.Sub) and isinstance(x.right, (ast.Set, ast.List, ast.Tuple)):
                groups.append((list(x.right.elts), False))
            for ops, need_el in groups:
                if need_el and not any(element(o) for o in ops):
                    continue
                for o in ops:
                    t = seq(f, o)
                    if not (set(model_holes(t)) & parts):
                        continue
                    n += 1
                    rep.check(any(c in t for c in cores), "R02.12", f"{short(f)}::own-import-named-in-full",
                              f"import lines are tested against / removed by `{t}`, which is only a part of the model's own import "
                              f"`{cores[0]}`: the import of another model whose module or class name merely contains this one's is dropped with "
                              "it, and from_dict / to_dict raise NameError for a value of that model", where(f, x), lhs=t, rhs=cores)
    rep.floor("own_import_tests", n, 1)


# ---- R02.13 --------------------------------------------------------------------------------------------------------------------
def _no_silent_pairing(rep: Report, ix: Any, it: Any) -> None:
    from ..domain import RAW, RAW_NONSTR, _deep_labels

    cache: dict[str, Any] = {}
    for f in ix.all_functions:
        if ".parser.properties" not in f"{f.module.name}.":
            continue
        loc = Locals(f.node)

        def origin(e: ast.AST | None, depth: int = 0, loc: Locals = loc) -> str:
            """the sequence e has its length from"""
            if e is None or depth > 6:
                return "?"
            if isinstance(e, ast.Name):
                ds = loc.defs.get(e.id, [])
                return origin(ds[0][2], depth + 1) if len(ds) == 1 and ds[0][0] in ("assign", "ann") and ds[0][2] is not None else e.id
            if isinstance(e, ast.Subscript) and isinstance(e.slice, ast.Slice):
                return origin(e.value, depth + 1)
            if isinstance(e, (ast.ListComp, ast.GeneratorExp)) and len(e.generators) == 1 and not e.generators[0].ifs:
                return origin(e.generators[0].iter, depth + 1)
            if isinstance(e, ast.Call) and not e.keywords:
                if isinstance(e.func, ast.Attribute) and e.func.attr in ("keys", "values", "items") and not e.args:
                    return origin(e.func.value, depth + 1)
                if isinstance(e.func, ast.Name) and e.func.id in ("list", "tuple", "sorted", "reversed", "enumerate", "iter", "len", "range", "cast") and e.args:
                    return origin(e.args[-1] if e.func.id == "cast" else e.args[0], depth + 1) if len(e.args) == (2 if e.func.id == "cast" else 1) else norm(e)
            return norm(e)

        for c in _own(f.node):
            if not (isinstance(c, ast.Call) and isinstance(c.func, ast.Name) and c.func.id in ("zip", "map")):
                continue
            seqs = c.args if c.func.id == "zip" else c.args[1:]
            if len(seqs) < 2 or any(isinstance(a, ast.Starred) for a in seqs):
                continue
            if any(k.arg == "strict" and isinstance(k.value, ast.Constant) and k.value.value is True for k in c.keywords):
                continue
            if not any({RAW, RAW_NONSTR} & _deep_labels(it.node_av.get(id(y))) for a in seqs for y in ast.walk(a)):      # (what a sequence is made from counts)
                continue
            origins = {origin(a) for a in seqs}

            def compares(n: object, origins: set[str] = origins) -> bool:
                if not isinstance(n, (ast.If, ast.While, ast.Assert)):
                    return False
                for x in ast.walk(n.test):
                    if isinstance(x, ast.Compare):
                        lens = {origin(y.args[0]) for side in [x.left, *x.comparators] for y in ast.walk(side)
                                if isinstance(y, ast.Call) and isinstance(y.func, ast.Name) and y.func.id == "len" and len(y.args) == 1}
                        if origins <= lens:
                            return True
                return False

            st = stmt_of(f.node, c)
            tied = len(origins) == 1 or (st is not None and cfg_of(f, cache).is_dominated_by(st, compares))
            rep.check(tied, "R02.13", f"{short(f)}::walked-in-step[{', '.join(sorted(role_anon(a, f.node) for a in seqs))}]",
                      f"`{norm(c)[:120]}` ends with the shorter of sequences whose lengths nothing ties to each other, and one of them holds values "
                      "of the document: what lies beyond the shorter one is dropped without a diagnostic (an enum value without a member, a "
                      "property without ...), so an instance the schema allows is not decoded", where(f, c), lhs=sorted(origins),
                      rhs="strict=True, one origin, or a comparison of the lengths on every path")


# ---- R02.7 ---------------------------------------------------------------------------------------------------------------------
def _union_fallthrough(rep: Report, jx: Any) -> None:
    ut = jx.templates.get("property_templates/union_property.py.jinja")
    rep.require(ut, "union_property.py.jinja")
    cm = ut.macros.get("construct")
    rep.require(cm, "union construct")
    udefs = _set_defs(ut)
    loc = f"{PKG}/templates/{ut.name}"
    # the loops over the union's members in construct and the macros of the template it calls: over property.inner_properties itself,
    # or over a selection of it handed on in listed order (sa `_member_sel`); a loop whose iterable only mentions the members is one
    # that is not understood.  The decode loops are those that call construct of the member's template.
    mloops: list[tuple[nodes.Macro, nodes.For, Any]] = []
    for m in _macro_region(ut, "construct"):
        for f in m.find_all(nodes.For):
            sel = _member_sel(ut, m, f.iter, udefs)
            if sel is not None or "inner_properties" in expr_text(_inline(f.iter, udefs)):
                mloops.append((m, f, sel))
    rep.require(mloops, "loop over the union's members in construct")
    decode_loops: list[tuple[nodes.Macro, nodes.For, Any, bool, set[str]]] = []
    for m, f, sel in mloops:
        t = expr_text(_inline(f.iter, udefs))
        roles = _loop_roles(f, sel if sel is not None else _WHOLE, udefs)      # (not understood: read as a loop over the members themselves)
        decodes = roles is not None and any(isinstance(c.node, nodes.Getattr) and c.node.attr == "construct" and isinstance(c.node.node, nodes.Name) and
                                            c.node.node.name in roles[1] for c in _calls_in(ut, [f]))
        # every member that has a construct is decoded, in the order listed: the loop takes the members as they are listed, or (a
        # selection) exactly those whose template has a construct
        ok = sel is not None and not sel.disorder and f.test is None and roles is not None and \
            (sel.whole or not decodes or _sel_is(sel, "<tpl>.construct", True))
        rep.check(ok, "R02.8", "union_property.py.jinja::construct::member-loop",
                  "the decode loop does not iterate the members as they are listed" + (f" ({sel.disorder})" if sel is not None and sel.disorder else ""),
                  where=f"{loc}:{f.lineno}", lhs=t,
                  rhs="property.inner_properties (or, in that order, exactly the members whose template has a construct)")
        if decodes:
            decode_loops.append((m, f, sel, ok, roles[1]))
    rep.require(decode_loops, "a loop over the union's members that calls construct of the member's template (imported for it) in union construct")
    n_dec = 0
    for m, ml, sel, ok, aliases in decode_loops:
        n_dec += _fallthrough_of(rep, ut, m, ml, ok, aliases, udefs, loc)
    rep.floor("union_member_decodes", n_dec, 1)


def _fallthrough_of(rep: Report, ut: Any, m: nodes.Macro, ml: nodes.For, loop_ok: bool, aliases: set[str], udefs: dict, loc: str) -> int:
    frs = _region_frags(ut, ml.body)      # (in output order, what the macros of this template printed here print included)

    def is_decode(fr: tplq.Frag) -> bool:
        return fr.kind == "expr" and any(isinstance(c, nodes.Call) and isinstance(c.node, nodes.Getattr) and c.node.attr == "construct" and
                                         isinstance(c.node.node, nodes.Name) and c.node.node.name in aliases for c in [fr.node, *fr.node.find_all(nodes.Call)])

    def whenever(a: tplq.Frag, b: tplq.Frag) -> bool:
        return a.guards == b.guards[:len(a.guards)]   # a is emitted whenever b is

    # the pass-through flag, false only when no member without construct was met: a namespace attribute set to true where the member's
    # template has no construct, or a selection of the members that takes in exactly those without construct (empty = false)
    flags = set()
    for s in _stmt_frags(ml.body, (nodes.Assign,), ti=ut):
        a = s.node
        if isinstance(a.target, nodes.NSRef) and isinstance(a.node, nodes.Const) and a.node.value is True:
            envs = list(_emitted_envs(s, _strip_parens))
            if envs and all(any(env.get(f"{al}.construct") is False for al in aliases) for env in envs):
                flags.add(f"{a.target.name}.{a.target.attr}")
    for cb in m.find_all(nodes.CallBlock):
        for prm in cb.args:
            other = _member_sel(ut, m, nodes.Name(prm.name, "load"), udefs)
            if other is not None and not other.whole and _sel_is(other, "<tpl>.construct", False):
                flags.add(prm.name)
    if not flags and not loop_ok:
        return sum(is_decode(d) for d in frs)     # (the loop's members are already reported: which of them fall through presupposes them)
    rep.require(len(flags) == 1, "the flag recording a member without construct (pass-through) in union construct")
    flag = next(iter(flags))
    n_dec = 0
    for i, d in enumerate(frs):
        if not is_decode(d):
            continue
        n_dec += 1
        fenced = any(t.kind == "data" and re.search(r"^[ \t]*try:", t.text, re.M) and whenever(t, d) for t in frs[:i]) and \
            any(e.kind == "data" and re.search(r"^[ \t]*except\b", e.text, re.M) and whenever(e, d) for e in frs[i + 1:])
        if fenced:
            continue
        bad = None
        for env in _emitted_envs(d, _strip_parens):
            checked = any(env.get(f"{al}.check_type_for_construct", True) for al in aliases)
            if checked and not (env.get("loop.last", False) and not env.get(flag, True)):
                bad = env
                break
        rep.check(bad is None, "R02.7", "union_property.py.jinja::construct::terminal-decode",
                  f"a member is decoded without try/except although another alternative may remain (e.g. {bad}): a value of a pass-through "
                  "member listed before it makes from_dict raise instead of returning the value", where=f"{loc}:{d.line}",
                  lhs=[g for g, _ in d.guards], rhs="no type check, or (loop.last and no pass-through member seen)")
    return n_dec


# ---- the members of a container, and the sequences made from them ----------------------------------------------------------------
class _Sel(NamedTuple):
    """a sequence that holds members of `property.inner_properties`, each at most once, in the order they are listed"""
    alts: tuple           # ((guards, guard nodes), ...): a member is taken in when one of them holds; () for the whole list
    shape: tuple          # what an element is: ("member",) the member itself, else a tuple with "member" / "template" / "?" per position
    member: str = ""      # how the member reads inside the guards (the variable of the loop that selects)
    aliases: frozenset = frozenset()      # how the template imported for the member reads there
    disorder: str = ""    # (not empty: made from the members, but not each at most once in the order listed - why)

    @property
    def whole(self) -> bool:
        return not self.alts


_WHOLE = _Sel((), ("member",))


def _member_sel(ti: Any, m: nodes.Macro, e: Any, defs: dict[str, list[nodes.Node]], depth: int = 0) -> _Sel | None:
    """What the expression `e`, read in macro m, holds of the container's members - None when that is not understood.  Understood:
    `property.inner_properties` itself (also through a set variable); a parameter of a `{% call(...) M(...) %}` block: what M hands
    to `caller(...)` at that position; there, an attribute of a namespace that starts as an empty list and is only ever extended at
    its end (`ns.a = ns.a + [x]`) inside one loop over the whole member list (a single pass keeps the order), x being the member or
    a tuple of the member and the template imported for it: the members for which one of the conditions around those statements
    holds."""
    e = _inline(e, defs)
    if expr_text(e) == "property.inner_properties":
        return _WHOLE
    if depth > 2:
        return None
    if isinstance(e, nodes.Name):
        for cb in m.find_all(nodes.CallBlock):
            idx = next((i for i, a in enumerate(cb.args) if isinstance(a, nodes.Name) and a.name == e.name), None)
            if idx is None:
                continue
            callee = ti.macros.get(cb.call.node.name) if isinstance(cb.call, nodes.Call) and isinstance(cb.call.node, nodes.Name) else None
            if callee is None or callee is m:
                return None
            body = _bind(callee, cb.call)
            handed = [c for n in body for c in n.find_all(nodes.Call) if isinstance(c.node, nodes.Name) and c.node.name == "caller"]
            if not handed or any(c.kwargs or c.dyn_args or c.dyn_kwargs or idx >= len(c.args) for c in handed) or \
                    len({expr_text(c.args[idx]) for c in handed}) != 1:
                return None
            return _collected_sel(ti, callee, body, handed[0].args[idx], defs, depth + 1)
    return None


def _collected_sel(ti: Any, callee: nodes.Macro, body: list[nodes.Node], e: Any, defs: dict[str, list[nodes.Node]], depth: int) -> _Sel | None:
    direct = _member_sel(ti, callee, e, defs, depth)
    if direct is not None:
        return direct
    if not (isinstance(e, nodes.Getattr) and isinstance(e.node, nodes.Name)):
        return None
    ns, attr = e.node.name, e.attr
    inits = [a.node for n in body for a in [n, *n.find_all(nodes.Assign)] if isinstance(a, nodes.Assign) and isinstance(a.target, nodes.Name) and a.target.name == ns]
    if len(inits) != 1 or not (isinstance(inits[0], nodes.Call) and expr_text(inits[0].node) == "namespace"):
        return None
    start = [k.value for k in inits[0].kwargs if k.key == attr]
    if len(start) != 1 or not (isinstance(start[0], (nodes.List, nodes.Tuple)) and not start[0].items):
        return None
    stores = [st for st in _stmt_frags(body, (nodes.Assign,)) if isinstance(st.node.target, nodes.NSRef) and (st.node.target.name, st.node.target.attr) == (ns, attr)]
    loops = [f for n in body for f in [n, *n.find_all(nodes.For)] if isinstance(f, nodes.For)]
    around = {id(f): f for st in stores for f in loops if any(x is st.node for x in f.find_all(nodes.Assign))}
    if not stores or len(around) != 1 or any(len(st.loops) != 1 for st in stores):
        return None       # filled in more than one pass (a partition put together again reorders), or inside nested loops
    f = next(iter(around.values()))
    src = _member_sel(ti, callee, f.iter, defs, depth)
    disorder = ""
    if src is None and "inner_properties" in expr_text(_inline(f.iter, defs)):
        src, disorder = _WHOLE, f"collected in a loop over `{expr_text(_inline(f.iter, defs))}`, not over the members as they are listed"
    roles = _loop_roles(f, src, defs) if src is not None and src.whole else None
    if roles is None:
        return None
    disorder = disorder or src.disorder
    member, aliases = roles
    shapes = set()
    for st in stores:
        v = st.node.node
        own = f"{ns}.{attr}"
        if isinstance(v, nodes.Add) and expr_text(v.right) == own and isinstance(v.left, nodes.List) and len(v.left.items) == 1:
            v, disorder = nodes.Add(v.right, v.left), disorder or "every element is put in front of the ones collected before"
        if not (isinstance(v, nodes.Add) and expr_text(v.left) == own and isinstance(v.right, nodes.List) and len(v.right.items) == 1):
            return None       # (anything but one element put at an end)
        x = v.right.items[0]
        shapes.add(tuple("member" if expr_text(y) == member else "template" if expr_text(y) in aliases else "?"
                         for y in (x.items if isinstance(x, nodes.Tuple) else [x])))
    shape = next(iter(shapes))
    if len(shapes) != 1 or shape.count("member") != 1:
        return None
    return _Sel(tuple((st.guards, st.guard_nodes) for st in stores), shape, member, frozenset(aliases), disorder)


def _loop_roles(f: nodes.For, sel: _Sel, defs: dict[str, list[nodes.Node]]) -> tuple[str, set[str]] | None:
    """(the variable that is the member, the names that are the template imported for it) inside a loop over the sequence `sel`: the
    template is imported in the loop (`{% import "property_templates/" + <member>.template as ... %}`) or comes with the member"""
    t = f.target
    names = [t] if sel.shape == ("member",) else list(t.items) if isinstance(t, nodes.Tuple) and len(t.items) == len(sel.shape) else []
    if len(names) != len(sel.shape) or not all(isinstance(x, nodes.Name) for x in names):
        return None
    member = names[sel.shape.index("member")].name
    aliases = {a for a, x in _inner_aliases(f, defs).items() if x == member} | {x.name for x, r in zip(names, sel.shape) if r == "template"}
    return member, aliases


def _sel_is(sel: _Sel, atom: str, value: bool) -> bool:
    """the selection takes in exactly the members for which `atom` (the member written <m>, its template <tpl>; `x["a"]` is `x.a`) has
    the truth value `value`, whatever else is tested"""
    def natom(t: str) -> str:
        t = re.sub(r"\[(['\"])(\w+)\1\]", r".\2", t)
        for a in sorted(sel.aliases, key=len, reverse=True):
            t = re.sub(rf"(?<![\w.]){re.escape(a)}(?![\w(])", "<tpl>", t)
        if sel.member:
            t = t.replace(sel.member, "<m>")
        return _strip_parens(t)

    raw = [(gn, [a for a in tplq.atoms(gn)]) for _, gnodes in sel.alts for gn in gnodes]
    names = sorted({natom(a) for _, ats in raw for a in ats})
    if atom not in names:
        return False
    for env in tplq.assignments(names):
        taken = any(all(tplq.evaluate(gn, {a: env[natom(a)] for a in tplq.atoms(gn)}) == pol for gn, (_, pol) in zip(gnodes, guards))
                    for guards, gnodes in sel.alts)
        if taken != (env[atom] == value):
            return False
    return True


# ---- R02.8 ---------------------------------------------------------------------------------------------------------------------
_UNORDER_CALLS = {"sorted", "set", "frozenset"}
FWD, REV, LOST = "forward", "reversed", "lost"
Orient = dict      # {FWD | REV | LOST: where it came about}.  {}: nothing with an order of its own (an empty list, one element)


def _own(fn: ast.AST) -> Iterator[ast.AST]:
    """nodes of the function itself, not of the functions / classes nested in it"""
    todo = list(ast.iter_child_nodes(fn))
    while todo:
        n = todo.pop()
        yield n
        if not isinstance(n, (ast.FunctionDef, ast.AsyncFunctionDef, ast.ClassDef, ast.Lambda)):
            todo.extend(ast.iter_child_nodes(n))


def _src(e: ast.AST) -> str:
    while isinstance(e, ast.Call) and isinstance(e.func, ast.Name) and e.func.id in ("enumerate", "list", "tuple", "iter") and e.args:
        e = e.args[0]
    return norm(e)


def _join(*os: Orient) -> Orient:
    out: Orient = {}
    for o in os:
        for k, v in o.items():
            out.setdefault(k, v)
    return out


def _flip(o: Orient, why: str) -> Orient:
    out: Orient = {}
    if FWD in o:
        out[REV] = why
    if REV in o:
        out[FWD] = ""
    if LOST in o:
        out[LOST] = o[LOST]
    return out


def _const_int(e: ast.AST | None) -> int | None:
    if isinstance(e, ast.UnaryOp) and isinstance(e.op, ast.USub) and isinstance(e.operand, ast.Constant) and type(e.operand.value) is int:
        return -e.operand.value
    return e.value if isinstance(e, ast.Constant) and type(e.value) is int else None


def _param_of(h: Any, c: ast.Call, nm: str) -> list[ast.AST]:
    """the argument(s) of the call c of h that parameter nm receives"""
    a = h.node.args
    pos = [x.arg for x in [*a.posonlyargs, *a.args]]
    if h.kind in ("method", "classmethod", "property") and isinstance(c.func, ast.Attribute) and pos:
        pos = pos[1:]     # self / cls is the receiver
    for k in c.keywords:
        if k.arg == nm:
            return [k.value]
    if nm in pos and pos.index(nm) < len(c.args) and not any(isinstance(x, ast.Starred) for x in c.args[:pos.index(nm) + 1]):
        return [c.args[pos.index(nm)]]
    if any(isinstance(x, ast.Starred) for x in c.args) or any(k.arg is None for k in c.keywords) or (a.vararg and a.vararg.arg == nm):
        return [*c.args, *[k.value for k in c.keywords]]
    return []     # left to its default


class _Order:
    """Which way round the sequences on the way to `inner_properties` are, relative to what they were made from.  What comes in (a
    parameter of the root, an attribute) is in document order by definition: FWD.  `reversed(x)` / `x[::-1]` turn a sequence round,
    and so does taking the elements from the end (`pop()`) or putting them in front (`insert(0, ..)`, `appendleft`): two of these
    cancel, one does not.  `sorted` / `set` / `frozenset` / `.sort()` / a position that is not understood lose the order.  A list that
    is consumed and refilled in the same loop is a work list: it keeps the order (depth first) only when it is refilled at the end it
    is consumed at, with a block that lies the same way round as the list.  Parameters of the helpers are what the calls pass."""

    def __init__(self, scope: list[Any], by_name: dict[str, Any], root: Any) -> None:
        self.scope, self.by_name, self.root = scope, by_name, root
        self.table: dict[tuple, Orient] = {}
        self.done: set[tuple] = set()
        self.active: set[tuple] = set()
        self.changed = False
        self._own_nodes: dict[str, list[ast.AST]] = {}
        self._locals: dict[str, Locals] = {}
        self._cfgs: dict[str, Any] = {}

    # -- plumbing
    def own(self, g: Any) -> list[ast.AST]:
        if g.qual not in self._own_nodes:
            self._own_nodes[g.qual] = list(_own(g.node))
        return self._own_nodes[g.qual]

    def defs(self, g: Any, nm: str) -> list[tuple[str, ast.AST, ast.AST | None]]:
        if g.qual not in self._locals:
            self._locals[g.qual] = Locals(g.node)
        ids = {id(n) for n in self.own(g)}
        return [d for d in self._locals[g.qual].defs.get(nm, []) if id(d[1]) in ids]

    def loops_of(self, g: Any, x: ast.AST) -> list[ast.AST]:
        """the loops of g around x, outermost first"""
        hits = [lp for lp in self.own(g) if isinstance(lp, (ast.For, ast.AsyncFor, ast.While)) and lp is not x
                and any(y is x for part in [*lp.body, *lp.orelse] for y in ast.walk(part))]
        return sorted(hits, key=lambda lp: sum(1 for _ in ast.walk(lp)), reverse=True)

    def memo(self, key: tuple, compute: Any) -> Orient:
        if key in self.done or key in self.active:
            return self.table.get(key, {})
        self.active.add(key)
        got = compute()
        self.active.discard(key)
        self.done.add(key)
        new = _join(self.table.get(key, {}), got)
        if new.keys() != self.table.get(key, {}).keys():
            self.changed = True
        self.table[key] = new
        return new

    def solve(self, sites: list[tuple[Any, ast.AST]]) -> list[Orient]:
        res: list[Orient] = []
        for _ in range(8):       # least fixed point: the values only grow ({} for what is being computed further up)
            self.done.clear()
            self.changed = False
            res = [self.expr(g, v) for g, v in sites]
            if not self.changed:
                break
        return res

    # -- consumption
    @staticmethod
    def _takes(c: ast.AST) -> tuple[str, str] | None:
        """(list variable, end) when c takes an element off a list: pop() / pop(-1) at the end, pop(0) / popleft() in front"""
        if not (isinstance(c, ast.Call) and isinstance(c.func, ast.Attribute) and isinstance(c.func.value, ast.Name)) or c.keywords:
            return None
        nm, a = c.func.value.id, c.func.attr
        if a == "popleft" and not c.args:
            return nm, "front"
        if a == "pop" and len(c.args) <= 1:
            k = _const_int(c.args[0]) if c.args else -1
            if k is None:
                return None      # a key (a dict's pop) or a computed position: nothing is known
            return nm, {-1: "end", 0: "front"}.get(k, "?")
        return None

    def taken(self, g: Any, parts: list[ast.AST]) -> Orient:
        """the order in which the pops inside `parts` hand out the elements of their lists"""
        out: Orient = {}
        for part in parts:
            for c in ast.walk(part):
                t = self._takes(c)
                if t is None:
                    continue
                o = self.name(g, t[0])
                out = _join(out, o if t[1] == "front" else _flip(o, f"{where(g, c)}: .pop() takes the elements from the end") if t[1] == "end"
                            else {LOST: f"{where(g, c)}: .pop({norm(c.args[0])}) takes an element from the middle"})
        return out

    def consumed_ends(self, g: Any, lp: ast.AST, nm: str) -> set[str]:
        ends = {t[1] for part in [*lp.body, *lp.orelse] for c in ast.walk(part) for t in [self._takes(c)] if t is not None and t[0] == nm}
        if isinstance(lp, (ast.For, ast.AsyncFor)) and _src(lp.iter) == nm:
            ends.add("front")
        return ends

    def loop_orient(self, g: Any, lp: ast.AST) -> Orient:
        o = self.expr(g, lp.iter) if isinstance(lp, (ast.For, ast.AsyncFor)) else {}
        return _join(o, self.taken(g, [*lp.body, *lp.orelse]))

    # -- values
    def name(self, g: Any, nm: str) -> Orient:
        grows = any(isinstance(c, ast.Call) and isinstance(c.func, ast.Attribute) and isinstance(c.func.value, ast.Name) and c.func.value.id == nm
                    for c in self.own(g))
        if self.defs(g, nm) or (grows and nm not in {a.arg for a in g.params}):
            return self.memo((g.qual, nm), lambda: self.var(g, nm))
        a = g.node.args
        if nm in {x.arg for x in [*g.params, *([a.vararg] if a.vararg else []), *([a.kwarg] if a.kwarg else [])]}:
            return self.memo((g.qual, "<param>", nm), lambda: self.param(g, nm))
        if g.parent is not None and g.parent in self.scope:
            return self.name(g.parent, nm)     # a variable of the enclosing function
        return {}

    def param(self, g: Any, nm: str) -> Orient:
        if g is self.root:
            return {FWD: ""}
        out: Orient = {}
        n_calls = 0
        for g2 in self.scope:
            for c in self.own(g2):
                if isinstance(c, ast.Call) and self.by_name.get(call_name(c).rsplit(".", 1)[-1]) is g:
                    n_calls += 1
                    out = _join(out, *[self.expr(g2, a) for a in _param_of(g, c, nm)])
        return out if n_calls else {FWD: ""}

    def returns(self, h: Any) -> Orient:
        def compute() -> Orient:
            out: Orient = {}
            for r in self.own(h):
                if isinstance(r, ast.Return):
                    out = _join(out, self.expr(h, r.value))
                elif isinstance(r, ast.Yield):
                    out = _join(out, self.placed(h, "", r, {}, front=False))
                elif isinstance(r, ast.YieldFrom):
                    out = _join(out, self.placed(h, "", r, self.expr(h, r.value), front=False))
            return out
        return self.memo((h.qual, "<return>"), compute)

    def expr(self, g: Any, e: ast.AST | None) -> Orient:
        if e is None:
            return {}
        if isinstance(e, ast.Name):
            return self.name(g, e.id)
        if isinstance(e, ast.Attribute):
            return {FWD: ""}
        if isinstance(e, (ast.List, ast.Tuple)):
            return _join(*[self.expr(g, x) for x in e.elts])
        if isinstance(e, ast.Set):
            return {LOST: f"{where(g, e)}: a set display has no order"} if len(e.elts) > 1 else {}
        if isinstance(e, ast.SetComp):
            return {LOST: f"{where(g, e)}: a set comprehension has no order"}
        if isinstance(e, (ast.ListComp, ast.GeneratorExp, ast.DictComp)):
            parts = [e.key, e.value] if isinstance(e, ast.DictComp) else [e.elt]
            return _join(*[self.expr(g, gen.iter) for gen in e.generators], self.taken(g, parts))
        if isinstance(e, ast.Subscript):
            o = self.expr(g, e.value)
            if isinstance(e.slice, ast.Slice) and e.slice.step is not None:
                k = _const_int(e.slice.step)
                if k is None or k == 0:
                    return {LOST: f"{where(g, e)}: a slice with a computed step"}
                return _flip(o, f"{where(g, e)}: [::{k}] turns the sequence round") if k < 0 else o
            return o
        if isinstance(e, ast.BinOp):
            return _join(self.expr(g, e.left), self.expr(g, e.right))
        if isinstance(e, ast.IfExp):
            return _join(self.expr(g, e.body), self.expr(g, e.orelse))
        if isinstance(e, ast.BoolOp):
            return _join(*[self.expr(g, v) for v in e.values])
        if isinstance(e, (ast.NamedExpr, ast.Starred, ast.Await)):
            return self.expr(g, e.value)
        if isinstance(e, ast.Call):
            return self.call(g, e)
        return {}

    def call(self, g: Any, c: ast.Call) -> Orient:
        fn = c.func
        if isinstance(fn, ast.Name):
            if fn.id == "reversed" and c.args:
                return _flip(self.expr(g, c.args[0]), f"{where(g, c)}: reversed(...) turns the sequence round")
            if fn.id in _UNORDER_CALLS:
                return {LOST: f"{where(g, c)}: {fn.id}(...) gives up the order of its argument"}
            if fn.id == "range":
                k = _const_int(c.args[2]) if len(c.args) == 3 else 1
                return {LOST: f"{where(g, c)}: range with a computed step"} if not k else {REV: f"{where(g, c)}: range counts down"} if k < 0 else {FWD: ""}
        h = self.by_name.get(call_name(c).rsplit(".", 1)[-1])
        if h is not None:
            return self.returns(h)      # (its parameters are what the calls pass: `param`)
        recv = [fn.value] if isinstance(fn, ast.Attribute) else []
        return _join(*[self.expr(g, a) for a in [*recv, *c.args, *[k.value for k in c.keywords]]])

    # -- lists that are put together piece by piece
    def placed(self, g: Any, nm: str, at: ast.AST, block: Orient, front: bool, turned: bool = False) -> Orient:
        """what a piece put at the end / in front of the list nm at `at` adds to the list's orientation: `block` is the piece's own
        orientation ({}: one element), `turned`: the piece goes in element by element, i.e. turned round (extendleft)"""
        around: Orient = {}
        for lp in self.loops_of(g, at):
            ends = self.consumed_ends(g, lp, nm) if nm else set()
            if ends:        # a work list: the piece takes the place of the element just taken
                want = "front" if front else "end"
                if ends != {want}:
                    return {LOST: f"{where(g, at)}: a work list that is consumed at its {'/'.join(sorted(ends))} is refilled at its {want}: what is "
                                  "found inside a member comes after the members that follow it"}
                continue
            around = _join(around, self.loop_orient(g, lp))
        # the pieces follow each other as the loops around hand them out - the other way round when each goes in front of the last
        why = f"{where(g, at)}: every piece is put in front of the one before"
        if not front:
            return _join(around, block)
        return _flip(_join(around, block), why) if turned else _join(_flip(around, why), block)

    @staticmethod
    def _operands(v: ast.AST) -> list[ast.AST]:
        if isinstance(v, ast.BinOp) and isinstance(v.op, ast.Add):
            return _Order._operands(v.left) + _Order._operands(v.right)
        if isinstance(v, (ast.List, ast.Tuple)) and any(isinstance(x, ast.Starred) for x in v.elts):
            return [x.value if isinstance(x, ast.Starred) else x for x in v.elts]
        if isinstance(v, ast.Call) and call_name(v).rsplit(".", 1)[-1] in ("chain", "list", "tuple") and not v.keywords:
            return [y for x in v.args for y in _Order._operands(x)] if len(v.args) > 1 or call_name(v) in ("list", "tuple") else [v]
        return [v]

    def var(self, g: Any, nm: str) -> Orient:
        out: Orient = {}
        own = self.own(g)
        for kind, st, v in self.defs(g, nm):
            if kind.startswith("for") or v is None:
                continue            # an element of a sequence
            if kind == "aug":
                out = _join(out, self.placed(g, nm, st, self.expr(g, v), front=False))
                continue
            ops = self._operands(v)
            me = [i for i, x in enumerate(ops) if isinstance(x, ast.Name) and x.id == nm]
            if me and len(ops) > 1 and not kind.startswith("assign["):     # nm = nm + piece / piece + nm
                rest = _join(*[self.expr(g, x) for i, x in enumerate(ops) if i not in me])
                if me == [0] or me == [len(ops) - 1]:
                    out = _join(out, self.placed(g, nm, st, rest, front=me != [0]))
                else:
                    out = _join(out, {LOST: f"{where(g, st)}: pieces are put on both sides of the list"})
            else:
                out = _join(out, self.expr(g, v))
        turns: list[ast.Call] = []
        for c in own:
            if isinstance(c, ast.Assign):
                for t in c.targets:
                    if isinstance(t, ast.Subscript) and isinstance(t.value, ast.Name) and t.value.id == nm and isinstance(t.slice, ast.Slice):
                        lo, hi = t.slice.lower, t.slice.upper
                        if t.slice.step is None and (lo is None or _const_int(lo) == 0) and _const_int(hi) == 0:
                            out = _join(out, self.placed(g, nm, c, self.expr(g, c.value), front=True))
                        elif t.slice.step is None and hi is None and lo is not None and norm(lo) == f"len({nm})":
                            out = _join(out, self.placed(g, nm, c, self.expr(g, c.value), front=False))
                        else:
                            out = _join(out, {LOST: f"{where(g, c)}: a slice of the list is replaced"})
            if not (isinstance(c, ast.Call) and isinstance(c.func, ast.Attribute) and isinstance(c.func.value, ast.Name) and c.func.value.id == nm):
                continue
            a = c.func.attr
            arg = c.args[0] if c.args else None
            if a == "append":
                out = _join(out, self.placed(g, nm, c, {}, front=False))
            elif a == "appendleft":
                out = _join(out, self.placed(g, nm, c, {}, front=True))
            elif a == "extend":
                out = _join(out, self.placed(g, nm, c, self.expr(g, arg), front=False))
            elif a == "extendleft":
                out = _join(out, self.placed(g, nm, c, self.expr(g, arg), front=True, turned=True))
            elif a == "insert" and len(c.args) == 2:
                if _const_int(arg) == 0:
                    out = _join(out, self.placed(g, nm, c, {}, front=True))
                elif norm(arg) == f"len({nm})":
                    out = _join(out, self.placed(g, nm, c, {}, front=False))
                else:
                    out = _join(out, {LOST: f"{where(g, c)}: .insert({norm(arg)}, ...) puts an element at a position that is not understood"})
            elif a == "sort":
                out = _join(out, {LOST: f"{where(g, c)}: .sort() gives up the order"})
            elif a == "reverse":
                turns.append(c)
        if turns:
            # in-place reversal: understood when it happens once, outside any loop, after the list is complete
            c = turns[0]
            st = stmt_of(g.node, c)
            cfg = cfg_of(g, self._cfgs)
            later = cfg.reachable_from(st) - {st} if st is not None else set()
            fills = [stmt_of(g.node, x) for x in own if (isinstance(x, ast.Call) and isinstance(x.func, ast.Attribute) and isinstance(x.func.value, ast.Name)
                                                       and x.func.value.id == nm and x.func.attr in ("append", "appendleft", "extend", "extendleft", "insert"))]
            fills += [d[1] for d in self.defs(g, nm)]
            if len(turns) == 1 and not self.loops_of(g, c) and not any(f is later_st for f in fills for later_st in later):
                out = _flip(out, f"{where(g, c)}: .reverse() turns the list round")
            else:
                out = _join(out, {LOST: f"{where(g, c)}: .reverse() while the list is still being put together"})
        return out


def _member_order(rep: Report, ix: Any) -> None:
    up = ix.cls("UnionProperty")
    build = up.methods.get("build")
    rep.require(build, "UnionProperty.build")
    scope = list(region(ix, build))
    grew = True
    while grew:   # closures of the region
        grew = False
        for h in ix.all_functions:
            if h.parent is not None and h.parent in scope and h not in scope:
                scope.append(h)
                grew = True
    by_name = {g.name: g for g in scope if g is not build}
    seen: set[tuple[str, str]] = set()
    viol: list[str] = []

    def trace(g: Any, e: ast.AST | None) -> None:
        if e is None:
            return
        comps: dict[str, int] = {}
        for n in ast.walk(e):
            if isinstance(n, ast.Call):
                h = by_name.get(call_name(n).rsplit(".", 1)[-1])
                if h is not None and (h.qual, "<return>") not in seen:
                    seen.add((h.qual, "<return>"))
                    for r in _own(h.node):
                        if isinstance(r, ast.Return):
                            trace(h, r.value)
            if isinstance(n, (ast.ListComp, ast.GeneratorExp)):
                comps[_src(n.generators[0].iter)] = comps.get(_src(n.generators[0].iter), 0) + 1
        for s, k in comps.items():
            if k > 1:
                viol.append(f"{where(g, e)}: {k} comprehensions over `{s}` are combined (a partition reorders the members)")
        for nm in sorted(names_in(e)):
            visit(g, nm)

    def visit(g: Any, nm: str) -> None:
        if (g.qual, nm) in seen:
            return
        seen.add((g.qual, nm))
        own = list(_own(g.node))
        own_ids = {id(n) for n in own}
        ds = [d for d in Locals(g.node).defs.get(nm, []) if id(d[1]) in own_ids]
        if not ds:
            # a parameter: what the calls of g pass for it (a parameter of build / a closure variable / a global is an input)
            if g is not build and nm in {a.arg for a in g.params}:
                for g2 in scope:
                    for c in _own(g2.node):
                        if isinstance(c, ast.Call) and by_name.get(call_name(c).rsplit(".", 1)[-1]) is g:
                            for a in _param_of(g, c, nm):
                                trace(g2, a)
            return
        loops = [n for n in own if isinstance(n, (ast.For, ast.AsyncFor, ast.While))]

        def outer_loop(x: ast.AST) -> ast.AST | None:
            hits = [lp for lp in loops if any(y is x for y in ast.walk(lp))]
            return next((lp for lp in hits if not any(lp is not o and any(y is lp for y in ast.walk(o)) for o in hits)), None)

        def pass_of(x: ast.AST, v: ast.AST | None) -> tuple[int, str]:
            if isinstance(v, (ast.ListComp, ast.GeneratorExp)):
                return id(v), _src(v.generators[0].iter)
            lp = outer_loop(x)
            if lp is not None:
                return id(lp), (_src(lp.iter) if isinstance(lp, (ast.For, ast.AsyncFor)) else norm(lp.test))
            return id(x), f"<line {getattr(x, 'lineno', 0)}>"

        passes: list[tuple[int, str]] = []
        for kind, st, v in ds:
            trace(g, v)
            if kind.startswith("for") or "[" in kind or v is None:
                continue   # an element of an iterable / of an unpacked result: not a list assembled here
            if (isinstance(v, ast.List) and not v.elts) or (isinstance(v, ast.Call) and norm(v) == "list()"):
                continue
            passes.append(pass_of(st, v) if isinstance(v, (ast.ListComp, ast.GeneratorExp)) or kind == "aug" else (id(st), norm(v)))
        for c in own:
            if isinstance(c, ast.Call) and isinstance(c.func, ast.Attribute) and isinstance(c.func.value, ast.Name) and c.func.value.id == nm:
                if c.func.attr in ("append", "extend", "appendleft", "extendleft", "insert"):
                    for a in c.args:
                        trace(g, a)
                    passes.append(pass_of(c, c.args[0] if c.func.attr == "extend" and c.args and outer_loop(c) is None else None))
        by_src: dict[str, set[int]] = {}
        for pid, s in passes:
            by_src.setdefault(s, set()).add(pid)
        for s, ids in by_src.items():
            if len(ids) > 1:
                viol.append(f"{short(g)}: a list on the way to inner_properties is filled in {len(ids)} passes over `{s}` (a partition reorders the members)")

    sites = [(g, k.value) for g in scope for c in _own(g.node) if isinstance(c, ast.Call) for k in c.keywords if k.arg == "inner_properties"]
    rep.floor("union_member_list_sites", len(sites), 1)
    for g, v in sites:
        trace(g, v)
    # which way round the list arrives: reversals in even number cancel (a stack that is filled backwards and emptied from its end)
    for o in _Order(scope, by_name, build).solve(sites):
        viol += [f"{o[k]}: {msg}" for k, msg in ((REV, "the members arrive in reverse order"), (LOST, "the order of the members is given up")) if k in o]
    rep.check(not viol, "R02.8", "UnionProperty.build::member-order", "the members of a union are not kept in document order, so decoding tries "
              f"a later (possibly more permissive) member first: {viol[:3]}", where=build.where, lhs=viol[:3], rhs="single passes, no reordering")


# ---- R02.9 ---------------------------------------------------------------------------------------------------------------------
def _imports_parity(rep: Report, ix: Any) -> None:
    mp = ix.cls("ModelProperty")
    cache: dict[str, Any] = {}
    n_sites = 0
    for f in ix.all_functions:
        if f.module is not mp.module or f.name in ("get_imports", "get_lazy_imports"):
            continue
        own_ids = {id(n) for n in _own(f.node)}
        eager = [(r, c) for r, c in receivers(f.node, "get_imports") if id(c) in own_ids and not r.startswith("super()")]
        lazy = [(r, c) for r, c in receivers(f.node, "get_lazy_imports") if id(c) in own_ids]
        if not eager:
            continue
        cfg = cfg_of(f, cache)
        for r, c in eager:
            n_sites += 1
            a = stmt_of(f.node, c)
            ok = any(_always_with(cfg, f.node, a, stmt_of(f.node, c2)) for r2, c2 in lazy if r2 == r)
            rep.check(ok, "R02.9", f"{short(f)}::lazy-imports-with-imports[{role_anon(c.func.value, f.node)}]",
                      f"the imports of `{r}` are collected but, on some path, not its lazy imports: a model class named by the emitted "
                      "decode/encode code (inside a list or union) is never imported and from_dict / to_dict raise NameError",
                      where(f, c), lhs=[where(f, c2) for r2, c2 in lazy if r2 == r], rhs="get_lazy_imports on every path that has get_imports")
    rep.floor("model_import_sites", n_sites, 1)
    # kinds that forward get_imports to inner properties forward get_lazy_imports to the same
    for c in ix.property_classes():
        gi, gl = c.methods.get("get_imports"), c.methods.get("get_lazy_imports")
        if gi is None:
            continue
        fwd = sorted({role_anon(call.func.value, gi.node) for r, call in receivers(gi.node, "get_imports") if not r.startswith("super()")})
        if not fwd:
            continue
        got = sorted({role_anon(call.func.value, gl.node) for r, call in receivers(gl.node, "get_lazy_imports") if not r.startswith("super()")}) if gl else []
        rep.check(set(fwd) <= set(got), "R02.9", f"{c.name}::forwards-lazy-imports", "a container forwards get_imports to its inner properties "
                  "but not get_lazy_imports: models inside it are never imported where from_dict / to_dict name them", gi.where, lhs=got, rhs=fwd)


def _always_with(cfg: Any, fn: ast.AST, a: ast.stmt | None, b: ast.stmt | None) -> bool:
    """every execution of statement a is accompanied by one of b: in the same statement, or b on every path to a (from the function's
    entry and from the head of the loop a sits in), or b on every path from a (to the exit and back to that loop head)"""
    if a is None or b is None:
        return False
    if a is b:
        return True

    def is_b(n: object) -> bool:
        return n is b

    lp = enclosing_loop_body(fn, a)
    before = cfg.every_path_passes(ENTRY, a, is_b) and (lp is None or cfg.every_path_passes(lp, a, is_b))
    after = cfg.every_path_passes(a, EXIT, is_b) and (lp is None or cfg.every_path_passes(a, lp, is_b))
    return before or after


# ---- template helpers -------------------------------------------------------------------------------------------------------------
def _set_defs(ti: Any) -> dict[str, list[nodes.Node]]:
    """definitions of the template's canonical set variables (their canonical name starts with `(`)"""
    d: dict[str, list[nodes.Node]] = {}
    for a in ti.tree.find_all(nodes.Assign):
        if isinstance(a.target, nodes.Name) and a.target.name.startswith("("):
            d.setdefault(a.target.name, []).append(a.node)
    return d


def _inline(n: Any, defs: dict[str, list[nodes.Node]], depth: int = 0) -> Any:
    """copy of the expression in which every set variable with one definition is replaced by that definition"""
    if isinstance(n, nodes.Name):
        ds = defs.get(n.name)
        if ds and depth < 6 and len({expr_text(x) for x in ds}) == 1:
            return _inline(ds[0], defs, depth + 1)
        return n
    if not isinstance(n, nodes.Node):
        return n
    c = copy.copy(n)
    c._orig = _orig(n)
    for fld, v in n.iter_fields():
        if isinstance(v, list):
            setattr(c, fld, [_inline(x, defs, depth) for x in v])
        elif isinstance(v, nodes.Node):
            setattr(c, fld, _inline(v, defs, depth))
    return c


def _orig(n: Any) -> Any:
    """the node of the template's own tree that n is (a copy of): the body of a called macro is read as a copy in which the parameters
    are replaced by the arguments, a printed run of text and holes in pieces around the macros it calls"""
    return getattr(n, "_orig", n)


_SAME_ELEMENTS = {"list", "sort", "reverse"}      # filters that hand on the elements of a sequence themselves


def _mapped_attr(n: Any) -> str | None:
    """`a` for the filter `| map(attribute="a")` (the elements are seen through one attribute, nothing else is done to them)"""
    if not (isinstance(n, nodes.Filter) and n.name == "map" and not n.args and len(n.kwargs) == 1 and n.kwargs[0].key == "attribute"):
        return None
    v = n.kwargs[0].value
    return v.value if isinstance(v, nodes.Const) and isinstance(v.value, str) and re.fullmatch(r"\w+(\.\w+)*", v.value) else None


def _mapped_path(n: Any) -> list[str]:
    """the attributes through which the elements of an iterable are seen, outermost last"""
    out: list[str] = []
    while isinstance(n, nodes.Filter) and n.node is not None:
        a = _mapped_attr(n)
        if a is not None:
            out.insert(0, a)
        elif n.name not in _SAME_ELEMENTS and n.name not in ("selectattr", "rejectattr"):
            break
        n = n.node
    return out


def _strip_parens(t: str) -> str:
    """`(X)` -> `X` while the outer pair encloses the whole text (a set variable reads as its parenthesised definition)"""
    while t.startswith("(") and t.endswith(")"):
        depth = 0
        for i, ch in enumerate(t):
            depth += ch == "("
            depth -= ch == ")"
            if depth == 0 and i < len(t) - 1:
                return t
        t = t[1:-1]
    return t


def _emitted_envs(fr: tplq.Frag, natom: Any) -> Iterator[dict[str, bool]]:
    """the assignments of the fragment's guard atoms under which it is emitted; atoms are identified up to natom (so that a set
    variable and its definition, or the variables of two loops over the same domain, are one atom)"""
    raw = tplq.guard_atoms(fr)
    names: list[str] = []
    for a in raw:
        if natom(a) not in names:
            names.append(natom(a))
    for env in tplq.assignments(names):
        if tplq.guard_holds(fr, {a: env[natom(a)] for a in raw}):
            yield env


@dataclass
class _Stmt(tplq.Frag):
    via: Any = None        # the statement of the walked body through which this one is reached (itself unless it sits in a called macro)
    siblings: Any = None   # the body (list of statements) it belongs to
    scope: Any = None      # the body of the called macro it sits in (parameters replaced by the arguments); None: the walked body itself


def _stmt_frags(body: list[nodes.Node], types: tuple, guards: tuple = (), gnodes: tuple = (), loops: tuple = (), ti: Any = None,
                via: Any = None, scope: Any = None, depth: int = 0) -> Iterator[_Stmt]:
    """like tplq.frags, for statement nodes of the given types (e.g. `set`) instead of output.  With `ti`, a printed call of a macro of
    this template (`{{ m(...) | f }}`) is followed into the macro's body, the parameters replaced by the arguments: the statements of
    the macro are statements of the region, under the guards and loops of the call."""
    for n in body:
        v = via if via is not None else n
        if isinstance(n, nodes.Output) and ti is not None and depth < 4 and any(_bound_body(ti, _unfiltered(x)) is not None for x in n.nodes[:-1]):
            # an output statement that goes on after a printed macro of this template: in output order, the piece up to the call, what
            # the macro prints, the rest
            seg: list[nodes.Node] = []
            for k, x in enumerate(n.nodes):
                seg.append(x)
                mb = _bound_body(ti, _unfiltered(x))
                if mb is not None or k == len(n.nodes) - 1:
                    if isinstance(n, types):
                        piece = nodes.Output(seg, lineno=seg[0].lineno)
                        piece._orig = _orig(n)
                        yield _Stmt("stmt", "Output", piece.lineno, guards, gnodes, loops, piece, v, body, scope)
                    seg = []
                if mb is not None:
                    yield from _stmt_frags(mb, types, guards, gnodes, loops, ti, v, mb, depth + 1)
            continue
        if isinstance(n, types):
            yield _Stmt("stmt", type(n).__name__, n.lineno, guards, gnodes, loops, n, v, body, scope)
        if isinstance(n, nodes.If):
            t = expr_text(n.test)
            yield from _stmt_frags(n.body, types, guards + ((t, True),), gnodes + (n.test,), loops, ti, via, scope, depth)
            neg, gn = guards + ((t, False),), gnodes + (n.test,)
            for el in n.elif_:
                t2 = expr_text(el.test)
                yield from _stmt_frags(el.body, types, neg + ((t2, True),), gn + (el.test,), loops, ti, via, scope, depth)
                neg, gn = neg + ((t2, False),), gn + (el.test,)
            if n.else_:
                yield from _stmt_frags(n.else_, types, neg, gn, loops, ti, via, scope, depth)
        elif isinstance(n, nodes.For):
            g2, n2 = (guards + ((expr_text(n.test), True),), gnodes + (n.test,)) if n.test is not None else (guards, gnodes)
            yield from _stmt_frags(n.body, types, g2, n2, loops + (expr_text(n.iter),), ti, via, scope, depth)
            if n.else_:
                yield from _stmt_frags(n.else_, types, guards, gnodes, loops, ti, via, scope, depth)
        elif isinstance(n, (nodes.With, nodes.Scope, nodes.CallBlock, nodes.FilterBlock, nodes.AssignBlock)):
            yield from _stmt_frags(getattr(n, "body", []), types, guards, gnodes, loops, ti, via, scope, depth)
        elif isinstance(n, nodes.Output) and ti is not None and depth < 4:
            for x in n.nodes:
                mb = _bound_body(ti, _unfiltered(x))
                if mb is not None:
                    yield from _stmt_frags(mb, types, guards, gnodes, loops, ti, v, mb, depth + 1)


def _region_frags(ti: Any, body: list[nodes.Node]) -> list[_Stmt]:
    """like tplq.frags (text and holes in output order), following the macros of the template that the body prints"""
    out: list[_Stmt] = []
    for st in _stmt_frags(body, (nodes.Output,), ti=ti):
        for c in st.node.nodes:
            data = isinstance(c, nodes.TemplateData)
            out.append(_Stmt("data" if data else "expr", c.data if data else expr_text(c), c.lineno, st.guards, st.guard_nodes, st.loops, c,
                             st.via, st.siblings, st.scope))
    return out


def _unfiltered(x: Any) -> Any:
    while isinstance(x, nodes.Filter) and x.node is not None:
        x = x.node
    return x


def _bound_body(ti: Any, call: Any) -> list[nodes.Node] | None:
    """the body of the macro of this template that `call` calls, its parameters replaced by the arguments of the call"""
    if not (isinstance(call, nodes.Call) and isinstance(call.node, nodes.Name) and call.node.name in ti.macros):
        return None
    return _bind(ti.macros[call.node.name], call)


def _bind(m: nodes.Macro, call: nodes.Call) -> list[nodes.Node]:
    params = [a.name for a in m.args]
    binds: dict[str, list[nodes.Node]] = {}
    for pn, d in zip(params[len(params) - len(m.defaults):], m.defaults):
        binds[pn] = [d]
    for pn, a in zip(params, call.args):
        binds[pn] = [a]
    for k in call.kwargs:
        if k.key in params:
            binds[k.key] = [k.value]
    return [_inline(x, binds, 5) for x in m.body]   # depth 5: the arguments themselves are not looked up again


# ---- the texts a template can assemble ----------------------------------------------------------------------------------------------
class _Alt(NamedTuple):
    parts: tuple          # str (literal text) | (expression node, text) (a hole: a value that is not known here)
    guards: tuple         # ((test text, polarity), ...) under which this alternative is the value
    gnodes: tuple


_MAX_ALTS = 64
_EMPTY = _Alt((), (), ())
_HOME, _CALLER = "\0home", "\0caller"
_TEXT_KEEPING_FILTERS = {"indent", "trim", "string"}
Env = dict    # {canonical name of a set variable: its definitions (_Stmt)} of the called macros being looked into


class _Texts:
    """Every value a text-building expression / a run of template statements can take, as alternatives `literal text + holes` with the
    conditions that select them.  Indifferent to how the text is put together: `a + b`, `a ~ b`, `"..%s.." % x`, `"..{}..".format(x)`,
    `x|format`, `A if T else B` (T guards A, `not T` guards B), a set variable (each of its definitions, under the guards of that
    definition), a `set` block, `{% if %}` arms in a body, a call of a macro of this template (parameters replaced by arguments)."""

    def __init__(self, ti: Any, jx: Any = None):
        self.ti = ti
        self.jx = jx      # with the index of all templates, macros imported from another template (constant name) are followed too
        self._top: dict[str, Env] = {}
        self.defs: Env = self.top_defs(ti)
        self._single: dict[tuple, dict[str, list[nodes.Node]]] = {}
        self._imports: dict[str, tuple[dict[str, tuple[Any, nodes.Macro]], dict[str, Any]]] = {}

    def top_defs(self, ti: Any) -> Env:
        if ti.name not in self._top:
            d: Env = {}
            for body in [ti.tree.body] + [m.body for m in ti.macros.values()]:
                for k, v in self.scope_defs(body).items():
                    d.setdefault(k, []).extend(v)
            self._top[ti.name] = d
        return self._top[ti.name]

    @staticmethod
    def scope_defs(body: list[nodes.Node] | None) -> Env:
        out: Env = {}
        for st in _stmt_frags(body or [], (nodes.Assign, nodes.AssignBlock)):
            if isinstance(st.node.target, nodes.Name) and st.node.target.name.startswith("("):
                out.setdefault(st.node.target.name, []).append(st)
        return out

    # the environment of a macro being looked into: its set variables by canonical name, and under keys that are no names
    # (_HOME: the templates whose macros are being followed, innermost last; _CALLER: the body of the call block and its environment)
    def homes(self, env: Env) -> tuple:
        return env.get(_HOME) or (self.ti,)

    def lookup(self, name: str, env: Env) -> list[_Stmt]:
        if name in env:
            return env[name]
        for ti in reversed(self.homes(env)):
            if name in self.top_defs(ti):
                return self.top_defs(ti)[name]
        return []

    def imports_of(self, ti: Any) -> tuple[dict[str, tuple[Any, nodes.Macro]], dict[str, Any]]:
        """({name: (template, macro)} for `{% from "T" import m [as name] %}`, {alias: template} for `{% import "T" as alias %}`) - T constant"""
        if ti.name not in self._imports:
            by_name: dict[str, tuple[Any, nodes.Macro]] = {}
            by_alias: dict[str, Any] = {}
            if self.jx is not None:
                for n in ti.tree.find_all((nodes.FromImport, nodes.Import)):
                    t2 = self.jx.templates.get(n.template.value) if isinstance(n.template, nodes.Const) and isinstance(n.template.value, str) else None
                    if t2 is None:
                        continue
                    if isinstance(n, nodes.Import):
                        by_alias[n.target] = t2
                        continue
                    for x in n.names:
                        orig, alias = x if isinstance(x, tuple) else (x, x)
                        if orig in t2.macros:
                            by_name[alias] = (t2, t2.macros[orig])
            self._imports[ti.name] = (by_name, by_alias)
        return self._imports[ti.name]

    def called(self, call: Any, env: Env) -> tuple[list[nodes.Node], Env] | None:
        """the body of the macro that `call` calls (parameters replaced by the arguments) and the environment to read it in: a macro
        of the template being read, or one it imports by a constant template name"""
        if not isinstance(call, nodes.Call):
            return None
        home = self.homes(env)[-1]
        f = call.node
        hit: tuple[Any, nodes.Macro] | None = None
        if isinstance(f, nodes.Name):
            hit = (home, home.macros[f.name]) if f.name in home.macros else self.imports_of(home)[0].get(f.name)
        elif isinstance(f, nodes.Getattr) and isinstance(f.node, nodes.Name):
            t2 = self.imports_of(home)[1].get(f.node.name)
            hit = (t2, t2.macros[f.attr]) if t2 is not None and f.attr in t2.macros else None
        if hit is None:
            return None
        mb = _bind(hit[1], call)
        env2 = {k: v for k, v in env.items() if k != _CALLER}
        env2.update(self.scope_defs(mb))
        env2[_HOME] = self.homes(env) + (hit[0],) if hit[0] is not home else self.homes(env)
        return mb, env2

    def hole(self, n: Any, env: Env) -> list[_Alt]:
        """a value that is not text assembled here: shown as its expression, set variables with one definition replaced by it"""
        key = tuple(sorted((k, id(v)) for k, v in env.items()))
        if key not in self._single:
            merged: Env = {}
            for ti in self.homes(env):
                merged.update(self.top_defs(ti))
            merged.update({k: v for k, v in env.items() if k not in (_HOME, _CALLER)})
            self._single[key] = {k: [st.node.node for st in v if isinstance(st.node, nodes.Assign)] for k, v in merged.items()}
        return [_Alt(((n, expr_text(_inline(n, self._single[key])) if isinstance(n, nodes.Node) else str(n)),), (), ())]

    @staticmethod
    def _opaque(alts: list[_Alt]) -> bool:
        return all(len(a.parts) == 1 and not isinstance(a.parts[0], str) for a in alts)

    def _seq(self, pieces: list[list[_Alt]], whole: Any, env: Env) -> list[_Alt]:
        out = [_EMPTY]
        for alts in pieces:
            out = [_Alt(x.parts + y.parts, x.guards + y.guards, x.gnodes + y.gnodes) for x in out for y in alts]
            if len(out) > _MAX_ALTS:
                return self.hole(whole, env)
        return out

    def _formatted(self, fmt: nodes.Node, style: str, args: list[nodes.Node], kwargs: dict[str, nodes.Node], whole: nodes.Node, depth: int,
                   env: Env) -> list[_Alt]:
        """fmt % args / fmt.format(*args, **kwargs) for every literal value fmt can take; placeholders `%s`, or `{}` / `{0}` / `{name}`"""
        pat = r"%()s" if style == "%" else r"\{(\w*)\}"
        out: list[_Alt] = []
        for f in self.expr(fmt, depth + 1, env):
            if not all(isinstance(p_, str) for p_ in f.parts):
                return self.hole(whole, env)
            text = "".join(f.parts)
            rest = re.sub(pat, "", text)
            if ("%" in rest) if style == "%" else ("{" in rest or "}" in rest):
                return self.hole(whole, env)    # a placeholder or an escape of a kind not modelled
            pieces: list[list[_Alt]] = []
            pos, auto = 0, 0
            for m in re.finditer(pat, text):
                pieces.append([_Alt((text[pos:m.start()],), (), ())])
                pos = m.end()
                ref = m.group(1)
                if ref in kwargs:
                    pieces.append(self.expr(kwargs[ref], depth + 1, env))
                    continue
                i = int(ref) if ref.isdigit() else auto if ref == "" else len(args)
                auto += ref == ""
                if i >= len(args):
                    return self.hole(whole, env)
                pieces.append(self.expr(args[i], depth + 1, env))
            pieces.append([_Alt((text[pos:],), (), ())])
            out += [_Alt(a.parts, f.guards + a.guards, f.gnodes + a.gnodes) for a in self._seq(pieces, whole, env)]
        return self.hole(whole, env) if self._opaque(out) or len(out) > _MAX_ALTS else out

    def expr(self, n: Any, depth: int = 0, env: Env | None = None) -> list[_Alt]:
        env = env or {}
        if depth > 10 or not isinstance(n, nodes.Node):
            return self.hole(n, env)
        if isinstance(n, nodes.Const):
            return [_Alt((n.value,), (), ())] if isinstance(n.value, str) else self.hole(n, env)
        if isinstance(n, nodes.TemplateData):
            return [_Alt((n.data,), (), ())]
        if isinstance(n, (nodes.Add, nodes.Concat)):
            pieces = [self.expr(x, depth + 1, env) for x in ([n.left, n.right] if isinstance(n, nodes.Add) else n.nodes)]
            return self.hole(n, env) if all(self._opaque(p) for p in pieces) else self._seq(pieces, n, env)
        if isinstance(n, nodes.CondExpr):
            t = expr_text(n.test)
            yes = [_Alt(a.parts, ((t, True),) + a.guards, (n.test,) + a.gnodes) for a in self.expr(n.expr1, depth + 1, env)]
            no_ = [_Alt(a.parts, ((t, False),) + a.guards, (n.test,) + a.gnodes)
                   for a in (self.expr(n.expr2, depth + 1, env) if n.expr2 is not None else [_EMPTY])]
            return self.hole(n, env) if self._opaque(yes + no_) else yes + no_
        if isinstance(n, nodes.Name):
            out: list[_Alt] = []
            for st in self.lookup(n.name, env):
                vals = self.expr(st.node.node, depth + 1, env) if isinstance(st.node, nodes.Assign) else self.body(st.node.body, depth + 1, env)
                out += [_Alt(a.parts, st.guards + a.guards, st.guard_nodes + a.gnodes) for a in vals]
            return self.hole(n, env) if self._opaque(out) or len(out) > _MAX_ALTS else out
        if isinstance(n, nodes.Mod):
            return self._formatted(n.left, "%", list(n.right.items) if isinstance(n.right, nodes.Tuple) else [n.right], {}, n, depth, env)
        if isinstance(n, nodes.Filter) and n.name == "format" and n.node is not None and not n.kwargs:
            return self._formatted(n.node, "%", list(n.args), {}, n, depth, env)
        if isinstance(n, nodes.Call):
            f = n.node
            if isinstance(f, nodes.Getattr) and f.attr == "format":
                return self._formatted(f.node, "{", list(n.args), {k.key: k.value for k in n.kwargs}, n, depth, env)
            if isinstance(f, nodes.Name) and f.name == "caller" and _CALLER in env and not n.args and not n.kwargs:
                cb, cenv = env[_CALLER]       # the body of the call block, read where it was written
                return self.body(cb, depth + 1, cenv)
            got = self.called(n, env)
            if got is not None:
                out = self.body(got[0], depth + 1, got[1])
                return self.hole(n, env) if self._opaque(out) else out
        if isinstance(n, nodes.Filter) and n.node is not None and n.name in _TEXT_KEEPING_FILTERS and self.called(_unfiltered(n), env) is not None:
            return self.expr(n.node, depth + 1, env)      # (layout of a macro's text: the statements it prints are the same)
        return self.hole(n, env)

    def body(self, body: list[nodes.Node], depth: int = 0, env: Env | None = None) -> list[_Alt]:
        """the texts a run of statements prints (loops and blocks with their own semantics are holes)"""
        env = env or {}
        pieces: list[list[_Alt]] = []
        for n in body:
            if isinstance(n, nodes.Output):
                pieces += [self.expr(x, depth + 1, env) for x in n.nodes]
            elif isinstance(n, nodes.If):
                arms: list[_Alt] = []
                neg: tuple = ()
                negn: tuple = ()
                for test, arm in [(n.test, n.body)] + [(el.test, el.body) for el in n.elif_]:
                    t = expr_text(test)
                    arms += [_Alt(a.parts, neg + ((t, True),) + a.guards, negn + (test,) + a.gnodes) for a in self.body(arm, depth + 1, env)]
                    neg, negn = neg + ((t, False),), negn + (test,)
                arms += [_Alt(a.parts, neg + a.guards, negn + a.gnodes) for a in self.body(n.else_ or [], depth + 1, env)]
                pieces.append(arms)
            elif isinstance(n, nodes.CallBlock):
                got = self.called(n.call, env)
                if got is None:
                    pieces.append(self.hole(n, env))
                else:        # the macro's body, `caller()` standing for the body of the block
                    pieces.append(self.body(got[0], depth + 1, {**got[1], _CALLER: (n.body, env)}))
            elif isinstance(n, (nodes.For, nodes.FilterBlock, nodes.Include, nodes.Block)):
                pieces.append(self.hole(n, env))
            elif isinstance(n, (nodes.With, nodes.Scope)):
                pieces.append(self.body(n.body, depth + 1, env))
        return self._seq(pieces, nodes.Const("<statements>"), env)

    @staticmethod
    def render(alt: _Alt) -> tuple[str, list[str]]:
        """the alternative as text, hole k written \\x00k\\x01; and the texts of the holes"""
        holes: list[str] = []
        out = ""
        for p_ in alt.parts:
            if isinstance(p_, str):
                out += p_
            else:
                out += f"\x00{len(holes)}\x01"
                holes.append(p_[1])
        return out, holes


@dataclass
class _PopForm:
    frag: _Stmt                # where it is assembled, with every condition that selects this form as a guard
    text: str                  # d.pop("<property.name>", UNSET)
    key: str | None            # text of the expression that fills the whole "..." of the first argument; None: another shape
    default: str | None        # second argument
    printed: bool              # the text reaches the output: assembled in an output statement, or in a variable that one prints / passes on


def _pop_forms(ti: Any, texts: _Texts) -> list[_PopForm]:
    """every `d.pop(...)` the template's top level (with the macros it prints) can assemble, one per value of the assembling site"""
    sites: list[tuple[_Stmt, list[_Alt]]] = []
    seen: set[int] = set()

    def maximal(st: _Stmt, e: Any, env: Env) -> None:
        # the largest sub-expressions that evaluate to a pop text; a bare variable only refers to a site, it is none
        if not isinstance(e, nodes.Node) or id(e) in seen:
            return
        if not isinstance(e, nodes.Name):
            alts = texts.expr(e, 0, env)
            if any("d.pop(" in p_ for a in alts for p_ in a.parts if isinstance(p_, str)):
                seen.add(id(e))
                sites.append((st, alts))
                return
        for ch in e.iter_child_nodes():
            maximal(st, ch, env)

    envs: dict[int, Env] = {}
    stmts = list(_stmt_frags(ti.tree.body, (nodes.Assign, nodes.AssignBlock, nodes.Output), ti=ti))
    in_block = {id(_orig(o)) for st in stmts if isinstance(st.node, nodes.AssignBlock) for o in st.node.find_all(nodes.Output)}
    for st in stmts:
        n = st.node
        env = envs.setdefault(id(st.scope), texts.scope_defs(st.scope))
        if isinstance(n, nodes.Assign):
            maximal(st, n.node, env)
        elif isinstance(n, nodes.AssignBlock):
            if id(n) not in seen:
                seen.add(id(n))
                sites.append((st, texts.body(n.body, 0, env)))
        elif id(_orig(n)) not in in_block:
            for x in n.nodes:
                if isinstance(x, nodes.TemplateData):
                    if "d.pop(" in x.data and id(st.siblings) not in seen:
                        seen.add(id(st.siblings))
                        sites.append((st, texts.body(st.siblings, 0, env)))
                elif _bound_body(ti, _unfiltered(x)) is None:    # (a printed macro of this template is walked as statements)
                    maximal(st, x, env)
    # names whose value is printed, or passed on in a printed expression: read in an output statement, or in the definition of such a name
    printed: set[str] = set()
    grew = True
    while grew:
        grew = False
        for st in stmts:
            if isinstance(st.node, nodes.Output) or (isinstance(st.node.target, nodes.Name) and st.node.target.name in printed):
                for nm in st.node.find_all(nodes.Name):
                    if nm.ctx == "load" and nm.name not in printed:
                        printed.add(nm.name)
                        grew = True
    forms: list[_PopForm] = []
    for st, alts in sites:
        is_printed = isinstance(st.node, nodes.Output) or (isinstance(st.node.target, nodes.Name) and st.node.target.name in printed)
        for a in alts:
            fr = _Stmt(st.kind, st.text, st.line, st.guards + a.guards, st.guard_nodes + a.gnodes, st.loops, st.node, st.via, st.siblings, st.scope)
            if not any(True for _ in _emitted_envs(fr, lambda t: t)):
                continue   # contradictory conditions: never the value
            txt, holes = texts.render(a)
            for m in re.finditer(r"\bd\.pop\(", txt):
                call = _call_text(txt, m.start(), m.end() - 1)
                sm = re.fullmatch(r'd\.pop\(\s*"\x00(\d+)\x01"\s*(?:,\s*([^,()]+?)\s*)?\)', call)
                shown = re.sub(r"\x00(\d+)\x01", lambda h: f"<{holes[int(h.group(1))]}>", call)
                forms.append(_PopForm(fr, shown, holes[int(sm.group(1))] if sm else None, sm.group(2) if sm else None, is_printed))
    return forms


def _call_text(t: str, start: int, i: int) -> str:
    """t[start:] up to the parenthesis that closes the one at t[i] (string literals are skipped)"""
    depth, q, j = 0, "", i
    while j < len(t):
        ch = t[j]
        if q:
            if ch == "\\":
                j += 1
            elif ch == q:
                q = ""
        elif ch in "\"'":
            q = ch
        elif ch in "([{":
            depth += 1
        elif ch in ")]}":
            depth -= 1
            if depth == 0:
                return t[start:j + 1]
        j += 1
    return t[start:]


def _hole_text(n: nodes.Node, defs: dict[str, list[nodes.Node]]) -> str:
    """what an output expression prints: constant parts as text, everything else as <expression>"""
    return "".join(str(p.value) if isinstance(p, nodes.Const) else f"<{expr_text(p)}>" for p in _flatten_add(_inline(n, defs)))


def _render(fr: tplq.Frag, defs: dict[str, list[nodes.Node]]) -> str:
    return fr.text if fr.kind == "data" else _hole_text(fr.node, defs)


def _macro_region(ti: Any, name: str) -> list[nodes.Macro]:
    """the macro and the macros of the same template it calls (transitively)"""
    seen: list[str] = []
    todo = [name]
    while todo:
        m = todo.pop()
        if m in seen or m not in ti.macros:
            continue
        seen.append(m)
        todo += [c.node.name for c in ti.macros[m].find_all(nodes.Call) if isinstance(c.node, nodes.Name)]
    return [ti.macros[m] for m in seen]


def _calls_in(ti: Any, body: list[nodes.Node], depth: int = 0) -> Iterator[nodes.Call]:
    """every call made in the statements `body`, those made by the macros of this template called there included (read with the
    parameters replaced by the arguments, so that a template or a property handed to a private macro is still the caller's)"""
    for n in body:
        for c in [n, *n.find_all(nodes.Call)]:
            if isinstance(c, nodes.Call):
                yield c
                mb = _bound_body(ti, c) if depth < 4 else None
                if mb is not None:
                    yield from _calls_in(ti, mb, depth + 1)


def _inner_aliases(m: nodes.Macro, defs: dict[str, list[nodes.Node]]) -> dict[str, str]:
    """{alias: text of X} for every `{% import "property_templates/" + X.template as alias %}` of the macro"""
    out: dict[str, str] = {}
    for imp in m.find_all(nodes.Import):
        parts = _flatten_add(_inline(imp.template, defs))
        if len(parts) == 2 and isinstance(parts[0], nodes.Const) and str(parts[0].value).endswith("property_templates/") and \
                isinstance(parts[1], nodes.Getattr) and parts[1].attr == "template":
            out[imp.target] = expr_text(parts[1].node)
    return out


def _delegated(ti: Any, macro: str) -> set[str]:
    """the macros of the inner property's template that are called with the inner property, reachable from `macro`"""
    defs = _set_defs(ti)
    got: set[str] = set()
    for m in _macro_region(ti, macro):
        # {name of the template: the inner property it was imported for}: imported here for property.inner_propert..., or handed on
        # together with the member in a sequence made from the members (sa `_member_sel`)
        al = {a: x for a, x in _inner_aliases(m, defs).items() if x.startswith("property.inner_propert")}
        for f in m.find_all(nodes.For):
            sel = _member_sel(ti, m, f.iter, defs)
            roles = _loop_roles(f, sel, defs) if sel is not None else None
            for a in (roles[1] if roles else ()):
                al.setdefault(a, roles[0])
        for c in _calls_in(ti, m.body):
            if isinstance(c.node, nodes.Getattr) and isinstance(c.node.node, nodes.Name) and c.node.node.name in al:
                x = al[c.node.node.name]
                first = c.args[0] if c.args else next((k.value for k in c.kwargs if k.key == "property"), None)
                if first is not None and expr_text(_inline(first, defs)) == x:
                    got.add(c.node.attr)
    return got


def _flatten_add(n: Any) -> list[Any]:
    if isinstance(n, nodes.Add):
        return _flatten_add(n.left) + _flatten_add(n.right)
    if isinstance(n, nodes.Concat):
        out: list[Any] = []
        for x in n.nodes:
            out += _flatten_add(x)
        return out
    return [n]


def _cv(ix: Any, c: Any, name: str) -> tuple[Any, Any]:
    r = ix.find_classvar(c, name)
    if r is None:
        return (c.module, ast.Constant(value=None))
    return (r[0].module, r[1])


def _macro_of(ti: Any, node: Any) -> str:
    for mn, m in ti.macros.items():
        if any(x is node for x in m.find_all(type(node))):
            return mn
    return "<top>"
