"""C02 - model decode/encode is a lossless JSON round trip (structural clauses only)."""
from __future__ import annotations

import ast
import re
from typing import Any

from jinja2 import nodes

from .. import tplq
from ..astutil import norm
from ..core import PKG, Report
from ..jinja_interp import expr_text

LEVEL = ("structural clauses that are necessary for the round trip (the behaviour itself - equality of run-time values - is not "
         "decided): writers and readers of a model use the same wire-key expression, in a string context, over the same "
         "property domain; every kind whose Python type differs from its JSON type defines both directions and converts; "
         "additional properties are merged before the declared keys and from_dict keeps the remainder; to_dict builds a fresh "
         "dict; Unset handling is by isinstance (shared with C10).")


def run(rep: Report, ctx: Any) -> str:
    ix = ctx.py
    jx = ctx.jinja
    it, ji = ctx.flow
    rep.rule("R02.1", "writer/reader key agreement: field_dict.update({...}), field_dict[...] =, d.pop(...) (both forms) use the same "
                      "wire-key expression inside a \"...\" literal, the Python side is python_name everywhere, all iterate the same domain")
    rep.rule("R02.2", "both directions exist for every non-identity kind: if the Python type differs from the JSON type the template "
                      "defines construct and transform; construct_function is routed through construct_template")
    rep.rule("R02.3", "plain JSON out: for non-identity kinds the value assigned on the present path is a conversion of the source, "
                      "never the bare source")
    rep.rule("R02.4", "additional properties: merged before the declared-key update; from_dict assigns the remainder of d")
    rep.rule("R02.5", "to_dict returns a fresh dict: field_dict is only ever bound to a new empty dict (internal state is copied, not aliased)")
    mt = jx.templates.get("model.py.jinja")
    rep.require(mt, "model.py.jinja")
    td = mt.macros.get("_to_dict")
    rep.require(td, "_to_dict")

    # ---- R02.1 -----------------------------------------------------------------------------------------------------
    # template-bound variables are canonical (sa/jinja_canon.py): the loop variable over the model's properties reads `DOM[*]`
    dom = "(model.required_properties + model.optional_properties)"
    pvars = {f"{dom}[*]", "model.optional_properties[*]", "model.required_properties[*]"}

    def strip_pv(t: str) -> str:
        for v in sorted(pvars, key=len, reverse=True):
            t = t.replace(v, "<p>")
        return t

    key_sites = []
    for e in ji.emissions.values():
        if e.template != "model.py.jinja":
            continue
        if e.kind.endswith('STR1"') and e.hole.endswith(".name") and strip_pv(e.hole).startswith("<p>."):
            key_sites.append(e)
    by_place = {}
    for e in key_sites:
        by_place.setdefault((e.macro, e.expr, e.ordinal), e)
    rep.floor("wire_key_sites", len(by_place), 2)
    exprs = {strip_pv(e.hole) for e in by_place.values()}
    rep.check(exprs == {"<p>.name"}, "R02.1", "model.py.jinja::wire-key-expression",
              f"writers and readers disagree on the wire key: {sorted(exprs)}", where=f"{PKG}/templates/model.py.jinja",
              lhs=sorted(exprs), rhs=["<property>.name"])
    places = {(e.macro, strip_pv(e.expr)) for e in by_place.values()}
    rep.check(("_to_dict", "<p>.name") in places and any(m == "<top>" and "d.pop(" in x for m, x in places), "R02.1",
              "model.py.jinja::both-writers-and-reader", "a writer (to_dict) or the reader (from_dict pops) no longer keys by property.name",
              where=f"{PKG}/templates/model.py.jinja", lhs=sorted(places), rhs="_to_dict x2 + the d.pop(...) source")
    # the reader really pops the key: fragments 'd.pop("' + name + '")' (the variable holding them may have any name)
    pops = [n for n in mt.tree.find_all(nodes.Assign) if isinstance(_flatten_add(n.node)[0], nodes.Const) and
            str(_flatten_add(n.node)[0].value).startswith("d.pop(")]
    rep.floor("pop_forms", len(pops), 2)
    for n in pops:
        txt = expr_text(n.node)
        parts = _flatten_add(n.node)
        shape = len(parts) == 3 and isinstance(parts[0], nodes.Const) and parts[0].value == 'd.pop("' and strip_pv(expr_text(parts[1])) == "<p>.name" \
            and isinstance(parts[2], nodes.Const) and parts[2].value in ('")', '", UNSET)')
        rep.check(shape, "R02.1", f"model.py.jinja::pop[{'optional' if 'UNSET' in txt else 'required'}]",
                  "from_dict does not pop the key written by to_dict", where=f"{PKG}/templates/model.py.jinja:{n.lineno}", lhs=txt,
                  rhs="'d.pop(\"' + property.name + '\"...)'")
    # python side: python_name everywhere; same domain
    loops = [(expr_text(f.iter), f) for f in mt.tree.find_all(nodes.For)]
    prop_loops = [l for l in loops if "properties" in l[0] and "additional" not in l[0]]
    rep.floor("property_loops", len(prop_loops), 6)
    for txt, f in prop_loops:
        ok = txt == dom or (txt == "model.optional_properties" and any(
            isinstance(x, nodes.If) and expr_text(x.test) == "(not model.optional_properties[*].required)" for x in f.body))
        rep.check(ok, "R02.1", f"model.py.jinja::domain[{txt}]@{_macro_of(mt, f)}",
                  "a loop over the model's properties iterates another domain than required + optional (a property would be written but "
                  "not read, or the reverse)", where=f"{PKG}/templates/model.py.jinja:{f.lineno}", lhs=txt, rhs=dom)
    kw = [fr for fr in tplq.frags(mt.tree.body) if fr.kind == "expr" and fr.text == f"{dom}[*].python_name" and fr.loops == (dom,)]
    rep.check(len(kw) >= 2, "R02.1", "model.py.jinja::constructor-keywords", "cls(...) is not called with python_name=python_name for every property",
              where=f"{PKG}/templates/model.py.jinja", lhs=len(kw), rhs=">= 2 holes in the keyword list")

    # ---- R02.2 / R02.3 ----------------------------------------------------------------------------------------------------
    n_k = 0
    proto = ix.cls("PropertyProtocol")
    for c in ix.property_classes():
        tname = ix.const_str(*_cv(ix, c, "template")) or ""
        ti = jx.templates.get("property_templates/" + tname)
        rep.require(ti, f"template of {c.name}")
        ts = ix.const_str(*_cv(ix, c, "_type_string"))
        js = ix.const_str(*_cv(ix, c, "_json_type_string"))
        jd = _cv(ix, c, "json_is_dict")
        json_is_dict = isinstance(jd[1], ast.Constant) and jd[1].value is True
        overrides_json = any("get_base_json_type_string" in k.methods for k in ix.mro(c) if k is not proto) or \
            any("get_base_type_string" in k.methods for k in ix.mro(c) if k is not proto)
        differs = (ts != js) or json_is_dict or overrides_json
        if c.name in ("ConstProperty",):
            differs = False  # Literal[...] of a JSON scalar: same representation
        if c.name == "LiteralEnumProperty":
            differs = False  # a Literal of str/int values: identity on the wire, construct only checks membership
        n_k += 1
        if differs:
            has_c, has_t = "construct" in ti.macros, "transform" in ti.macros
            rep.check(has_c and has_t, "R02.2", f"{c.name}::both-directions",
                      f"the Python type ({ts or 'computed'}) differs from the JSON type ({js or 'computed'}) but {tname} defines "
                      f"construct={has_c}, transform={has_t}: the missing direction silently becomes the identity", where=f"{PKG}/templates/{ti.name}",
                      lhs=[has_c, has_t], rhs=[True, True])
            if has_t and c.name not in ("UnionProperty", "ListProperty"):
                # what is assigned to the destination: the expression emitted right after `<destination> = ` (a canonical set variable
                # reads as the text of its definition)
                tf = list(tplq.macro_frags(ti, "transform"))
                sets = sorted({tf[i + 2].text for i in range(len(tf) - 2) if tf[i].kind == "expr" and tf[i].text == "destination"
                               and tf[i + 1].kind == "data" and tf[i + 1].text.strip() == "=" and tf[i + 2].kind == "expr"})
                data = "".join(f.text for f in tf if f.kind == "data")
                converts = any(s not in ("source", "(source)") for s in sets) or bool(re.search(r"\}\}?\.\w+\(", data)) or ".to_tuple()" in data or ".value" in "".join(sets)
                rep.check(converts, "R02.3", f"{c.name}::transform-converts", "transform assigns the bare source: a rich Python object would be "
                          "emitted as JSON", where=f"{PKG}/templates/{ti.name}", lhs=sets, rhs="a conversion of the source")
        if "construct_function" in ti.macros:
            cons = ti.macros.get("construct")
            routed = cons is not None and any(isinstance(c2, nodes.Call) and expr_text(c2.node) == "construct_template" and c2.args and
                                              expr_text(c2.args[0]) == "construct_function" for c2 in cons.find_all(nodes.Call))
            rep.check(routed, "R02.2", f"{c.name}::construct-routed", "construct does not go through construct_template(construct_function, ...)",
                      where=f"{PKG}/templates/{ti.name}", lhs=None, rhs="construct_template(construct_function, property, source)")
    rep.floor("property_kinds", n_k, 16)
    # list / union delegate to the inner template in both directions
    for tn in ("list_property.py.jinja", "union_property.py.jinja"):
        ti = jx.templates.get("property_templates/" + tn)
        txt = " ".join(expr_text(c2) for c2 in ti.tree.find_all(nodes.Call))
        rep.check("inner_template.construct(" in txt and "inner_template.transform(" in txt, "R02.2", f"{tn}::delegates-both-directions",
                  "a container no longer delegates construct and transform to its inner template", where=f"{PKG}/templates/{ti.name}")

    # ---- R02.4 / R02.5 ---------------------------------------------------------------------------------------------------------
    frs = list(tplq.frags(td.body))
    upd_add = next((f for f in frs if f.kind == "data" and "field_dict.update(self.additional_properties)" in f.text), None)
    loop_add = next((f for f in frs if f.kind == "data" and "for prop_name, prop in self.additional_properties.items()" in f.text), None)
    upd_decl = next((f for f in frs if f.kind == "data" and "field_dict.update({" in f.text), None)
    rep.check(upd_add is not None and loop_add is not None and upd_decl is not None and max(upd_add.line, loop_add.line) < upd_decl.line, "R02.4",
              "model.py.jinja::_to_dict::additional-before-declared", "additional properties are not merged before the declared keys (a declared key "
              "could be overwritten by an undeclared one)", where=f"{PKG}/templates/model.py.jinja:{td.lineno}")
    top = list(tplq.frags(mt.tree.body))
    rem = [f for f in top if f.kind == "data" and re.search(r"\.additional_properties = (d|additional_properties)\b", f.text)]
    rep.check(len(rem) >= 1 and any(re.search(r"\.additional_properties = d\b", f.text) for f in rem), "R02.4",
              "model.py.jinja::from_dict::remainder", "from_dict does not keep the remainder of the popped dict as additional properties",
              where=f"{PKG}/templates/model.py.jinja")
    binds = []
    for f in frs:
        if f.kind == "data":
            for line in f.text.splitlines():
                m = re.match(r"\s*field_dict(\s*:\s*[^=]+)?\s*=\s*(.+)$", line)
                if m and not line.strip().startswith("field_dict["):
                    binds.append(m.group(2).strip())
    rep.check(bool(binds) and all(b == "{}" for b in binds), "R02.5", "model.py.jinja::_to_dict::fresh-dict",
              f"field_dict is bound to {binds}: the dict returned by to_dict aliases internal state, so encoding mutates the object",
              where=f"{PKG}/templates/model.py.jinja:{td.lineno}", lhs=binds, rhs=["{}"])
    rets = [f for f in frs if f.kind == "data" and "return field_dict" in f.text]
    rep.check(len(rets) == 1 and not rets[0].guards, "R02.5", "model.py.jinja::_to_dict::returns-field_dict", "to_dict does not return field_dict",
              where=f"{PKG}/templates/model.py.jinja")
    # Unset handling by isinstance (shared with C10 R10.2)
    pm = jx.templates.get("property_templates/property_macros.py.jinja")
    ct = "".join(f.text for f in tplq.macro_frags(pm, "construct_template") if f.kind == "data")
    rep.check(bool(re.search(r"if isinstance\(_\s*,\s*Unset\)|if isinstance\(_,  Unset\)", ct.replace("{{ property.python_name }}", ""))) or
              "isinstance(_" in ct and "Unset)" in ct, "R02.2", "construct_template::unset-by-isinstance",
              "optional values are recognised as absent by something other than isinstance(..., Unset): present falsy values ({} / 0 / '') "
              "would be decoded as UNSET", where=f"{PKG}/templates/{pm.name}", lhs=ct.strip()[:120], rhs="if isinstance(_x, Unset)")
    from .c15 import check_no_parent_mutation

    rep.rule("R02.6", "a composed (allOf) child never mutates the property objects it inherits: the parent's own decode/encode is unchanged")
    check_no_parent_mutation(rep, ctx, "R02.6")
    rep.not_decided += ["that construct(transform(x)) == x on values (isoparse(x.isoformat()), union branch order, recursion)"]
    return LEVEL


def _flatten_add(n: Any) -> list[Any]:
    if isinstance(n, nodes.Add):
        return _flatten_add(n.left) + _flatten_add(n.right)
    if isinstance(n, nodes.Concat):
        out: list[Any] = []
        for x in n.nodes:
            out += _flatten_add(x)
        return out
    return [n]


def _cv(ix: Any, c: Any, name: str) -> tuple[Any, Any]:
    r = ix.find_classvar(c, name)
    if r is None:
        return (c.module, ast.Constant(value=None))
    return (r[0].module, r[1])


def _macro_of(ti: Any, node: Any) -> str:
    for mn, m in ti.macros.items():
        if any(x is node for x in m.find_all(type(node))):
            return mn
    return "<top>"
