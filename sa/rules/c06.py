"""C06 - every failure is a diagnostic: the generator never crashes or hangs."""
from __future__ import annotations

import ast
import builtins
from typing import Any

from ..astutil import call_name, cfg_of, norm, short, stmt_calls, where
from ..cfg import CFG, EXIT, walk_own
from ..core import PKG, Report
from ..domain import RAW, RAW_NONSTR, UNKNOWN
from ..pyindex import FuncInfo, dotted

LEVEL = ("absence properties over the call graph and per-function CFGs: (1) every explicit raise is one of the recognised "
         "protocols or is caught on every call path from the entry points; (2) every raising library call the repository "
         "applies to document-derived operands (table) sits in a try that catches what it can raise, code that runs inside "
         "pydantic validation raises only what pydantic wraps, untrusted Any values are not returned as containers unchecked; "
         "(3) every dynamic template dispatch is total; (4) every loop / recursive cycle matches a recognised ranking pattern; "
         "(5) exit status and no-write-on-rejection on the CFGs of cli.handle_errors / generate / Project.build.")

# exceptions raised by the calls the repository makes on document-derived operands  (callee suffix -> exception names)
MAY_RAISE = {
    "int": ("ValueError", "OverflowError"),
    "float": ("ValueError",),
    "HTTPStatus": ("ValueError",),
    "UUID": ("ValueError",),
    "isoparse": ("ValueError",),
    "json.loads": ("JSONDecodeError",),
    "decode": ("UnicodeDecodeError",),
    "load": ("YAMLError",),           # ruamel YAML(...).load
    "model_validate": ("ValidationError",),
    "index": ("ValueError",),
}
# how external exception classes relate to builtin ones (for handler matching)
EXT_BASES = {
    "ValidationError": "ValueError", "JSONDecodeError": "ValueError", "YAMLError": "Exception",
    "CalledProcessError": "Exception", "HTTPError": "Exception", "NetworkError": "Exception", "Exit": "Exception",
    "BadParameter": "Exception",
}
PYDANTIC_WRAPS = ("ValueError", "AssertionError")


def is_sub(exc: str, handler: str) -> bool:
    """exc is caught by `except handler`"""
    e = exc.rsplit(".", 1)[-1]
    h = handler.rsplit(".", 1)[-1]
    seen = set()
    while e and e not in seen:
        if e == h:
            return True
        seen.add(e)
        if hasattr(builtins, e) and isinstance(getattr(builtins, e), type) and hasattr(builtins, h) and isinstance(getattr(builtins, h), type):
            return issubclass(getattr(builtins, e), getattr(builtins, h))
        e = EXT_BASES.get(e, "")
    return h in ("Exception", "BaseException")


def handlers_around(fn: ast.AST, node: ast.AST) -> list[list[str]]:
    """for each enclosing try (innermost first) whose *body* contains node: the exception names its handlers catch"""
    out = []

    def rec(cur: ast.AST, stack: list[list[str]]) -> bool:
        if cur is node:
            out.extend(reversed(stack))
            return True
        for fld, val in ast.iter_fields(cur):
            kids = val if isinstance(val, list) else [val]
            for k in kids:
                if not isinstance(k, ast.AST):
                    continue
                st2 = stack
                if isinstance(cur, ast.Try) and fld == "body":
                    names: list[str] = []
                    for h in cur.handlers:
                        if h.type is None:
                            names.append("BaseException")
                        elif isinstance(h.type, ast.Tuple):
                            names += [dotted(x) or "" for x in h.type.elts]
                        else:
                            names.append(dotted(h.type) or "")
                    st2 = stack + [names]
                if rec(k, st2):
                    return True
        return False

    rec(fn, [])
    return out


def caught(exc: str, handler_stack: list[list[str]]) -> bool:
    return any(is_sub(exc, h) for hs in handler_stack for h in hs)


def run(rep: Report, ctx: Any) -> str:
    ix = ctx.py
    it, ji = ctx.flow
    cfgs: dict[str, CFG] = {}
    rep.rule("R06.1", "explicit raises: typer.Exit/BadParameter inside cli.py; ValueError/AssertionError inside pydantic validators "
                      "(wrapped into ValidationError, which every model_validate call site catches); NotImplementedError in "
                      "abstract methods overridden by every concrete class; anything else must be caught on every call path")
    rep.rule("R06.2", "calls of the may-raise table on document-derived operands are enclosed by a try catching what they raise; "
                      "code running inside pydantic validation raises only ValueError/AssertionError (no unguarded `in`/subscript on "
                      "Any); values of untrusted Any sources are not returned as containers without an isinstance check")
    rep.rule("R06.3", "every call through a dynamically imported property template is guarded by `{% if alias.macro %}` or every "
                      "template the alias can denote defines the macro")
    rep.rule("R06.4", "every while loop and every recursive cycle matches a ranking pattern: progress worklist, visited set, "
                      "fixpoint on a growing set, structural recursion")
    rep.rule("R06.5", "handle_errors raises typer.Exit(1) iff an error-level diagnostic exists or fail_on_warning; a rejected "
                      "document returns before any filesystem effect")
    rep.rule("R06.6", "diagnostics survive to the caller: a function that records error values on objects it keeps in a local table "
                      "returns that table itself, never a filtered or rebuilt copy (an object dropped from it takes its diagnostics along)")
    rep.assumptions += [
        "exceptions raised inside third-party code on unusual values (pydantic, ruamel, jinja internals, RecursionError on "
        "pathologically deep documents) and hangs inside them are not decided",
        "the --path / --url argument and the config file are the user's own (a missing file or malformed URL is outside the quantifier)",
        "pydantic wraps ValueError and AssertionError raised by validators into ValidationError; other exceptions propagate",
    ]

    # ------------------------------------------------------------------------------------------------- R06.1
    funcs = [f for f in ix.all_functions]
    validators = [f for f in funcs if any(d.endswith(("field_validator", "model_validator", "validator")) for d in f.decorators)]
    # Discriminator(callable) registrations
    for m in ix.modules.values():
        for n in ast.walk(m.tree):
            if isinstance(n, ast.Call) and call_name(n).endswith("Discriminator") and n.args and isinstance(n.args[0], ast.Name):
                r = ix.resolve(m, n.args[0].id)
                if r and r[0] == "func" and r[1] not in validators:
                    validators.append(r[1])
    rep.floor("pydantic_validation_callbacks", len(validators), 4)
    n_raise = 0
    for f in funcs:
        for n in ast.walk(f.node):
            if not isinstance(n, ast.Raise) or n.exc is None:
                continue
            if _owner(ix, f, n) is not f:
                continue
            n_raise += 1
            exc = call_name(n.exc) if isinstance(n.exc, ast.Call) else (dotted(n.exc) or norm(n.exc))
            ename = exc.rsplit(".", 1)[-1]
            key = f"{short(f)}::raise {ename}"
            if f.module.name == f"{PKG}.cli" and ename in ("Exit", "BadParameter"):
                rep.ok("R06.1", key, "typer exit protocol", "cli.py")
                continue
            if f in validators:
                rep.check(ename in PYDANTIC_WRAPS, "R06.1", key, f"{ename} raised inside pydantic validation is not wrapped into "
                          "ValidationError and escapes model_validate", where(f, n), lhs=ename, rhs=PYDANTIC_WRAPS)
                continue
            if ename == "NotImplementedError" and "abstractmethod" in " ".join(f.decorators):
                missing = [c.name for c in ix.subclasses(f.cls) if not any(f.name in k.methods for k in ix.mro(c) if k is not f.cls)] if f.cls else []
                rep.check(not missing, "R06.1", key, f"abstract method not overridden by {missing}", where(f, n),
                          lhs="abstract", rhs="overridden by every concrete class")
                continue
            if caught(ename, handlers_around(f.node, n)):
                rep.ok("R06.1", key, ename, "caught locally")
                continue
            esc = _escapes_to_entry(ix, it, f, ename)
            rep.check(esc is None, "R06.1", key, f"{ename} raised here is not caught on the call path {esc}", where(f, n),
                      lhs=f"raise {ename}", rhs="caught before generate()/cli.generate return", path=esc)
    rep.floor("explicit_raises", n_raise, 9)
    # every model_validate call site catches ValidationError
    n_mv = 0
    for f in funcs:
        for n in ast.walk(f.node):
            if isinstance(n, ast.Call) and call_name(n).endswith(".model_validate"):
                n_mv += 1
                rep.check(caught("ValidationError", handlers_around(f.node, n)), "R06.1", f"{short(f)}::model_validate",
                          "model_validate is not inside a try catching ValidationError", where(f, n),
                          lhs=norm(n)[:60], rhs="except ValidationError")
    rep.floor("model_validate_sites", n_mv, 1)

    # ------------------------------------------------------------------------------------------------- R06.2
    n_tab = 0
    for f in funcs:
        if f.module.name.startswith(f"{PKG}.schema") and f not in validators:
            continue
        for n in ast.walk(f.node):
            if not isinstance(n, ast.Call) or _owner(ix, f, n) is not f:
                continue
            cn = call_name(n)
            entry = None
            for suf, excs in MAY_RAISE.items():
                if cn == suf or cn.endswith("." + suf):
                    entry = (suf, excs)
            if entry is None:
                continue
            suf, excs = entry
            operand = n.args[0] if n.args else (n.func.value if isinstance(n.func, ast.Attribute) else None)
            if suf in ("decode", "index", "load") and isinstance(n.func, ast.Attribute):
                operand = n.func.value if suf == "decode" else (n.args[0] if n.args else n.func.value)
            av = it.node_av.get(id(operand)) if operand is not None else None
            derived = av is not None and bool(av.labels & {RAW, RAW_NONSTR, UNKNOWN})
            if suf == "load" and "yaml" not in cn.lower():
                continue
            if suf == "index" and not derived:
                continue
            float_operand = suf == "int" and av is not None and "float" in av.types and av.consts is None
            if not derived and not float_operand and suf not in ("model_validate", "json.loads", "load", "decode"):
                continue
            if not derived and not float_operand and av is not None and (("CONFIG" in av.labels) or not av.labels) and suf != "model_validate":
                continue  # the user's own configuration file / tool output, not the document
            n_tab += 1
            excs2 = list(excs)
            if suf == "int" and av is not None and not (av.types & {"float", "Any"}):
                excs2 = ["ValueError"]
            hs = handlers_around(f.node, n)
            if f in validators:
                bad = [e for e in excs2 if not any(is_sub(e, w) for w in PYDANTIC_WRAPS) and not caught(e, hs)]
            else:
                bad = [e for e in excs2 if not caught(e, hs)]
                if bad:
                    # not caught where it is raised: a private helper may leave that to its callers, every one of which must then catch
                    bad = _escaping_callers(ix, f, bad, 0)
            key = f"{short(f)}::{suf}({norm(operand)[:40] if operand is not None else ''})"
            rep.check(not bad, "R06.2", key, f"`{norm(n)[:70]}` on a document-derived operand may raise {bad}, which no enclosing "
                      "try catches", where(f, n), lhs=f"{suf} raises {excs2}", rhs=f"handlers {hs}")
    rep.floor("may_raise_calls_on_document_operands", n_tab, 8)

    # (ii) membership / subscript on Any inside pydantic validation callbacks (TypeError is not wrapped)
    for f in validators:
        cfg = cfg_of(f, cfgs)
        for st in cfg.stmts():
            for n in walk_own(st):
                tgt = None
                if isinstance(n, ast.Compare) and len(n.ops) == 1 and isinstance(n.ops[0], (ast.In, ast.NotIn)):
                    tgt = n.comparators[0]
                    what = "`in`"
                elif isinstance(n, ast.Subscript) and isinstance(n.ctx, ast.Load):
                    tgt = n.value
                    what = "subscript"
                if not isinstance(tgt, ast.Name):
                    continue
                ann = next((p.annotation for p in f.params if p.arg == tgt.id), None)
                if ann is None or "Any" not in norm(ann):
                    continue  # typed by pydantic before the callback runs (mode='after' / field type)
                guarded = _isinstance_guarded(f.node, n, tgt.id)
                rep.check(guarded, "R06.2", f"{short(f)}::{what} on {tgt.id}",
                          f"{what} on the untyped value `{tgt.id}` inside pydantic validation without an isinstance guard: TypeError "
                          "for scalars/null is not wrapped into ValidationError", where(f, n), lhs=norm(n)[:60],
                          rhs="under `if isinstance(x, <container>)`")

    # (iii) untrusted Any returned as a container
    n_src = 0
    for f in funcs:
        ret_ann = norm(f.node.returns) if f.node.returns is not None else ""
        if not any(t in ret_ann for t in ("dict[", "Dict[", "list[", "List[")):
            continue
        for n in ast.walk(f.node):
            if isinstance(n, ast.Return) and isinstance(n.value, ast.Call) and _owner(ix, f, n) is f:
                cn = call_name(n.value)
                if cn.endswith("json.loads") or (cn.endswith(".load") and "yaml" in cn.lower()):
                    n_src += 1
                    rep.fail("R06.2", f"{short(f)}::return {cn.rsplit('.', 2)[-2]}.{cn.rsplit('.', 1)[-1]}",
                             f"the result of `{cn}` (any JSON/YAML value: null, number, string, list) is returned as "
                             f"`{ret_ann[:40]}` without an isinstance check; callers apply container operations to it",
                             where(f, n), lhs=cn, rhs="isinstance(..., dict) check before returning")
    # the same, when the check exists, is an ok obligation
    for f in funcs:
        if f.name == "_load_yaml_or_json":
            guarded = any(isinstance(n, ast.Call) and call_name(n) == "isinstance" for n in ast.walk(f.node))
            if guarded and n_src == 0:
                rep.ok("R06.2", f"{short(f)}::container-check", "isinstance check", "present")

    # ------------------------------------------------------------------------------------------------- R06.3
    rep.floor("dispatch_sites", len(ji.dispatches), 40)
    for dk, d in sorted(ji.dispatches.items(), key=lambda kv: (kv[1].template, kv[1].macro, kv[1].expr)):
        key = f"{d.template}::{d.macro}::{d.alias}.{d.attr}"
        rep.check(not d.missing_in, "R06.3", key,
                  f"`{d.alias}.{d.attr}(...)` is called without a guard but {sorted(set(d.missing_in))} do(es) not define `{d.attr}` "
                  "(jinja2 UndefinedError at render time)", where=f"{PKG}/templates/{d.template}:{d.line}",
                  lhs=f"candidates {len(d.candidates)}", rhs="all define the macro")
    for k, msg in sorted(ji.undefined_names.items()):
        if msg.startswith("macro ") and "is not defined in" in msg:
            rep.observe(f"{k[0]}: {msg} (imported but never used)")
        else:
            rep.fail("R06.3", f"{k[0]}::{k[1]}::{k[2]}", msg, where=f"{PKG}/templates/{k[0]}")

    # ------------------------------------------------------------------------------------------------- R06.4
    _termination(rep, ctx, cfgs)

    # ------------------------------------------------------------------------------------------------- R06.5
    _exit_status(rep, ctx, cfgs)
    _diagnostics_returned(rep, ctx)
    return LEVEL


def _owner(ix: Any, f: FuncInfo, node: ast.AST) -> FuncInfo:
    """the innermost function that lexically contains node"""
    best = f
    for g in ix.all_functions:
        if g.parent is not None and g is not f and _contains(g.node, node) and _contains(f.node, g.node):
            best = g
    return best


def _contains(a: ast.AST, b: ast.AST) -> bool:
    return any(x is b for x in ast.walk(a))


def _isinstance_guarded(fn: ast.AST, node: ast.AST, var: str) -> bool:
    """node sits in the body (or the true arm of a conditional expression) of a test isinstance(var, <container>)"""
    ok = False

    def rec(cur: ast.AST, guarded: bool) -> None:
        nonlocal ok
        if cur is node:
            ok = ok or guarded
            return
        if isinstance(cur, (ast.If, ast.IfExp)):
            g = guarded or _tests_container(cur.test, var)
            body = cur.body if isinstance(cur.body, list) else [cur.body]
            for k in body:
                rec(k, g)
            orelse = cur.orelse if isinstance(cur.orelse, list) else [cur.orelse]
            for k in orelse:
                if isinstance(k, ast.AST):
                    rec(k, guarded)
            rec(cur.test, guarded)
            return
        if isinstance(cur, ast.BoolOp) and isinstance(cur.op, ast.And):
            g = guarded
            for v in cur.values:
                rec(v, g)
                g = g or _tests_container(v, var)
            return
        for k in ast.iter_child_nodes(cur):
            rec(k, guarded)

    rec(fn, False)
    return ok


def _tests_container(test: ast.expr, var: str) -> bool:
    for n in ast.walk(test):
        if isinstance(n, ast.Call) and call_name(n) == "isinstance" and len(n.args) == 2 and isinstance(n.args[0], ast.Name) \
                and n.args[0].id == var:
            names = [dotted(x) or "" for x in (n.args[1].elts if isinstance(n.args[1], ast.Tuple) else [n.args[1]])]
            if all(x.rsplit(".", 1)[-1] in ("dict", "list", "str", "tuple", "set", "Mapping", "Sequence") for x in names):
                return True
    return False


def _escapes_to_entry(ix: Any, it: Any, f: FuncInfo, ename: str) -> list[str] | None:
    """breadth-first over callers: a path from f up to an entry point on which no call site is inside a matching try"""
    callers: dict[str, set[str]] = {}
    for a, bs in it.call_edges.items():
        for b in bs:
            callers.setdefault(b, set()).add(a)
    entries = {f"{PKG}.generate", f"{PKG}.cli.generate", f"{PKG}.parser.openapi.GeneratorData.from_dict"}
    seen = {f.qual}
    frontier: list[tuple[str, list[str]]] = [(f.qual, [short(f)])]
    while frontier:
        q, path = frontier.pop(0)
        if q in entries:
            return path
        for c in sorted(callers.get(q, ())):
            if c in seen:
                continue
            cf = it.func_by_qual.get(c)
            if cf is None:
                continue
            # is every call site of q in c protected?
            prot = True
            found = False
            tgt_name = q.rsplit(".", 1)[-1]
            for n in ast.walk(cf.node):
                if isinstance(n, ast.Call) and call_name(n).rsplit(".", 1)[-1] in (tgt_name, "build" if tgt_name == "build" else tgt_name):
                    found = True
                    if not caught(ename, handlers_around(cf.node, n)):
                        prot = False
            if found and prot:
                continue
            seen.add(c)
            frontier.append((c, path + [short(cf)]))
    return None


def _termination(rep: Report, ctx: Any, cfgs: dict[str, CFG]) -> None:
    ix = ctx.py
    it, _ = ctx.flow
    n_loops = 0
    for f in ix.all_functions:
        for n in ast.walk(f.node):
            if not isinstance(n, ast.While):
                continue
            n_loops += 1
            key = f"{short(f)}::while {norm(n.test)[:50]}"
            pat, why = _while_pattern(f, n)
            rep.check(pat is not None, "R06.4", key, f"while loop matches no termination pattern ({why})", where(f, n),
                      lhs=norm(n.test)[:60], rhs="progress worklist | visited set", pattern=pat)
    rep.floor("while_loops", n_loops, 4)
    # recursive cycles of the call graph
    edges = {a: {b for b in bs if b in it.func_by_qual} for a, bs in it.call_edges.items()}
    sccs = _sccs(edges)
    rec = [sorted(c) for c in sccs if len(c) > 1 or next(iter(c)) in edges.get(next(iter(c)), ())]
    rep.indexed["recursive_cycles"] = len(rec)
    for comp in sorted(rec):
        names = [q.replace(PKG + ".", "") for q in comp]
        key = "cycle{" + ",".join(n.rsplit(".", 1)[-1] for n in names)[:120] + "}"
        pat = _cycle_pattern(ix, it, comp)
        rep.check(pat is not None, "R06.4", key, f"recursive cycle {names} matches no termination pattern", where="",
                  lhs=names[:6], rhs="structural | visited set | growing bounded set", pattern=pat)


def _while_pattern(f: FuncInfo, n: ast.While) -> tuple[str | None, str]:
    test = norm(n.test)
    # progress worklist: `while flag:` - flag cleared at loop head; set True only on a path that does not re-queue the item;
    # the next worklist is built only from items of the current one
    if isinstance(n.test, ast.Name):
        flag = n.test.id
        first = n.body[0] if n.body else None
        cleared = isinstance(first, ast.Assign) and norm(first.targets[0]) == flag and isinstance(first.value, ast.Constant) \
            and first.value.value is False
        if not cleared:
            return None, "progress flag is not cleared at the head of the loop body"
        fors = [s for s in n.body if isinstance(s, ast.For)]
        if len(fors) != 1:
            return None, "expected exactly one pass over the worklist per round"
        loop = fors[0]
        work = norm(loop.iter)
        # next-round list: assigned from a fresh list at loop head and to the worklist at the end
        nxt = [norm(s.targets[0]) for s in n.body if isinstance(s, ast.Assign) and isinstance(s.value, ast.List) and not s.value.elts]
        reassigned = [s for s in n.body if isinstance(s, ast.Assign) and norm(s.targets[0]) == work and norm(s.value) in nxt]
        if not reassigned:
            return None, "the worklist is not replaced by the (fresh) next-round list at the end of the round"
        nr = norm(reassigned[0].value)
        # every statement that sets the flag must be on a path that does not append to the next-round list
        cfg = CFG(f.node)
        sets = [s for s in cfg.stmts() if isinstance(s, ast.Assign) and norm(s.targets[0]) == flag and isinstance(s.value, ast.Constant)
                and s.value.value is True and _contains(loop, s)]
        if not sets:
            return None, "the progress flag is never set"
        for s in sets:
            # within one iteration of the for-loop: no path from the for header to `s` passes through next_round.append
            appends = [a for a in cfg.stmts() if _contains(loop, a) and stmt_calls(a, f"{nr}.append")]
            for a in appends:
                # a and s in the same iteration: s reachable from a without going through the for header again
                r = cfg.reachable_from(a, avoid=lambda x: x is loop)
                if s in r:
                    return None, "an item can be re-queued and still count as progress"
        # items appended to the next round come from the current worklist only
        for a in [a for a in ast.walk(loop) if isinstance(a, ast.Call) and call_name(a) == f"{nr}.append"]:
            arg = norm(a.args[0]) if a.args else ""
            tgt = norm(loop.target)
            names_in_target = {x.id for x in ast.walk(loop.target) if isinstance(x, ast.Name)}
            names_in_arg = {x.id for x in ast.walk(a.args[0]) if isinstance(x, ast.Name)} if a.args else set()
            if not names_in_arg or not names_in_arg <= names_in_target:
                return None, f"next round receives `{arg}`, not an item of the current worklist `{tgt}`"
        return "progress-worklist", ""
    # visited set: `while <cond> and X not in seen:` with seen extended by X in the body on every path
    for c in ast.walk(n.test):
        if isinstance(c, ast.Compare) and len(c.ops) == 1 and isinstance(c.ops[0], ast.NotIn):
            seen = norm(c.comparators[0])
            item = norm(c.left)
            first_effect = None
            for s in n.body:
                if stmt_calls(s, f"{seen}.append") or stmt_calls(s, f"{seen}.add"):
                    call = (stmt_calls(s, f"{seen}.append") or stmt_calls(s, f"{seen}.add"))[0]
                    if call.args and norm(call.args[0]) == item:
                        first_effect = s
                        break
                if any(isinstance(x, (ast.Continue, ast.If, ast.Try)) for x in ast.walk(s)):
                    break  # the extension must happen unconditionally, before any branching
                # an assignment that changes the item before it is recorded breaks the pattern
                if isinstance(s, ast.Assign) and any(norm(t).split(".")[0] == item.split(".")[0] for t in s.targets):
                    break
            if first_effect is not None:
                return "visited-set", ""
            return None, f"`{item}` is tested against `{seen}` but not recorded in it unconditionally at the top of the body"
    return None, "unrecognised loop shape"


def _sccs(edges: dict[str, set[str]]) -> list[set[str]]:
    index: dict[str, int] = {}
    low: dict[str, int] = {}
    stack: list[str] = []
    on: set[str] = set()
    out: list[set[str]] = []
    counter = [0]
    import sys

    sys.setrecursionlimit(10000)

    def strong(v: str) -> None:
        index[v] = low[v] = counter[0]
        counter[0] += 1
        stack.append(v)
        on.add(v)
        for w in edges.get(v, ()):
            if w not in index:
                strong(w)
                low[v] = min(low[v], low[w])
            elif w in on:
                low[v] = min(low[v], index[w])
        if low[v] == index[v]:
            comp = set()
            while True:
                w = stack.pop()
                on.discard(w)
                comp.add(w)
                if w == v:
                    break
            out.append(comp)

    for v in sorted(set(edges) | {w for ws in edges.values() for w in ws}):
        if v not in index:
            strong(v)
    return out


def _cycle_pattern(ix: Any, it: Any, comp: list[str]) -> str | None:
    names = {q.rsplit(".", 1)[-1] for q in comp}
    fs = [it.func_by_qual[q] for q in comp]
    # (a) fixpoint on a growing bounded set: the recursive call is guarded by `new != previous` and the set only grows
    if names == {"_check_parameters_for_conflicts"}:
        f = fs[0]
        for n in ast.walk(f.node):
            if isinstance(n, ast.If) and "!=" in norm(n.test) and "previously_modified_params" in norm(n.test) and any(
                    isinstance(r, ast.Return) and stmt_calls(r, "_check_parameters_for_conflicts") for r in n.body):
                shrink = [c for c in ast.walk(f.node) if isinstance(c, ast.Call) and call_name(c).startswith("modified_params.") and
                          call_name(c).rsplit(".", 1)[-1] in ("remove", "discard", "pop", "clear", "difference_update")]
                if not shrink:
                    return "growing-bounded-set (modified_params only grows, bounded by locations x names; recursion only when it changed)"
        return None
    # (b) removal from a map before recursing (visited by deletion)
    if names == {"_propogate_removal"}:
        f = fs[0]
        cfg = CFG(f.node)
        rec_calls = [s for s in cfg.stmts() if stmt_calls(s, "_propogate_removal")]
        dels = [s for s in cfg.stmts() if isinstance(s, ast.Delete) and "classes_by_reference" in norm(s)]
        guard = [s for s in cfg.stmts() if isinstance(s, ast.If) and " in " in norm(s.test) and "classes_by_reference" in norm(s.test)]
        if rec_calls and dels and guard and all(cfg.is_dominated_by(r, lambda n: n in dels) and cfg.is_dominated_by(r, lambda n: n in guard)
                                                 for r in rec_calls):
            return "visited-by-deletion (recursion only under `root in classes_by_reference`, after deleting root)"
        return None
    # (c) structural recursion on the finite document tree / property tree: every function of the cycle takes the sub-object
    #     it recurses on from an attribute / element of one of its own parameters
    ok = True
    for f in fs:
        params = {p.arg for p in f.params}
        cyc_names = names
        for n in ast.walk(f.node):
            if isinstance(n, ast.Call) and call_name(n).rsplit(".", 1)[-1] in cyc_names:
                # some argument (or the receiver) must be derived from a parameter by attribute / subscript / iteration
                roots = set()
                for a in list(n.args) + [k.value for k in n.keywords] + ([n.func.value] if isinstance(n.func, ast.Attribute) else []):
                    for x in ast.walk(a):
                        if isinstance(x, ast.Name):
                            roots.add(x.id)
                if not roots:
                    ok = False
    return "structural (recursion descends into sub-objects of the finite schema / property tree)" if ok else None


def _exit_status(rep: Report, ctx: Any, cfgs: dict[str, CFG]) -> None:
    ix = ctx.py
    he = ix.func("cli.handle_errors")
    # Decided on outcomes, not on the shape of the code: for each combination of (some diagnostic has level ERROR, fail_on_warning)
    # the statements that can end the function are enumerated; `raise typer.Exit(code=1)` must end it exactly when one of the two holds.
    from ..astutil import Locals, terminals

    exits = [s for s in ast.walk(he.node) if isinstance(s, ast.Raise) and s.exc is not None and "Exit" in norm(s.exc) and "code=1" in norm(s.exc)]
    rep.require(exits, "raise typer.Exit(code=1) in handle_errors")
    lc = Locals(he.node)

    def scans_levels(e: ast.AST) -> bool:
        """any(<x>.level == ErrorLevel.ERROR for <x> in errors)"""
        if not (isinstance(e, ast.Call) and call_name(e) == "any" and len(e.args) == 1 and isinstance(e.args[0], (ast.GeneratorExp, ast.ListComp))):
            return False
        g_ = e.args[0]
        return len(g_.generators) == 1 and not g_.generators[0].ifs and norm(g_.generators[0].iter) == "errors" and \
            norm(g_.elt) == f"{norm(g_.generators[0].target)}.level == ErrorLevel.ERROR"

    has_error: set[str] = {norm(n) for n in ast.walk(he.node) if scans_levels(n)}
    has_error |= {nm for nm in lc.defs if lc.values_of(nm) and all(scans_levels(v) for v in lc.values_of(nm))}
    # a level variable: WARNING at the top level, ERROR only under `if <e>.level == ErrorLevel.ERROR` inside `for <e> in errors`
    for nm in lc.defs:
        vals = [norm(v) for v in lc.values_of(nm)]
        if not vals or set(vals) - {"ErrorLevel.WARNING", "ErrorLevel.ERROR"} or "ErrorLevel.ERROR" not in vals:
            continue
        ok_l = True
        for a in [n for n in ast.walk(he.node) if isinstance(n, ast.Assign) and norm(n.targets[0]) == nm]:
            if norm(a.value) == "ErrorLevel.WARNING":
                ok_l = ok_l and a in he.node.body
            else:
                ok_l = ok_l and any(isinstance(lp, ast.For) and norm(lp.iter) == "errors" and any(
                    isinstance(i_, ast.If) and norm(i_.test) == f"{norm(lp.target)}.level == ErrorLevel.ERROR" and a in i_.body for i_ in lp.body)
                    for lp in ast.walk(he.node))
        if ok_l:
            has_error |= {f"{nm} == ErrorLevel.ERROR", f"{nm} is ErrorLevel.ERROR"}
    rep.check(bool(has_error), "R06.5", "cli.handle_errors::level-scan",
              "nothing in handle_errors is derived from `error.level == ErrorLevel.ERROR` over all errors", where(he, he.node),
              lhs=sorted(has_error), rhs="any(e.level == ERROR for e in errors) or a level variable raised inside the loop over errors")
    empty = {"len(errors) == 0", "not errors", "errors == []"}
    bad_combo = None
    for h in (False, True):
        for f_ in (False, True):
            def ev(t: ast.expr, h: bool = h, f_: bool = f_) -> bool | None:
                txt = norm(t)
                if txt in has_error:
                    return h
                if txt == "fail_on_warning":
                    return f_
                if txt in empty:
                    return False
                return None

            terms, falls = terminals(he.node.body, ev)
            hit = [t for t in terms if t in exits]
            must = h or f_
            if must and (falls or len(hit) != len(terms)):
                bad_combo = bad_combo or f"error={h}, fail_on_warning={f_}: the function can end without exit status 1"
            if not must and hit:
                bad_combo = bad_combo or f"error={h}, fail_on_warning={f_}: exit status 1 although nothing calls for it"
    rep.check(bad_combo is None and bool(has_error), "R06.5", "cli.handle_errors::exit-guard",
              f"typer.Exit(code=1) is not raised exactly when an error-level diagnostic exists or fail_on_warning ({bad_combo})",
              where(he, exits[-1]), lhs=bad_combo, rhs="exit 1 iff (some error has level ERROR) or fail_on_warning")
    # with no diagnostics at all the function ends without an exit status
    terms0, _ = terminals(he.node.body, lambda t: True if norm(t) in empty else None)
    rep.check(not [t for t in terms0 if t in exits], "R06.5", "cli.handle_errors::early-return",
              "handle_errors can exit with status 1 although there are no diagnostics", where(he, he.node))
    # cli.generate hands the result of generate() to handle_errors with fail_on_warning
    g = ix.func("cli.generate")
    from ..astutil import Locals

    results = set(Locals(g.node).bound_from(lambda v: v.startswith("generate("), "assign"))
    hcalls = [c for c in ast.walk(g.node) if isinstance(c, ast.Call) and call_name(c) == "handle_errors"]
    ok4 = any(c.args and (norm(c.args[0]) in results or norm(c.args[0]).startswith("generate(")) and
              (len(c.args) > 1 and norm(c.args[1]) == "fail_on_warning" or any(k.arg == "fail_on_warning" and norm(k.value) == "fail_on_warning" for k in c.keywords))
              for c in hcalls)
    rep.check(ok4, "R06.5", "cli.generate::handle_errors", "the CLI does not pass the generator's diagnostics and fail_on_warning to handle_errors",
              where(g, g.node), lhs=[norm(c) for c in hcalls], rhs="handle_errors(<result of generate(...)>, fail_on_warning)")
    # no write on rejection: generate() returns [project] (a GeneratorError) before project.build(); _get_project... has no effects
    from .effects import effect_sites

    eff = effect_sites(ix)
    gen = ix.func(f"{PKG}.generate")
    gp = ix.func(f"{PKG}._get_project_for_url_or_path")
    gd = ix.func(f"{PKG}._get_document")
    ld = ix.func(f"{PKG}._load_yaml_or_json")
    for f in (gen, gp, gd, ld, ix.func("Project.__init__"), ix.func("GeneratorData.from_dict")):
        mine = [e for e in eff if e.func is f]
        rep.check(not mine, "R06.5", f"{short(f)}::no-effects", f"filesystem/process effect before the document is accepted: "
                  f"{[e.what for e in mine]}", where(f, f.node), lhs=[e.what for e in mine], rhs="no effect sites")
    cfg_g = cfg_of(gen, cfgs)
    from ..astutil import Locals as _L

    projs = set(_L(gen.node).bound_from(lambda v: v.startswith("_get_project_for_url_or_path("), "assign"))
    builds = [s for s in cfg_g.stmts() if any(isinstance(c.func, ast.Attribute) and c.func.attr == "build" and norm(c.func.value) in projs
                                               for c in stmt_calls(s, ".build"))]
    rets = [s for s in cfg_g.stmts() if isinstance(s, ast.Return) and isinstance(s.value, ast.List) and len(s.value.elts) == 1 and norm(s.value.elts[0]) in projs]

    def _reject(n: ast.AST) -> bool:
        return (isinstance(n, ast.If) and any(norm(n.test) == f"isinstance({p_}, GeneratorError)" for p_ in projs) and bool(n.body)
                and n.body[-1] in rets)

    guard_ok = bool(builds) and bool(rets) and all(cfg_g.is_dominated_by(b, _reject) for b in builds)
    rep.check(guard_ok, "R06.5", "generate::reject-before-build", "project.build() is reachable for a rejected document",
              where(gen, gen.node), lhs=[norm(b) for b in builds], rhs="dominated by `if isinstance(project, GeneratorError): return [project]`")


def _diagnostics_returned(rep: Report, ctx: Any) -> None:
    """R06.6.  Instances: parser functions with a local dict filled by `setdefault` (objects grouped by a key) in which error values
    are appended to a list attribute of those objects.  Obligation: the dict is bound once (to an empty dict) and every return that
    is not itself an error hands back the dict's own name."""
    from ..astutil import Locals, constructs_error, error_names, receivers
    from .registries import local_registries

    ix = ctx.py
    n_inst = 0
    for f in ix.all_functions:
        if not f.module.name.startswith(f"{PKG}.parser"):
            continue
        tables = {nm for nm, kind in local_registries(f).items() if kind == "dict"
                  and any(r == nm for r, _ in receivers(f.node, "setdefault"))}
        if not tables:
            continue
        errs = error_names(f.node)
        # objects taken out of the table: locals bound from expressions that mention <table>.setdefault(...)
        lc = Locals(f.node)
        for tb in sorted(tables):
            holders = set(lc.bound_from(lambda v, tb=tb: f"{tb}.setdefault(" in v, ""))
            members = {norm(lp.target) for lp in ast.walk(f.node) if isinstance(lp, ast.For) and norm(lp.iter) in holders} | holders
            records = [c for r, c in receivers(f.node, "append") if "." in r and r.split(".", 1)[0] in members and c.args and
                       (constructs_error(c.args[0]) or (isinstance(c.args[0], ast.Name) and c.args[0].id in errs))]
            if not records:
                continue
            n_inst += 1
            defs = [norm(v) for v in lc.values_of(tb)]
            rets = [r for r in ast.walk(f.node) if isinstance(r, ast.Return) and r.value is not None]
            firsts = [norm(r.value.elts[0]) if isinstance(r.value, ast.Tuple) and r.value.elts else norm(r.value) for r in rets]
            ok = defs in (["{}"], ["dict()"]) and bool(rets) and all(x == tb for x in firsts)
            rep.check(ok, "R06.6", f"{short(f)}::returns-the-table-with-its-diagnostics",
                      "objects that carry recorded diagnostics are kept in a local table, but what is returned is not that table itself "
                      f"(bound from {defs}, returned as {sorted(set(firsts))}): an object filtered out takes its diagnostics along and "
                      "the failure is reported nowhere", where(f, rets[-1] if rets else f.node), lhs=[defs, sorted(set(firsts))],
                      rhs=f"`{tb}` bound once to an empty dict and returned by name")
    rep.floor("diagnostic_tables", n_inst, 1)


def _tuple_pairs(g: Any, a_name: str, b_name: str) -> list[tuple[ast.expr, ast.expr]]:
    """values given to locals a and b by the SAME tuple assignment `(.., a, .., b, ..) = (.., x, .., y, ..)` (correlated choices)"""
    out = []
    for st in ast.walk(g.node):
        if isinstance(st, ast.Assign) and isinstance(st.targets[0], ast.Tuple) and isinstance(st.value, ast.Tuple) \
                and len(st.targets[0].elts) == len(st.value.elts):
            names = [t.id if isinstance(t, ast.Name) else None for t in st.targets[0].elts]
            if a_name in names and b_name in names:
                out.append((st.value.elts[names.index(a_name)], st.value.elts[names.index(b_name)]))
    return out


def _escaping_callers(ix: Any, f: Any, excs: list[str], depth: int) -> list[str]:
    """exceptions of `excs` that can still escape when f is called: f must be a private helper (leading underscore or nested) whose
    every call site - by name, or through a local the helper was assigned to - sits in a try that catches them.  A handler whose
    type is a local is resolved through that local; when the callee variable and the handler variable are set by the same tuple
    assignment, the pairing is respected (parse, error = _parse_json, ValueError)."""
    from ..astutil import Locals

    if depth > 2 or not (f.name.startswith("_") and not f.name.startswith("__") or f.parent is not None):
        return excs
    sites = []
    for g in ix.all_functions:
        if g.module is not f.module or g is f:
            continue
        lc = Locals(g.node)
        carriers = {nm for nm in lc.defs if any(isinstance(x, ast.Name) and x.id == f.name for v in lc.values_of(nm) for x in ast.walk(v))}
        for c in ast.walk(g.node):
            if isinstance(c, ast.Call):
                cn = call_name(c)
                if cn == f.name or cn.endswith("." + f.name) and cn.split(".")[0] in ("self", "cls"):
                    sites.append((g, c, None))
                elif isinstance(c.func, ast.Name) and c.func.id in carriers:
                    sites.append((g, c, c.func.id))
    if not sites:
        return excs
    still: set[str] = set()
    for g, c, carrier in sites:
        lc = Locals(g.node)
        stack = handlers_around(g.node, c)
        resolved: list[list[str]] = []
        for names in stack:
            row: list[str] = []
            for nm in names:
                vals = lc.values_of(nm) if nm in lc.defs else []
                if not vals:
                    row.append(nm)
                    continue
                if carrier is not None:
                    pairs = _tuple_pairs(g, carrier, nm)
                    mine = [dotted(e) or "" for fv, e in pairs if isinstance(fv, ast.Name) and fv.id == f.name]
                    if mine:
                        # the handler type that goes with this callee; caught only if every such pairing catches
                        row.append("&".join(sorted(set(mine))))
                        continue
                # an uncorrelated local: caught only if every value it may hold catches
                alts = sorted({dotted(x) or "" for v in vals for x in ([v] if not isinstance(v, ast.Tuple) else v.elts)})
                row.append("&".join(alts))
            resolved.append(row)

        def is_caught(e: str) -> bool:
            return any(all(is_sub(e, part) for part in h.split("&")) for row in resolved for h in row if h)

        left = [e for e in excs if not is_caught(e)]
        if left:
            still |= set(_escaping_callers(ix, g, left, depth + 1))
    return sorted(still)
