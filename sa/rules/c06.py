"""C06 - every failure is a diagnostic: the generator never crashes or hangs."""
from __future__ import annotations

import ast
import builtins
from typing import Any

from ..astutil import call_name, cfg_of, norm, short, stmt_calls, where
from ..cfg import CFG, EXIT, walk_own
from ..core import PKG, Report
from ..domain import RAW, RAW_NONSTR, UNKNOWN
from ..pyindex import FuncInfo, dotted

LEVEL = ("absence properties over the call graph and per-function CFGs: (1) every explicit raise is one of the recognised "
         "protocols or is caught on every call path from the entry points; (2) every raising library call the repository "
         "applies to document-derived operands (table) sits in a try that catches what it can raise, code that runs inside "
         "pydantic validation raises only what pydantic wraps, untrusted Any values are not returned as containers unchecked; "
         "(3) every dynamic template dispatch is total; (4) every loop / recursive cycle matches a recognised ranking pattern; "
         "(5) exit status by abstract evaluation of cli.handle_errors under the combinations of diagnostics and fail_on_warning, "
         "no-write-on-rejection on the CFGs of generate / Project.build.")

# exceptions raised by the calls the repository makes on document-derived operands  (callee suffix -> exception names)
MAY_RAISE = {
    "int": ("ValueError", "OverflowError"),
    "float": ("ValueError",),
    "HTTPStatus": ("ValueError",),
    "UUID": ("ValueError",),
    "isoparse": ("ValueError",),
    "json.loads": ("JSONDecodeError",),
    "decode": ("UnicodeDecodeError",),
    "load": ("YAMLError",),           # ruamel YAML(...).load
    "model_validate": ("ValidationError",),
    "index": ("ValueError",),
    # JSON serialisers: the YAML loader produces values JSON cannot express (!!binary bytes, dates, a self-containing alias)
    "model_dump_json": ("PydanticSerializationError",),
    "json.dumps": ("TypeError", "ValueError"),
    # urllib.parse: an unbalanced '[' / ']' in the network location ("//[") is rejected with ValueError("Invalid IPv6 URL")
    "urlparse": ("ValueError",),
    "urlsplit": ("ValueError",),
    # conversions and parsers of the standard library that reject some texts / numbers (none is applied to a document value on the
    # pinned tree; listed so that one that is introduced later is judged like the ones above)
    "fromisoformat": ("ValueError",), "strptime": ("ValueError",), "fromtimestamp": ("ValueError", "OverflowError", "OSError"),
    "Decimal": ("InvalidOperation",), "Fraction": ("ValueError", "ZeroDivisionError"), "complex": ("ValueError",),
    "literal_eval": ("ValueError", "SyntaxError"), "b64decode": ("BinasciiError",), "unhexlify": ("BinasciiError",),
    "fromhex": ("ValueError",), "chr": ("ValueError", "OverflowError"), "round": ("ValueError", "OverflowError"),
    "ip_address": ("ValueError",), "ip_network": ("ValueError",), "shlex.split": ("ValueError",),
    "unicodedata.lookup": ("KeyError",), "math.floor": ("ValueError", "OverflowError"), "math.ceil": ("ValueError", "OverflowError"),
    "math.trunc": ("ValueError", "OverflowError"), "math.log": ("ValueError",), "math.sqrt": ("ValueError",),
    "re.compile": ("ReError",), "re.sub": ("ReError",), "re.match": ("ReError",), "re.search": ("ReError",),
    "re.fullmatch": ("ReError",), "re.findall": ("ReError",), "re.split": ("ReError",), "re.finditer": ("ReError",),
    "format_map": ("KeyError", "IndexError", "ValueError"),
    "import_module": ("ImportError",),
}
# table entries whose raising operand is the receiver of the method call rather than its first argument
RECEIVER_OPERAND = ("decode", "format_map")
# how external exception classes relate to builtin ones (for handler matching)
EXT_BASES = {
    "ValidationError": "ValueError", "JSONDecodeError": "ValueError", "YAMLError": "Exception", "PydanticSerializationError": "ValueError",
    "InvalidOperation": "ArithmeticError", "BinasciiError": "ValueError", "ReError": "Exception",
    "CalledProcessError": "Exception", "HTTPError": "Exception", "NetworkError": "Exception", "Exit": "Exception",
    "BadParameter": "Exception",
}
HANDLER_ALIASES = {"re.error": "ReError", "re.PatternError": "ReError", "binascii.Error": "BinasciiError"}
PYDANTIC_WRAPS = ("ValueError", "AssertionError")


def is_sub(exc: str, handler: str) -> bool:
    """exc is caught by `except handler`"""
    e = exc.rsplit(".", 1)[-1]
    h = HANDLER_ALIASES.get(handler, handler.rsplit(".", 1)[-1])
    seen = set()
    while e and e not in seen:
        if e == h:
            return True
        seen.add(e)
        if hasattr(builtins, e) and isinstance(getattr(builtins, e), type) and hasattr(builtins, h) and isinstance(getattr(builtins, h), type):
            return issubclass(getattr(builtins, e), getattr(builtins, h))
        e = EXT_BASES.get(e, "")
    return h in ("Exception", "BaseException")


def handlers_around(fn: ast.AST, node: ast.AST) -> list[list[str]]:
    """for each enclosing try (innermost first) whose *body* contains node: the exception names its handlers catch"""
    out = []

    def rec(cur: ast.AST, stack: list[list[str]]) -> bool:
        if cur is node:
            out.extend(reversed(stack))
            return True
        for fld, val in ast.iter_fields(cur):
            kids = val if isinstance(val, list) else [val]
            for k in kids:
                if not isinstance(k, ast.AST):
                    continue
                st2 = stack
                if isinstance(cur, ast.Try) and fld == "body":
                    names: list[str] = []
                    for h in cur.handlers:
                        if h.type is None:
                            names.append("BaseException")
                        elif isinstance(h.type, ast.Tuple):
                            names += [dotted(x) or "" for x in h.type.elts]
                        else:
                            names.append(dotted(h.type) or "")
                    st2 = stack + [names]
                if rec(k, st2):
                    return True
        return False

    rec(fn, [])
    return out


def caught(exc: str, handler_stack: list[list[str]]) -> bool:
    return any(is_sub(exc, h) for hs in handler_stack for h in hs)


def run(rep: Report, ctx: Any) -> str:
    ix = ctx.py
    it, ji = ctx.flow
    cfgs: dict[str, CFG] = {}
    rep.rule("R06.1", "explicit raises: typer.Exit/BadParameter inside cli.py; ValueError/AssertionError inside pydantic validators "
                      "(wrapped into ValidationError, which every model_validate call site catches); NotImplementedError in "
                      "abstract methods overridden by every concrete class; anything else must be caught on every call path")
    rep.rule("R06.2", "calls of the may-raise table on document-derived operands are enclosed by a try catching what they raise; "
                      "code running inside pydantic validation raises only ValueError/AssertionError (no unguarded `in`/subscript on "
                      "Any); values of untrusted Any sources are not returned as containers without an isinstance check; a document "
                      "value handed to a container operation (iteration, len, `in`, subscription) has no scalar type (bool / int / "
                      "float) among its abstract types unless an isinstance test excludes it on every way there; a document value that "
                      "is hashed (looked up in / stored into a dict or set) has no unhashable type (list / dict / set / untyped Any) "
                      "among its abstract types unless a try around the operation catches TypeError; a document value handed to a "
                      "parameter declared as a (non-optional) container cannot be None: an absent optional section has been replaced by an "
                      "empty container or tested on every way to the call; an optional field or result (None among its abstract types) derived "
                      "from the document is not handed to an operation that rejects None - attribute access / method call on it, "
                      "arithmetic, concatenation, ordering, container operations, the text and number functions of the standard library "
                      "(textwrap, re, len, int, ...) - unless a fallback, a test or a store of a non-None value rules None out on every "
                      "way there or a try catches TypeError and AttributeError")
    rep.rule("R06.3", "every call through a dynamically imported property template is guarded by `{% if alias.macro %}` or every "
                      "template the alias can denote defines the macro")
    rep.rule("R06.4", "every while loop and every recursive cycle of the call graph has one of five ranking arguments, decided on the "
                      "labelled statement CFG of one round (loop body or one activation): (1) every path to a repetition inserts "
                      "into a never-shrinking collection an element just tested absent; (2) the round repeats only when a "
                      "monotonically growing set differs from its previous-round snapshot; (3) progress rounds - the next work "
                      "list is the re-queue list of one pass, repeated only if the pass's indicator is set, indicator and list "
                      "reset between passes, no iteration both re-queues and sets the indicator; (4) every repetition removes a "
                      "key just tested present from a map nothing adds to; (5) structural recursion - the non-descending call "
                      "edges are acyclic; in iterative form a work queue that every round takes an element off and that receives, "
                      "unless a bounded event of (1)/(4) was passed, only strict sub-objects of the element just taken off; every "
                      "regular expression handed to `re`: each unbounded repetition divides a text in one way only (its body has a "
                      "fixed length, or begins / ends with a delimiter that occurs nowhere else in it, or is a choice between "
                      "alternatives with different first characters that each end in one way) - no exponential backtracking")
    rep.rule("R06.5", "handle_errors ends with a non-zero exit status iff an error-level diagnostic exists or fail_on_warning, and "
                      "without one when there are no diagnostics - decided by abstract evaluation of handle_errors and the functions "
                      "it calls under each combination of (no diagnostics | some has level ERROR | none has) x fail_on_warning; a "
                      "rejected document returns before any filesystem effect")
    rep.rule("R06.6", "diagnostics survive to the caller: a function that records error values on objects it keeps in a local table "
                      "returns that table itself, never a filtered or rebuilt copy (an object dropped from it takes its diagnostics along)")
    rep.assumptions += [
        "exceptions raised inside third-party code on unusual values (pydantic, ruamel, jinja internals, RecursionError on "
        "pathologically deep documents) and hangs inside them are not decided",
        "the --path / --url argument and the config file are the user's own (a missing file or malformed URL is outside the quantifier)",
        "pydantic wraps ValueError and AssertionError raised by validators into ValidationError; other exceptions propagate",
        "a value that passed `isinstance(v, <class held in a field>)` (an enum's value_type) is taken to be hashable: the classes kept "
        "there are the scalar value types of an enumeration",
    ]

    # ------------------------------------------------------------------------------------------------- R06.1
    funcs = [f for f in ix.all_functions]
    validators = [f for f in funcs if any(d.endswith(("field_validator", "model_validator", "validator")) for d in f.decorators)]
    # Discriminator(callable) registrations
    for m in ix.modules.values():
        for n in ast.walk(m.tree):
            if isinstance(n, ast.Call) and call_name(n).endswith("Discriminator") and n.args and isinstance(n.args[0], ast.Name):
                r = ix.resolve(m, n.args[0].id)
                if r and r[0] == "func" and r[1] not in validators:
                    validators.append(r[1])
    rep.floor("pydantic_validation_callbacks", len(validators), 2)
    n_raise = 0
    for f in funcs:
        for n in ast.walk(f.node):
            if not isinstance(n, ast.Raise) or n.exc is None:
                continue
            if _owner(ix, f, n) is not f:
                continue
            n_raise += 1
            # what is raised is decided by the class of the exception object, wherever that object is built: in the raise statement, in
            # a local, or in a function of the repository that hands it back
            for ename in _raised_names(ix, f, n.exc):
                key = f"{short(f)}::raise {ename}"
                if f.module.name == f"{PKG}.cli" and ename in ("Exit", "BadParameter"):
                    rep.ok("R06.1", key, "typer exit protocol", "cli.py")
                    continue
                if f in validators:
                    rep.check(ename in PYDANTIC_WRAPS, "R06.1", key, f"{ename} raised inside pydantic validation is not wrapped into "
                              "ValidationError and escapes model_validate", where(f, n), lhs=ename, rhs=PYDANTIC_WRAPS)
                    continue
                if ename == "NotImplementedError" and "abstractmethod" in " ".join(f.decorators):
                    missing = [c.name for c in ix.subclasses(f.cls) if not any(f.name in k.methods for k in ix.mro(c) if k is not f.cls)] if f.cls else []
                    rep.check(not missing, "R06.1", key, f"abstract method not overridden by {missing}", where(f, n),
                              lhs="abstract", rhs="overridden by every concrete class")
                    continue
                if caught(ename, handlers_around(f.node, n)):
                    rep.ok("R06.1", key, ename, "caught locally")
                    continue
                esc = _escapes_to_entry(ix, it, f, ename)
                rep.check(esc is None, "R06.1", key, f"{ename} raised here is not caught on the call path {esc}", where(f, n),
                          lhs=f"raise {ename}", rhs="caught before generate()/cli.generate return", path=esc)
    rep.floor("explicit_raises", n_raise, 5)
    # every model_validate call site catches ValidationError
    n_mv = 0
    for f in funcs:
        for n in ast.walk(f.node):
            if isinstance(n, ast.Call) and call_name(n).endswith(".model_validate"):
                n_mv += 1
                rep.check(caught("ValidationError", handlers_around(f.node, n)), "R06.1", f"{short(f)}::model_validate",
                          "model_validate is not inside a try catching ValidationError", where(f, n),
                          lhs=norm(n)[:60], rhs="except ValidationError")
    rep.floor("model_validate_sites", n_mv, 1)

    # ------------------------------------------------------------------------------------------------- R06.2
    n_tab = 0
    for f in funcs:
        if f.module.name.startswith(f"{PKG}.schema") and f not in validators:
            continue
        for n in ast.walk(f.node):
            if not isinstance(n, ast.Call) or _owner(ix, f, n) is not f:
                continue
            cn = call_name(n)
            entry = None
            for suf, excs in MAY_RAISE.items():
                if cn == suf or cn.endswith("." + suf):
                    entry = (suf, excs)
            if entry is None:
                continue
            suf, excs = entry
            operand = n.args[0] if n.args else (n.func.value if isinstance(n.func, ast.Attribute) else None)
            if suf in ("decode", "index", "load", "format_map") and isinstance(n.func, ast.Attribute):
                operand = n.func.value if suf in RECEIVER_OPERAND else (n.args[0] if n.args else n.func.value)
            av = it.node_av.get(id(operand)) if operand is not None else None
            derived = av is not None and bool(av.labels & {RAW, RAW_NONSTR, UNKNOWN})
            if suf == "load" and "yaml" not in cn.lower():
                continue
            if suf == "index" and not derived:
                continue
            float_operand = suf == "int" and av is not None and "float" in av.types and av.consts is None
            if not derived and not float_operand and suf not in ("model_validate", "json.loads", "load", "decode"):
                continue
            if not derived and not float_operand and av is not None and (("CONFIG" in av.labels) or not av.labels) and suf != "model_validate":
                continue  # the user's own configuration file / tool output, not the document
            n_tab += 1
            excs2 = list(excs)
            if suf == "int" and av is not None and not (av.types & {"float", "Any"}):
                excs2 = ["ValueError"]
            hs = handlers_around(f.node, n)
            if f in validators:
                bad = [e for e in excs2 if not any(is_sub(e, w) for w in PYDANTIC_WRAPS) and not caught(e, hs)]
            else:
                bad = [e for e in excs2 if not caught(e, hs)]
                if bad:
                    # not caught where it is raised: a private helper may leave that to its callers, every one of which must then catch
                    bad = _escaping_callers(ix, f, bad, 0)
            key = f"{short(f)}::{suf}({norm(operand)[:40] if operand is not None else ''})"
            rep.check(not bad, "R06.2", key, f"`{norm(n)[:70]}` on a document-derived operand may raise {bad}, which no enclosing "
                      "try catches", where(f, n), lhs=f"{suf} raises {excs2}", rhs=f"handlers {hs}")
    rep.floor("may_raise_calls_on_document_operands", n_tab, 5)

    # (ii) membership / subscript on Any inside pydantic validation callbacks (TypeError is not wrapped)
    for f in validators:
        cfg = cfg_of(f, cfgs)
        for st in cfg.stmts():
            for n in walk_own(st):
                tgt = None
                if isinstance(n, ast.Compare) and len(n.ops) == 1 and isinstance(n.ops[0], (ast.In, ast.NotIn)):
                    tgt = n.comparators[0]
                    what = "`in`"
                elif isinstance(n, ast.Subscript) and isinstance(n.ctx, ast.Load):
                    tgt = n.value
                    what = "subscript"
                if not isinstance(tgt, ast.Name):
                    continue
                ann = next((p.annotation for p in f.params if p.arg == tgt.id), None)
                if ann is None or "Any" not in norm(ann):
                    continue  # typed by pydantic before the callback runs (mode='after' / field type)
                guarded = _isinstance_guarded(f.node, n, tgt.id)
                rep.check(guarded, "R06.2", f"{short(f)}::{what} on {tgt.id}",
                          f"{what} on the untyped value `{tgt.id}` inside pydantic validation without an isinstance guard: TypeError "
                          "for scalars/null is not wrapped into ValidationError", where(f, n), lhs=norm(n)[:60],
                          rhs="under `if isinstance(x, <container>)`")

    # (iii) untrusted Any returned as a container
    n_src = 0
    for f in funcs:
        ret_ann = norm(f.node.returns) if f.node.returns is not None else ""
        if not any(t in ret_ann for t in ("dict[", "Dict[", "list[", "List[")):
            continue
        for n in ast.walk(f.node):
            if isinstance(n, ast.Return) and isinstance(n.value, ast.Call) and _owner(ix, f, n) is f:
                cn = call_name(n.value)
                if cn.endswith("json.loads") or (cn.endswith(".load") and "yaml" in cn.lower()):
                    n_src += 1
                    rep.fail("R06.2", f"{short(f)}::return {cn.rsplit('.', 2)[-2]}.{cn.rsplit('.', 1)[-1]}",
                             f"the result of `{cn}` (any JSON/YAML value: null, number, string, list) is returned as "
                             f"`{ret_ann[:40]}` without an isinstance check; callers apply container operations to it",
                             where(f, n), lhs=cn, rhs="isinstance(..., dict) check before returning")
    # the same, when the check exists, is an ok obligation
    for f in funcs:
        if f.name == "_load_yaml_or_json":
            guarded = any(isinstance(n, ast.Call) and call_name(n) == "isinstance" for n in ast.walk(f.node))
            if guarded and n_src == 0:
                rep.ok("R06.2", f"{short(f)}::container-check", "isinstance check", "present")

    # (iv) container operations on document values that may be scalars
    _container_operations(rep, ctx, [f for f in funcs if not f.module.name.startswith(f"{PKG}.schema") or f in validators], validators)

    # (v) hash operations on document values that may be unhashable
    _hash_operations(rep, ctx, [f for f in funcs if not f.module.name.startswith(f"{PKG}.schema") or f in validators], validators)

    # (vi) optional sections of the document handed on where a container is expected
    _none_arguments(rep, ctx, [f for f in funcs if not f.module.name.startswith(f"{PKG}.schema")])

    # (vii) optional values of the document handed to operations that reject None
    _none_operations(rep, ctx, [f for f in funcs if not f.module.name.startswith(f"{PKG}.schema") or f in validators], validators)

    # (viii) positional element accesses on document sequences that may be too short
    _positional_accesses(rep, ctx, [f for f in funcs if not f.module.name.startswith(f"{PKG}.schema") or f in validators], validators)

    # ------------------------------------------------------------------------------------------------- R06.3
    rep.floor("dispatch_sites", len(ji.dispatches), 40)
    for dk, d in sorted(ji.dispatches.items(), key=lambda kv: (kv[1].template, kv[1].macro, kv[1].expr)):
        key = f"{d.template}::{d.macro}::{d.alias}.{d.attr}"
        rep.check(not d.missing_in, "R06.3", key,
                  f"`{d.alias}.{d.attr}(...)` is called without a guard but {sorted(set(d.missing_in))} do(es) not define `{d.attr}` "
                  "(jinja2 UndefinedError at render time)", where=f"{PKG}/templates/{d.template}:{d.line}",
                  lhs=f"candidates {len(d.candidates)}", rhs="all define the macro")
    for k, msg in sorted(ji.undefined_names.items()):
        if msg.startswith("macro ") and "is not defined in" in msg:
            rep.observe(f"{k[0]}: {msg} (imported but never used)")
        elif msg.startswith("name `") and _only_asked_whether_defined(ctx, k[0], k[1], k[2]):
            # asking whether a name is defined is not a use of it, and a use placed under that question is not reached without it
            rep.ok("R06.3", f"{k[0]}::{k[1]}::{k[2]}", "unbound name", "read only under `is defined`")
        else:
            rep.fail("R06.3", f"{k[0]}::{k[1]}::{k[2]}", msg, where=f"{PKG}/templates/{k[0]}")

    # ------------------------------------------------------------------------------------------------- R06.4
    _termination(rep, ctx, cfgs)

    # ------------------------------------------------------------------------------------------------- R06.5
    _exit_status(rep, ctx, cfgs)
    _diagnostics_returned(rep, ctx)
    return LEVEL


def _only_asked_whether_defined(ctx: Any, tname: str, macro: str, name: str) -> bool:
    """every place of the template (as rendered: a child of a layout is the layout with the child's blocks in place) that reads the
    name NAME either asks `NAME is defined` / `NAME is undefined` - which is no use of it - or is reached only when that question
    was answered `defined`: on every assignment of truth values to the atoms of the conditions it sits under (`{% if %}` / `elif` /
    `else`, loop filters, the left operand of `and` / `or`, the test of a conditional expression) that lets it be reached.  A name
    with no such place, or with one place that is not covered, stays reported."""
    from jinja2 import nodes

    from .. import tplq

    ti = ctx.jinja.templates.get(tname)
    if ti is None:
        return False
    start: list[Any] = [ti.macros[macro]] if macro in ti.macros else list(ti.tree.body) if macro == "<top>" else []
    uses: list[tuple[tuple, tuple]] = []  # (guard nodes, polarities) per reading occurrence

    def asks(t: Any) -> bool:
        return isinstance(t, nodes.Test) and t.name in ("defined", "undefined") and isinstance(t.node, nodes.Name) and t.node.name == name

    def visit(n: Any, gn: tuple, pol: tuple) -> None:
        if isinstance(n, nodes.Macro) and n not in start:
            return
        if isinstance(n, nodes.Name):
            if n.name == name and n.ctx == "load":
                uses.append((gn, pol))
            return
        if asks(n):
            for a in n.args:
                visit(a, gn, pol)
            return
        if isinstance(n, nodes.If):
            visit(n.test, gn, pol)
            for b in n.body:
                visit(b, gn + (n.test,), pol + (True,))
            g2, p2 = gn + (n.test,), pol + (False,)
            for el in n.elif_:
                visit(el.test, g2, p2)
                for b in el.body:
                    visit(b, g2 + (el.test,), p2 + (True,))
                g2, p2 = g2 + (el.test,), p2 + (False,)
            for b in n.else_ or []:
                visit(b, g2, p2)
            return
        if isinstance(n, nodes.For):
            visit(n.iter, gn, pol)
            visit(n.target, gn, pol)
            if n.test is not None:
                visit(n.test, gn, pol)
            for b in n.body:
                visit(b, gn + ((n.test,) if n.test is not None else ()), pol + ((True,) if n.test is not None else ()))
            for b in n.else_ or []:
                visit(b, gn, pol)
            return
        if isinstance(n, (nodes.And, nodes.Or)):
            visit(n.left, gn, pol)
            visit(n.right, gn + (n.left,), pol + (isinstance(n, nodes.And),))
            return
        if isinstance(n, nodes.CondExpr):
            visit(n.test, gn, pol)
            visit(n.expr1, gn + (n.test,), pol + (True,))
            if n.expr2 is not None:
                visit(n.expr2, gn + (n.test,), pol + (False,))
            return
        for c in n.iter_child_nodes():
            visit(c, gn, pol)

    for n in start:
        visit(n, (), ())
    if not uses:
        return True if _asked_somewhere(start, asks) else False
    for gn, pol in uses:
        # the atoms that ask about NAME, among the atoms of the conditions above this place
        asking = {tplq.expr_text(t): t.name == "defined" for g in gn for t in g.find_all(nodes.Test) if asks(t)}
        asking.update({tplq.expr_text(g): g.name == "defined" for g in gn if asks(g)})
        if not asking:
            return False
        fr = tplq.Frag("expr", name, 0, tuple((tplq.expr_text(g), p) for g, p in zip(gn, pol)), gn, ())
        if len(tplq.guard_atoms(fr)) > 10 or not any(tplq.implies(fr, a, v) for a, v in asking.items()):
            return False
    return True


def _asked_somewhere(start: list[Any], asks: Any) -> bool:
    from jinja2 import nodes

    return any(asks(t) for n in start for t in ([n] if asks(n) else []) + list(n.find_all(nodes.Test)))


def _callee(ix: Any, f: FuncInfo, c: ast.Call) -> FuncInfo | None:
    """the function of the repository a call made in f goes to: a nested function of f, a method reached through self / cls, or
    whatever the (dotted) name resolves to in f's module"""
    cn = dotted(c.func)
    if cn is None:
        return None
    head, _, last = cn.rpartition(".")
    if not head:
        g: FuncInfo | None = f
        while g is not None:
            for h in ix.all_functions:
                if h.parent is g and h.name == last:
                    return h
            g = g.parent
    if head in ("self", "cls") and f.cls is not None:
        return ix.find_method(f.cls, last)
    r = ix.resolve(f.module, cn)
    return r[1] if r and r[0] == "func" else None


def _raised_names(ix: Any, f: FuncInfo, e: ast.expr, depth: int = 0, seen: frozenset[str] = frozenset()) -> list[str]:
    """class names of the exception objects `raise e` can raise in f.  `raise helper(...)` raises what the helper returns, `raise x`
    what the local x was bound to (the caught exception for a handler variable); whatever is not followed keeps its own text and is
    then treated like an unknown exception class."""
    from ..astutil import Locals

    def own(x: ast.expr) -> str:
        txt = call_name(x) if isinstance(x, ast.Call) else (dotted(x) or norm(x))
        return txt.rsplit(".", 1)[-1]

    out: list[str] = []
    if isinstance(e, ast.IfExp):
        cands = _raised_names(ix, f, e.body, depth, seen) + _raised_names(ix, f, e.orelse, depth, seen)
    elif isinstance(e, ast.Call) and depth < 3 and (h := _callee(ix, f, e)) is not None and h.qual not in seen:
        rets = [r for r in _own_nodes(h.node) if isinstance(r, ast.Return)]
        cands = [nm for r in rets for nm in (_raised_names(ix, h, r.value, depth + 1, seen | {h.qual}) if r.value is not None else [own(e)])]
        cands = cands or [own(e)]
    elif isinstance(e, ast.Name) and depth < 3 and e.id not in seen:
        cands = []
        defs = Locals(f.node).defs.get(e.id, [])
        for kind, _, v in defs:
            if kind == "assign" and v is not None:
                cands += _raised_names(ix, f, v, depth + 1, seen | {e.id})  # type: ignore[arg-type]
            elif kind == "except" and v is not None:
                cands += [own(t) for t in (v.elts if isinstance(v, ast.Tuple) else [v])]  # type: ignore[attr-defined]
            else:
                cands.append(e.id)
        cands = cands or [e.id]
    else:
        cands = [own(e)]
    for c in cands:
        if c not in out:
            out.append(c)
    return out


def _owner(ix: Any, f: FuncInfo, node: ast.AST) -> FuncInfo:
    """the innermost function that lexically contains node"""
    best = f
    for g in ix.all_functions:
        if g.parent is not None and g is not f and _contains(g.node, node) and _contains(f.node, g.node):
            best = g
    return best


def _contains(a: ast.AST, b: ast.AST) -> bool:
    return any(x is b for x in ast.walk(a))


def _isinstance_guarded(fn: ast.AST, node: ast.AST, var: str) -> bool:
    """node sits in the body (or the true arm of a conditional expression) of a test isinstance(var, <container>)"""
    ok = False

    def rec(cur: ast.AST, guarded: bool) -> None:
        nonlocal ok
        if cur is node:
            ok = ok or guarded
            return
        if isinstance(cur, (ast.If, ast.IfExp)):
            g = guarded or _tests_container(cur.test, var)
            body = cur.body if isinstance(cur.body, list) else [cur.body]
            for k in body:
                rec(k, g)
            orelse = cur.orelse if isinstance(cur.orelse, list) else [cur.orelse]
            for k in orelse:
                if isinstance(k, ast.AST):
                    rec(k, guarded)
            rec(cur.test, guarded)
            return
        if isinstance(cur, ast.BoolOp) and isinstance(cur.op, ast.And):
            g = guarded
            for v in cur.values:
                rec(v, g)
                g = g or _tests_container(v, var)
            return
        for k in ast.iter_child_nodes(cur):
            rec(k, guarded)

    rec(fn, False)
    return ok


def _tests_container(test: ast.expr, var: str) -> bool:
    for n in ast.walk(test):
        if isinstance(n, ast.Call) and call_name(n) == "isinstance" and len(n.args) == 2 and isinstance(n.args[0], ast.Name) \
                and n.args[0].id == var:
            names = [dotted(x) or "" for x in (n.args[1].elts if isinstance(n.args[1], ast.Tuple) else [n.args[1]])]
            if all(x.rsplit(".", 1)[-1] in ("dict", "list", "str", "tuple", "set", "Mapping", "Sequence") for x in names):
                return True
    return False


def _escapes_to_entry(ix: Any, it: Any, f: FuncInfo, ename: str) -> list[str] | None:
    """breadth-first over callers: a path from f up to an entry point on which no call site is inside a matching try"""
    callers: dict[str, set[str]] = {}
    for a, bs in it.call_edges.items():
        for b in bs:
            callers.setdefault(b, set()).add(a)
    entries = {f"{PKG}.generate", f"{PKG}.cli.generate", f"{PKG}.parser.openapi.GeneratorData.from_dict"}
    seen = {f.qual}
    frontier: list[tuple[str, list[str]]] = [(f.qual, [short(f)])]
    while frontier:
        q, path = frontier.pop(0)
        if q in entries:
            return path
        for c in sorted(callers.get(q, ())):
            if c in seen:
                continue
            cf = it.func_by_qual.get(c)
            if cf is None:
                continue
            # is every call site of q in c protected?
            prot = True
            found = False
            tgt_name = q.rsplit(".", 1)[-1]
            for n in ast.walk(cf.node):
                if isinstance(n, ast.Call) and call_name(n).rsplit(".", 1)[-1] in (tgt_name, "build" if tgt_name == "build" else tgt_name):
                    found = True
                    if not caught(ename, handlers_around(cf.node, n)):
                        prot = False
            if found and prot:
                continue
            seen.add(c)
            frontier.append((c, path + [short(cf)]))
    return None


def _termination(rep: Report, ctx: Any, cfgs: dict[str, CFG]) -> None:
    """R06.4.  Instances: every `while` statement and every recursive strongly connected component of the call graph.  Oracle: one of
    five ranking arguments holds, each decided on the statement CFG of the function (edges labelled with the outcome of the test they
    leave) and on value flow between the names involved - never on the spelling of a local or on the syntactic shape of the loop:
      (1) fresh element of a finite universe / (4) removal before repeating  -> `_bounded_events`
      (2) growing bounded set with change test                               -> `_growing_set`
      (3) progress rounds over a shrinking work list                         -> `_progress_rounds`
      (5) structural recursion on the finite document / property tree        -> `_structural` (call graph), `_queue_transfer` (the
          same argument for a loop that keeps the pending sub-trees on an explicit stack / queue)"""
    ix = ctx.py
    it, _ = ctx.flow
    n_loops = 0
    for f in ix.all_functions:
        for n in _own_nodes(f.node):
            if not isinstance(n, ast.While):
                continue
            n_loops += 1
            key = f"{short(f)}::while {norm(n.test)[:50]}"
            pat, why = _while_pattern(f, n, ix)
            rep.check(pat is not None, "R06.4", key, f"while loop matches no ranking argument ({why})", where(f, n),
                      lhs=norm(n.test)[:60], rhs="fresh element | growing bounded set | progress rounds | removal before repeating",
                      pattern=pat)
    rep.floor("while_loops", n_loops, 2)
    # recursive cycles of the call graph
    edges = {a: {b for b in bs if b in it.func_by_qual} for a, bs in it.call_edges.items()}
    sccs = _sccs(edges)
    rec = [sorted(c) for c in sccs if len(c) > 1 or next(iter(c)) in edges.get(next(iter(c)), ())]
    rep.indexed["recursive_cycles"] = len(rec)
    for comp in sorted(rec):
        names = [q.replace(PKG + ".", "") for q in comp]
        key = "cycle{" + ",".join(n.rsplit(".", 1)[-1] for n in names)[:120] + "}"
        pat, why = _cycle_pattern(ix, it, comp, edges)
        rep.check(pat is not None, "R06.4", key, f"recursive cycle {names} matches no ranking argument ({why})", where="",
                  lhs=names[:6], rhs="structural | fresh element | removal before recursing | growing bounded set | progress rounds",
                  pattern=pat)
    # the loops the source does not show: backtracking matches of regular expressions
    _regex_termination(rep, ctx)


def _while_pattern(f: FuncInfo, n: ast.While, ix: Any = None) -> tuple[str | None, str]:
    return _first_argument(_Round(_Flow(f, ix), loop=n), _Why())


class _Why:
    """the reason reported for an instance that matches no argument: that of the attempt that got furthest"""

    def __init__(self) -> None:
        self.best: list[tuple[int, str]] = []

    def add(self, stage: int, text: str) -> None:
        self.best.append((stage, text))

    def text(self) -> str:
        top = max((s for s, _ in self.best), default=0)
        out: list[str] = []
        for s_, t in self.best:
            if s_ == top and t not in out:
                out.append(t)
        return "; ".join(out[:3])


def _first_argument(rnd: "_Round", why: _Why) -> tuple[str | None, str]:
    for arg in (_bounded_events, _growing_set, _progress_rounds):
        pat = arg(rnd, why)
        if pat is not None:
            return pat, ""
    return None, why.text()


def _sccs(edges: dict[str, set[str]]) -> list[set[str]]:
    index: dict[str, int] = {}
    low: dict[str, int] = {}
    stack: list[str] = []
    on: set[str] = set()
    out: list[set[str]] = []
    counter = [0]
    import sys

    sys.setrecursionlimit(10000)

    def strong(v: str) -> None:
        index[v] = low[v] = counter[0]
        counter[0] += 1
        stack.append(v)
        on.add(v)
        for w in edges.get(v, ()):
            if w not in index:
                strong(w)
                low[v] = min(low[v], low[w])
            elif w in on:
                low[v] = min(low[v], index[w])
        if low[v] == index[v]:
            comp = set()
            while True:
                w = stack.pop()
                on.discard(w)
                comp.add(w)
                if w == v:
                    break
            out.append(comp)

    for v in sorted(set(edges) | {w for ws in edges.values() for w in ws}):
        if v not in index:
            strong(v)
    return out


def _cycle_pattern(ix: Any, it: Any, comp: list[str], edges: dict[str, set[str]] | None = None) -> tuple[str | None, str]:
    fs = [it.func_by_qual[q] for q in comp]
    reasons = _Why()
    # (5) every cycle of the component contains a call that descends into a strict sub-object of a parameter
    pat, why = _structural(ix, fs, edges or {}, it)
    if pat is not None:
        return pat, ""
    reasons.add(1, why)
    # (1) (2) (3) (4): the same arguments as for loops, a round being one activation of a directly recursive function
    if len(fs) == 1:
        f = fs[0]
        fl = _Flow(f, ix)
        calls = [(st, c) for st in fl.cfg.stmts() for c in walk_own(st) if isinstance(c, ast.Call) and _calls_function(c, f)]
        if calls:
            return _first_argument(_Round(fl, calls=calls), reasons)
    else:
        reasons.add(1, "the other ranking arguments are only decided for a directly recursive function")
    return None, reasons.text()


# ---------------------------------------------------------------------------------------------------------------------------------
# R06.4 machinery.  A ROUND is one repetition: the body of a `while` (from the loop head back to the loop head) or one activation of
# a recursive function (from its entry to a recursive call).  Paths are paths of the statement CFG; an edge that leaves an `if` /
# `while` test carries the facts the outcome implies (truth table over the test's atoms), so `while c:` and `while True: if not c:
# break`, early return and nested if, `x not in s` and `not x in s` are the same decision.

from ..cfg import ENTRY as _ENTRY  # noqa: E402

_GROW = {"add", "append", "appendleft", "extend", "extendleft", "insert", "update", "setdefault"}
_SHRINK = {"remove", "discard", "pop", "popleft", "popitem", "clear", "difference_update", "intersection_update",
           "symmetric_difference_update"}
_READONLY = {"len", "set", "frozenset", "list", "tuple", "sorted", "reversed", "bool", "any", "all", "isinstance", "iter", "enumerate",
             "zip", "print", "repr", "str", "min", "max", "sum", "dict", "id", "type"}
_WRAPPERS = {"list", "tuple", "sorted", "reversed", "iter", "enumerate", "set", "frozenset", "chain", "cast", "zip", "filter", "deepcopy",
             "copy"}
_ELEMENT_METHODS = {"items", "values", "keys", "get", "copy", "pop", "union", "intersection"}


def _own_nodes(fn: ast.AST) -> list[ast.AST]:
    """all nodes of the function's body that belong to the function itself (nested function / class definitions are not entered)"""
    out: list[ast.AST] = []
    todo: list[ast.AST] = list(ast.iter_child_nodes(fn))
    i = 0
    while i < len(todo):  # breadth first, in source order (like ast.walk)
        n = todo[i]
        i += 1
        out.append(n)
        if not isinstance(n, (ast.FunctionDef, ast.AsyncFunctionDef, ast.ClassDef)):
            todo.extend(ast.iter_child_nodes(n))
    return out


def _walk_all(nodes: list[ast.AST]) -> list[ast.AST]:
    out: list[ast.AST] = []
    for r in nodes:
        out.append(r)
        out.extend(_own_nodes(r))
    return out


def _const_truth(e: ast.expr) -> bool | None:
    return bool(e.value) if isinstance(e, ast.Constant) else None


def _atom_nodes(e: ast.expr, out: dict[str, ast.expr]) -> None:
    if isinstance(e, ast.BoolOp):
        for v in e.values:
            _atom_nodes(v, out)
    elif isinstance(e, ast.UnaryOp) and isinstance(e.op, ast.Not):
        _atom_nodes(e.operand, out)
    else:
        out.setdefault(norm(e), e)


def _implied(test: ast.expr, outcome: bool) -> list[tuple[ast.expr, bool]]:
    """atoms of the test whose value is the same in every row of the truth table in which the test evaluates to `outcome`"""
    from ..astutil import bool_eval

    atoms: dict[str, ast.expr] = {}
    _atom_nodes(test, atoms)
    if len(atoms) > 8:
        return []
    import itertools

    names = list(atoms)
    rows = []
    for vals in itertools.product([False, True], repeat=len(names)):
        env = dict(zip(names, vals))
        if bool_eval(test, env) == outcome:
            rows.append(env)
    return [(atoms[a], rows[0][a]) for a in names if rows and all(r[a] == rows[0][a] for r in rows)]


def _strip_len(e: ast.expr) -> ast.expr:
    while isinstance(e, ast.Call) and call_name(e) in ("len", "bool") and len(e.args) == 1 and not e.keywords:
        e = e.args[0]
    return e


def _atom_facts(node: ast.expr, val: bool) -> list[tuple]:
    """('in', x, S, bool) / ('truthy', x, bool) / ('differs', a, b) implied by an atom having the value val"""
    out: list[tuple] = []
    if isinstance(node, ast.Compare) and len(node.ops) == 1:
        op, left, right = node.ops[0], node.left, node.comparators[0]
        if isinstance(op, (ast.In, ast.NotIn)):
            return [("in", norm(left), norm(right), val == isinstance(op, ast.In))]
        mirror = {ast.Gt: ast.Lt, ast.Lt: ast.Gt, ast.GtE: ast.LtE, ast.LtE: ast.GtE}
        if isinstance(left, ast.Constant) and not isinstance(right, ast.Constant):
            left, right = right, left
            op = mirror.get(type(op), type(op))()
        if isinstance(right, ast.Constant) and isinstance(right.value, (int, bool)):
            c = int(right.value)
            nonzero = {(ast.Gt, 0): True, (ast.GtE, 1): True, (ast.NotEq, 0): True, (ast.Eq, 0): False, (ast.Lt, 1): False,
                       (ast.LtE, 0): False}.get((type(op), c))
            if nonzero is not None:
                out.append(("truthy", norm(_strip_len(left)), val == nonzero))
        differs = {ast.NotEq: True, ast.Eq: False, ast.Gt: True, ast.Lt: True, ast.IsNot: True, ast.Is: False}.get(type(op))
        if differs is not None and val == differs:
            out.append(("differs", norm(left), norm(right)))
        return out
    return [("truthy", norm(_strip_len(node)), val)]


_NAMES_CACHE: dict[str, frozenset[str]] = {}


def _names_of(text: str) -> frozenset[str]:
    if text not in _NAMES_CACHE:
        try:
            _NAMES_CACHE[text] = frozenset(n.id for n in ast.walk(ast.parse(text, mode="eval")) if isinstance(n, ast.Name))
        except SyntaxError:
            _NAMES_CACHE[text] = frozenset()
    return _NAMES_CACHE[text]


def _fact_names(fact: tuple) -> frozenset[str]:
    out: frozenset[str] = frozenset()
    for part in fact[1:]:
        if isinstance(part, str):
            out |= _names_of(part)
    return out


def _flat_targets(t: ast.AST) -> list[ast.AST]:
    if isinstance(t, (ast.Tuple, ast.List)):
        return [x for e in t.elts for x in _flat_targets(e)]
    if isinstance(t, ast.Starred):
        return _flat_targets(t.value)
    return [t]


def _root(e: ast.AST) -> str | None:
    while isinstance(e, (ast.Attribute, ast.Subscript)):
        e = e.value
    return e.id if isinstance(e, ast.Name) else None


def _binds(st: ast.AST) -> set[str]:
    """names the statement node itself (re)binds, plus the roots of attribute / item stores (their old value is gone as well)"""
    out: set[str] = set()
    for n in walk_own(st):  # type: ignore[arg-type]
        if isinstance(n, ast.Name) and isinstance(n.ctx, (ast.Store, ast.Del)):
            out.add(n.id)
        elif isinstance(n, (ast.Attribute, ast.Subscript)) and isinstance(n.ctx, (ast.Store, ast.Del)):
            r = _root(n)
            if r:
                out.add(r)
    if isinstance(st, ast.ExceptHandler) and st.name:
        out.add(st.name)
    return out


def _binds_name(st: ast.AST, name: str) -> bool:
    """the statement (re)binds the plain name"""
    if isinstance(st, ast.ExceptHandler):
        return st.name == name
    return any(isinstance(n, ast.Name) and n.id == name and isinstance(n.ctx, (ast.Store, ast.Del)) for n in walk_own(st))  # type: ignore[arg-type]


def _pure(e: ast.AST) -> bool:
    if isinstance(e, ast.Name):
        return True
    if isinstance(e, ast.Attribute):
        return _pure(e.value)
    if isinstance(e, ast.Subscript):
        return _pure(e.value) and isinstance(e.slice, (ast.Constant, ast.Name))
    return False


class _Effects:
    """what one statement does to collections: (collection text, element text) pairs"""

    def __init__(self, st: ast.AST) -> None:
        self.inserts: list[tuple[str, str]] = []
        self.deletes: list[tuple[str, str]] = []
        self.pops: list[str] = []
        self.pushes: list[str] = []
        self.mutated: set[str] = set()
        for n in walk_own(st):  # type: ignore[arg-type]
            if isinstance(n, ast.Call) and isinstance(n.func, ast.Attribute):
                recv, a = norm(n.func.value), n.func.attr
                if a in _GROW or a in _SHRINK:
                    self.mutated.add(recv)
                if a in ("add", "append", "appendleft", "setdefault") and n.args:
                    self.inserts.append((recv, norm(n.args[0])))
                if a in _GROW and a != "setdefault":
                    self.pushes.append(recv)
                if a in ("pop", "popleft", "popitem") and len(n.args) <= 1:  # pop(key, default) need not remove anything
                    self.pops.append(recv)
                if a in ("pop", "remove", "discard") and n.args:
                    self.deletes.append((recv, norm(n.args[0])))
        if isinstance(st, (ast.Assign, ast.AugAssign, ast.AnnAssign)):
            tgts = st.targets if isinstance(st, ast.Assign) else [st.target]
            for t in [x for tt in tgts for x in _flat_targets(tt)]:
                if isinstance(t, ast.Subscript):
                    self.inserts.append((norm(t.value), norm(t.slice)))
                    self.mutated.add(norm(t.value))
            if isinstance(st, ast.Assign) and len(st.targets) == 1 and isinstance(st.targets[0], ast.Name):
                nm, v = st.targets[0].id, st.value
                if isinstance(v, ast.BinOp) and isinstance(v.op, (ast.BitOr, ast.Add)) and norm(v.left) == nm \
                        and isinstance(v.right, (ast.Set, ast.List)) and len(v.right.elts) == 1:
                    self.inserts.append((nm, norm(v.right.elts[0])))
                elif isinstance(v, (ast.Set, ast.List)) and len(v.elts) == 2 and isinstance(v.elts[0], ast.Starred) and norm(v.elts[0].value) == nm:
                    self.inserts.append((nm, norm(v.elts[1])))
            if isinstance(st, ast.AugAssign) and isinstance(st.target, ast.Name):
                self.mutated.add(st.target.id)
                if isinstance(st.op, (ast.Add, ast.BitOr)):
                    self.pushes.append(st.target.id)
                    if isinstance(st.value, (ast.Set, ast.List)) and len(st.value.elts) == 1:
                        self.inserts.append((st.target.id, norm(st.value.elts[0])))
        if isinstance(st, ast.Delete):
            for t in st.targets:
                if isinstance(t, ast.Subscript):
                    self.deletes.append((norm(t.value), norm(t.slice)))
                    self.mutated.add(norm(t.value))


class _Flow:
    """the statement CFG of one function with labelled edges"""

    def __init__(self, f: FuncInfo, ix: Any) -> None:
        self.f = f
        self.ix = ix
        self.cfg = CFG(f.node)
        self._facts: dict[tuple[int, bool], frozenset] = {}
        self._eff: dict[int, _Effects] = {}

    def out(self, a: object) -> list[tuple[object, bool | None]]:
        res: list[tuple[object, bool | None]] = []
        for b in self.cfg.succ.get(a, ()):
            lab: bool | None = None
            if isinstance(a, (ast.If, ast.While)) and not isinstance(b, ast.ExceptHandler):
                lab = b is a.body[0]
                const = _const_truth(a.test)
                if const is not None and lab != const:
                    continue  # `while True:` is never left through its test
            res.append((b, lab))
        return res

    def facts(self, a: object, lab: bool | None) -> frozenset:
        if lab is None or not isinstance(a, (ast.If, ast.While)):
            return frozenset()
        k = (id(a), lab)
        if k not in self._facts:
            out: set[tuple] = set()
            for node, val in _implied(a.test, lab):
                out |= set(_atom_facts(node, val))
            self._facts[k] = frozenset(out)
        return self._facts[k]

    def effects(self, st: ast.AST) -> _Effects:
        if id(st) not in self._eff:
            self._eff[id(st)] = _Effects(st)
        return self._eff[id(st)]

    @staticmethod
    def inside(st: ast.AST) -> set[int]:
        """ids of the CFG nodes lexically inside the body of a compound statement"""
        return {id(n) for s in st.body for n in ast.walk(s) if isinstance(n, (ast.stmt, ast.ExceptHandler))}  # type: ignore[attr-defined]

    def exits(self, st: ast.AST) -> list[tuple[object, bool | None, object]]:
        """edges on which control leaves a statement for good: for a `for` loop the edges from its header or body to a node outside"""
        if isinstance(st, (ast.For, ast.AsyncFor)):
            ins = self.inside(st)
            srcs = [st] + [n for n in self.cfg.stmts() if id(n) in ins] + [n for n in self.cfg.nodes if isinstance(n, ast.ExceptHandler) and id(n) in ins]
            return [(a, lab, b) for a in srcs for b, lab in self.out(a) if b is not st and id(b) not in ins]
        return [(st, lab, b) for b, lab in self.out(st)]

    def reach(self, edges0: list[tuple[object, bool | None, object]], targets: list[object], stop_edge: Any = None, stop_node: Any = None,
              inside: set[int] | None = None) -> list[object]:
        """targets reached by a path that starts with one of edges0, stays inside the round, crosses no stop edge and passes no stop node"""
        hits: list[object] = []
        work = [b for a, lab, b in edges0 if not (stop_edge and stop_edge(a, lab))]
        seen: set[int] = set()
        while work:
            n = work.pop()
            if id(n) in seen:
                continue
            seen.add(id(n))
            if any(n is t for t in targets):
                hits.append(n)
                continue
            if inside is not None and id(n) not in inside:
                continue
            if stop_node and stop_node(n):
                continue
            for b, lab in self.out(n):
                if not (stop_edge and stop_edge(n, lab)):
                    work.append(b)
        return hits


def _close(st: frozenset) -> frozenset:
    """membership facts hold for every live alias of the tested expression"""
    al = [(f[1], f[2]) for f in st if f[0] == "alias"]
    if not al:
        return st
    out = set(st)
    for _ in range(2):
        for f in list(out):
            if f[0] != "in":
                continue
            for a, b in al:
                if f[1] == a:
                    out.add(("in", b, f[2], f[3]))
                elif f[1] == b:
                    out.add(("in", a, f[2], f[3]))
    return frozenset(out)


class _Round:
    def __init__(self, fl: _Flow, loop: ast.While | None = None, calls: list[tuple[ast.stmt, ast.Call]] | None = None) -> None:
        self.fl = fl
        self.loop = loop
        self.calls = calls or []
        if loop is not None:
            self.entry = [(loop, True, loop.body[0])] if _const_truth(loop.test) is not False else []
            self.targets: list[object] = [loop]
            self.inside: set[int] | None = fl.inside(loop)
            self.nodes: list[ast.AST] = list(loop.body)
            self.tests: list[ast.AST] = [loop]
        else:
            self.entry = [(_ENTRY, None, b) for b, _ in fl.out(_ENTRY)]
            self.targets = [st for st, _ in self.calls]
            self.inside = None
            self.nodes = list(fl.f.node.body)
            self.tests = []
        self.own = _walk_all(self.nodes)
        self.stmts = [n for n in self.own if isinstance(n, (ast.stmt, ast.ExceptHandler))]
        self.tests += [n for n in self.stmts if isinstance(n, (ast.If, ast.While))]
        self.what = "loop" if loop is not None else "recursion"

    def binders(self, name: str) -> list[ast.AST]:
        return [s for s in self.stmts if _binds_name(s, name)]

    def test_edges(self, pred: Any) -> list[tuple[object, bool | None, object]]:
        return [(a, lab, b) for a in self.tests for b, lab in self.fl.out(a) if lab is not None and pred(self.fl.facts(a, lab))]

    def lexically_repeated(self, st: ast.AST) -> bool:
        """st sits inside a for / while nested in the round (it may run more than once per round)"""
        for n in self.stmts:
            if isinstance(n, (ast.For, ast.AsyncFor, ast.While)) and n is not st and n is not self.loop:
                if any(x is st for x in ast.walk(n)):
                    return True
        return False


def _calls_function(c: ast.Call, f: FuncInfo) -> bool:
    cn = call_name(c)
    last = cn.rsplit(".", 1)[-1]
    head = cn.rsplit(".", 1)[0] if "." in cn else ""
    if last != f.name:
        return False
    if f.cls is None:
        return head == ""
    return head in ("self", "cls", f.cls.name)


def _region_helpers(ix: Any, f: FuncInfo) -> dict[str, FuncInfo]:
    from ..astutil import region

    out: dict[str, FuncInfo] = {}
    for h in region(ix, f)[1:] if ix is not None else []:
        out.setdefault(h.name, h)
    return out


def _helper_of(ix: Any, f: FuncInfo, c: ast.Call) -> FuncInfo | None:
    cn = call_name(c)
    last = cn.rsplit(".", 1)[-1]
    head = cn.rsplit(".", 1)[0] if "." in cn else ""
    if head not in ("", "self", "cls") and not head[:1].isupper():
        return None
    return _region_helpers(ix, f).get(last)


def _param_for(h: FuncInfo, c: ast.Call, pos: int | str) -> str | None:
    """name of the parameter of h that receives the positional (int) / keyword (str) argument of the call"""
    params = [p.arg for p in h.params]
    if isinstance(pos, str):
        return pos if pos in params else None
    off = 1 if h.kind in ("method", "classmethod") and isinstance(c.func, ast.Attribute) else 0
    n_pos = len(h.node.args.posonlyargs) + len(h.node.args.args)
    return params[off + pos] if off + pos < n_pos else None


def _arg_for(h: FuncInfo, c: ast.Call, param: str) -> ast.expr | None:
    for k in c.keywords:
        if k.arg == param:
            return k.value
    for i, a in enumerate(c.args):
        if _param_for(h, c, i) == param:
            return a
    return None


def _mut_kinds(ix: Any, f: FuncInfo, nodes: list[ast.AST], coll: ast.expr, depth: int = 0, skip: set[str] | None = None) -> set[str]:
    """what the code does to a collection (a local name, or an attribute identified by its attribute name): 'grow', 'shrink',
    'rebind' (the name / attribute is given another object), 'escape' (handed on in a way that is not followed).  A function of the
    repository that receives the collection is followed (two levels) through the parameter that receives it."""
    kinds: set[str] = set()
    is_name = isinstance(coll, ast.Name)
    if not is_name and not isinstance(coll, ast.Attribute):
        return {"escape"}
    skip = skip if skip is not None else set()

    def m(e: ast.AST) -> bool:
        if is_name:
            return isinstance(e, ast.Name) and e.id == coll.id  # type: ignore[attr-defined]
        return isinstance(e, ast.Attribute) and e.attr == coll.attr  # type: ignore[attr-defined]

    croot = _root(coll)
    for n in _walk_all(nodes):
        if isinstance(n, ast.Call):
            if isinstance(n.func, ast.Attribute) and m(n.func.value):
                if n.func.attr in _GROW:
                    kinds.add("grow")
                elif n.func.attr in _SHRINK:
                    kinds.add("shrink")
                continue
            args: list[tuple[int | str, ast.expr]] = [(i, a) for i, a in enumerate(n.args)] + [(k.arg or "**", k.value) for k in n.keywords]
            passed = [(pos, a) for pos, a in args if m(a) or (not is_name and isinstance(a, ast.Name) and a.id == croot and croot not in ("self", "cls"))]
            if not is_name and any(k.arg == coll.attr for k in n.keywords):  # type: ignore[attr-defined]
                kinds.add("rebind")  # evolve(obj, attr=...)
            if not passed:
                continue
            h = _helper_of(ix, f, n) if ix is not None else None
            last = call_name(n).rsplit(".", 1)[-1]
            if h is None and _calls_function(n, f):
                h = f
            # the callee: a helper of the region, the function itself, else any function of the repository with that name; code outside
            # the repository (builtins, libraries, constructors) changes our collection only through the methods tracked above
            callees = [h] if h is not None else [g for g in ix.all_functions if g.name == last] if ix is not None and last not in _READONLY else []
            if len(callees) > 12:
                kinds.add("escape")
                continue
            for h in callees:
                if h.qual in skip or depth >= 2:
                    continue
                if is_name:
                    for pos, a in passed:
                        p = _param_for(h, n, pos)
                        if p is None:
                            kinds.add("escape")
                        elif h is not f or p != coll.id:  # type: ignore[attr-defined]
                            kinds |= _mut_kinds(ix, h, list(h.node.body), ast.Name(id=p, ctx=ast.Load()), depth + 1, skip | {f.qual}) - {"rebind"}
                elif h is not f:
                    kinds |= _mut_kinds(ix, h, list(h.node.body), coll, depth + 1, skip | {f.qual})
        elif isinstance(n, (ast.Assign, ast.AnnAssign, ast.AugAssign, ast.Delete, ast.For, ast.AsyncFor, ast.comprehension, ast.NamedExpr)) \
                or isinstance(n, ast.withitem):
            if isinstance(n, ast.Assign):
                tgts = n.targets
            elif isinstance(n, ast.Delete):
                tgts = n.targets
            elif isinstance(n, ast.withitem):
                tgts = [n.optional_vars] if n.optional_vars is not None else []
            else:
                tgts = [n.target]
            if isinstance(n, ast.AnnAssign) and n.value is None:
                continue
            for t in [x for tt in tgts for x in _flat_targets(tt)]:
                if m(t):
                    if isinstance(n, ast.AugAssign):
                        kinds.add("grow" if isinstance(n.op, (ast.Add, ast.BitOr)) else "shrink")
                    elif is_name and isinstance(n, (ast.Assign, ast.AnnAssign)) and _superset_of(n.value, coll.id):  # type: ignore[attr-defined]
                        kinds.add("grow")  # `s = s or set()`, `s = s | {x}`: still holds everything it held
                    else:
                        kinds.add("rebind")
                elif isinstance(t, ast.Subscript) and m(t.value):
                    kinds.add("shrink" if isinstance(n, ast.Delete) else "grow")
    return kinds


class _Scope:
    """the code of one round (and of the private helpers it calls) as far as it touches a given collection"""

    def __init__(self, rnd: _Round) -> None:
        self.rnd = rnd
        self._k: dict[str, set[str]] = {}

    def kinds(self, text: str) -> set[str]:
        if text not in self._k:
            try:
                coll = ast.parse(text, mode="eval").body
            except SyntaxError:
                self._k[text] = {"escape"}
                return self._k[text]
            fl = self.rnd.fl
            k = _mut_kinds(fl.ix, fl.f, self.rnd.nodes, coll)
            r = _root(coll)
            if isinstance(coll, ast.Attribute) and r is not None and r not in ("self", "cls") and self.rnd.binders(r):
                k.add("rebind")  # the object that carries the collection is replaced during the round
            if self.rnd.loop is None and not self._persists(coll):
                k.add("rebind")
            self._k[text] = k
        return self._k[text]

    def _persists(self, coll: ast.expr) -> bool:
        """recursion: the next activation sees the same collection - it hangs off `self`, or off a parameter handed on unchanged"""
        r = _root(coll)
        f = self.rnd.fl.f
        if r is None:
            return False
        if r in ("self", "cls"):
            return all(isinstance(c.func, ast.Attribute) and norm(c.func.value) == r for _, c in self.rnd.calls)
        if r not in [p.arg for p in f.params]:
            return False
        if isinstance(coll, ast.Name) and not all(isinstance(s, (ast.Assign, ast.AnnAssign)) and _superset_of(s.value, r) for s in self.rnd.binders(r)):
            return False
        for _, c in self.rnd.calls:
            a = _arg_for(f, c, r)
            if not (isinstance(a, ast.Name) and a.id == r):
                return False
        return True

    def only_grows(self, text: str) -> bool:
        return not (self.kinds(text) & {"shrink", "rebind", "escape"})

    def only_shrinks(self, text: str) -> bool:
        return not (self.kinds(text) & {"grow", "rebind", "escape"})


def _walk_paths(fl: _Flow, edges0: list, transfer: Any, targets: list[object], inside: set[int] | None,
                overflow: list[bool] | None = None) -> list[object]:
    """path-sensitive walk: the state is the set of facts (test outcomes, aliases) that hold; `transfer` returns the state after a
    statement or None when the path is satisfied.  Returns the targets reached by an unsatisfied path (`overflow` is told when the
    walk was given up)."""
    hits: list[object] = []
    work = [(b, _close(fl.facts(a, lab))) for a, lab, b in edges0]
    seen: set[tuple[int, frozenset]] = set()
    while work:
        n, st = work.pop()
        k = (id(n), st)
        if k in seen:
            continue
        if len(seen) > 20000:
            if overflow is not None:
                overflow.append(True)
            return hits + targets[:1]  # too many path states to decide: not proven
        seen.add(k)
        if any(n is t for t in targets):
            hits.append(n)
            continue
        if inside is not None and id(n) not in inside:
            continue
        if not isinstance(n, (ast.stmt, ast.ExceptHandler)):
            continue
        st2 = transfer(n, st)
        if st2 is None:
            continue
        for b, lab in fl.out(n):
            work.append((b, _close(st2 | fl.facts(n, lab))))
    return hits


def _event_transfer(fl: _Flow, scope: _Scope, queue: str | None, found: list[str], near: list[str] | None = None) -> Any:
    """a BOUNDED EVENT on a path: an element is inserted into a collection that only grows after the path has passed a test that it
    was not in it (fresh element of a finite universe), or a key is deleted from a map that only shrinks after the path has passed a
    test that it was in it.  Either can happen only finitely often."""

    def transfer(n: ast.AST, st: frozenset) -> frozenset | None:
        eff = fl.effects(n)
        for coll, x in eff.inserts:
            if ("in", x, coll, False) in st:
                if scope.only_grows(coll):
                    found.append(f"fresh element: `{x}` enters `{coll}` only after the test that it was not in it; `{coll}` only grows")
                    return None
                if near is not None:
                    near.append(f"`{x}` enters `{coll}` after the test that it was not in it, but `{coll}` does not only grow from round to "
                                f"round ({_kinds_text(scope.kinds(coll) & {'shrink', 'rebind', 'escape'})}): an element can come again")
        for coll, x in eff.deletes:
            if ("in", x, coll, True) in st:
                if scope.only_shrinks(coll):
                    found.append(f"removal before repeating: `{x}` is deleted from `{coll}` after the test that it was in it; nothing is "
                                 f"added to `{coll}`")
                    return None
                if near is not None:
                    near.append(f"`{x}` is deleted from `{coll}` after the test that it was in it, but `{coll}` does not only shrink from "
                                f"round to round ({_kinds_text(scope.kinds(coll) & {'grow', 'rebind', 'escape'})}): a key can come again")
        if queue is not None and queue in eff.pops:
            return None
        bound = _binds(n)
        st2 = frozenset(f for f in st if not (_fact_names(f) & bound) and not (f[0] == "in" and f[2] in eff.mutated))
        if isinstance(n, (ast.Assign, ast.AnnAssign)) and n.value is not None and _pure(n.value):
            tgts = n.targets if isinstance(n, ast.Assign) else [n.target]
            if len(tgts) == 1 and isinstance(tgts[0], ast.Name) and tgts[0].id not in _names_of(norm(n.value)):
                st2 = st2 | {("alias", tgts[0].id, norm(n.value))}
        return st2

    return transfer


def _kinds_text(kinds: set[str]) -> str:
    words = {"grow": "elements are added to it", "shrink": "elements are removed from it", "rebind": "it is replaced by another object",
             "escape": "it is handed on in a way that is not followed"}
    return ", ".join(words[k] for k in sorted(kinds))


def _bounded_events(rnd: _Round, why: _Why) -> str | None:
    """(1) fresh element of a finite universe and (4) removal before repeating: every path of the round that leads to a repetition
    passes a bounded event.  Work-queue form of the same arguments: every path back to the loop head takes an element off a queue or
    passes a bounded event, and elements are put on the queue only after a bounded event - between two events the queue only drains."""
    fl = rnd.fl
    scope = _Scope(rnd)
    found: list[str] = []
    near: list[str] = []
    hits = _walk_paths(fl, rnd.entry, _event_transfer(fl, scope, None, found, near), rnd.targets, rnd.inside)
    if not hits:
        if found:
            return "; ".join(sorted(set(found)))
        return f"the {rnd.what} never repeats: no path leads from its start to a repetition"
    tested = any(fact[0] == "in" for a in rnd.tests for lab in (True, False) for fact in fl.facts(a, lab))
    why.add(3 if found else 2 if tested else 0,
            f"a path through the {rnd.what} repeats without inserting an element that was tested to be new into a collection that only "
            "grows, and without deleting a key that was tested to be present from a map that only shrinks")
    for t in sorted(set(near)):
        why.add(4, t)
    if rnd.loop is not None:
        queues = sorted({q for s in rnd.stmts for q in fl.effects(s).pops if q.isidentifier()})
        for q in queues:
            if scope.kinds(q) & {"rebind", "escape"}:
                continue
            found2: list[str] = []
            if _walk_paths(fl, rnd.entry, _event_transfer(fl, scope, q, found2), rnd.targets, rnd.inside):
                why.add(2, f"a path repeats without taking an element off `{q}` and without a bounded event")
                continue
            growth = _queue_growth(fl, rnd, q)
            found3: list[str] = []
            bad: list[str] = []
            descents: list[str] = []
            over: list[bool] = []
            _walk_paths(fl, rnd.entry, _queue_transfer(fl, scope, q, growth, found3, bad, descents), rnd.targets, rnd.inside, over)
            if over:
                why.add(2, f"too many path states to decide what is put on the work queue `{q}`")
                continue
            if bad:
                for t in sorted(set(bad)):
                    why.add(4, t)
                continue
            paid = sorted(set(found3)) if growth and found3 else []
            if descents:
                paid.append("as strict sub-objects of the element just taken off (" + ", ".join(f"`{d}`" for d in sorted(set(descents)))
                            + "): structural descent on the finite document / property tree in iterative form")
            return (f"work queue `{q}`: every round takes an element off it; elements are added only "
                    + ("; ".join(paid) if paid else "nowhere (it only drains)"))
    return None


def _queue_growth(fl: _Flow, rnd: _Round, q: str) -> dict[int, list[tuple[str, ast.expr | None]]]:
    """statement id -> what the statement can put on the queue q: ('elem', e) the value of e, ('elems', e) the elements of e,
    ('?', None) something that is not followed.  Every way of enlarging the list counts: the growing methods, `q += e`,
    `q = q + e` / `q = [*q, e]`, a store into an item or slice of q, handing q to a function of the repository that adds to it."""
    out: dict[int, list[tuple[str, ast.expr | None]]] = {}
    is_q = lambda e: isinstance(e, ast.Name) and e.id == q  # noqa: E731
    for s in rnd.stmts:
        got: list[tuple[str, ast.expr | None]] = []
        for n in walk_own(s):  # type: ignore[arg-type]
            if not isinstance(n, ast.Call):
                continue
            if isinstance(n.func, ast.Attribute) and is_q(n.func.value):
                a = n.func.attr
                if a in ("append", "appendleft", "add") and len(n.args) == 1 and not n.keywords:
                    got.append(("elem", n.args[0]))
                elif a == "insert" and len(n.args) == 2 and not n.keywords:
                    got.append(("elem", n.args[1]))
                elif a in ("extend", "extendleft", "update") and len(n.args) == 1 and not n.keywords:
                    got.append(("elems", n.args[0]))
                elif a in _GROW:
                    got.append(("?", None))
            elif any(is_q(a) for a in [*n.args, *[k.value for k in n.keywords]]):
                if "grow" in _mut_kinds(fl.ix, fl.f, [n], ast.Name(id=q, ctx=ast.Load())):
                    got.append(("?", None))
        if isinstance(s, ast.AugAssign) and is_q(s.target):
            if isinstance(s.op, (ast.Add, ast.BitOr)):
                got.append(("elems", s.value))
            elif not isinstance(s.op, (ast.Sub, ast.BitAnd)):
                got.append(("?", None))
        elif isinstance(s, (ast.Assign, ast.AnnAssign)) and getattr(s, "value", None) is not None:
            tgts = [x for t in (s.targets if isinstance(s, ast.Assign) else [s.target]) for x in _flat_targets(t)]
            if any(isinstance(t, ast.Subscript) and is_q(t.value) for t in tgts):
                got.append(("?", None))
            if any(is_q(t) for t in tgts):
                v = s.value
                if isinstance(v, ast.BinOp) and isinstance(v.op, (ast.Add, ast.BitOr)) and (is_q(v.left) or is_q(v.right)) and len(tgts) == 1:
                    got.append(("elems", v.right if is_q(v.left) else v.left))
                elif isinstance(v, (ast.List, ast.Set, ast.Tuple)) and len(tgts) == 1 and any(isinstance(e, ast.Starred) and is_q(e.value) for e in v.elts):
                    for e in v.elts:
                        if not (isinstance(e, ast.Starred) and is_q(e.value)):
                            got.append(("elems", e.value) if isinstance(e, ast.Starred) else ("elem", e))
                else:
                    got.append(("?", None))
        elif _binds_name(s, q):
            got.append(("?", None))
        if got:
            out[id(s)] = got
    return out


def _rank(e: ast.AST | None, st: frozenset, q: str) -> str | None:
    """how the value of e relates to the element taken off the queue q in the current round: 'cur' - it is that element (or holds
    it), 'sub' - everything it holds is reached from that element by at least one attribute access / subscription / iteration step
    (a strict sub-object), None - not known.  Decided from the facts of the path ('cur' / 'sub' per local name), never from names."""
    def worst(rs: list[str | None]) -> str | None:
        return None if not all(rs) else "cur" if "cur" in rs else "sub"

    if e is None:
        return None
    if isinstance(e, ast.Name):
        return "cur" if ("cur", e.id) in st else "sub" if ("sub", e.id) in st else None
    if isinstance(e, (ast.Attribute, ast.Subscript)):
        return "sub" if _rank(e.value, st, q) else None
    if isinstance(e, (ast.Starred, ast.NamedExpr, ast.Await)):
        return _rank(e.value, st, q)
    if isinstance(e, ast.Call):
        if isinstance(e.func, ast.Attribute):
            if norm(e.func.value) == q:
                return "cur" if e.func.attr in ("pop", "popleft", "popitem") and len(e.args) <= 1 and not e.keywords else None
            base = _rank(e.func.value, st, q)
            if base and e.func.attr in ("items", "values", "keys") and not e.args:
                return "sub"
            if base and e.func.attr == "get" and len(e.args) == 1 and not e.keywords:
                return "sub"
            if base and e.func.attr == "copy" and not e.args:
                return base
            return None
        last = call_name(e).rsplit(".", 1)[-1]
        if last in _WRAPPERS and e.args and all(k.arg in ("key", "reverse") for k in e.keywords):
            return worst([_rank(a, st, q) for a in (e.args[-1:] if last in ("cast", "filter") else e.args)])
        return None
    if isinstance(e, ast.IfExp):
        return worst([_rank(e.body, st, q), _rank(e.orelse, st, q)])
    if isinstance(e, ast.BoolOp):
        return worst([_rank(v, st, q) for v in e.values])
    if isinstance(e, ast.Constant) and e.value is None:
        return "sub"  # nothing
    if isinstance(e, (ast.Tuple, ast.List, ast.Set)):
        return worst([_rank(v, st, q) for v in e.elts]) if e.elts else "sub"  # a new container of sub-objects / of nothing
    if isinstance(e, (ast.ListComp, ast.SetComp, ast.GeneratorExp)):
        st2 = st
        for g in e.generators:
            names = {x.id for x in ast.walk(g.target) if isinstance(x, ast.Name)}
            below = _rank(g.iter, st2, q) is not None
            st2 = frozenset(f for f in st2 if not (f[0] in ("cur", "sub") and f[1] in names)) | ({("sub", nm) for nm in names} if below else set())
        return _rank(e.elt, st2, q)
    return None


def _queue_transfer(fl: _Flow, scope: _Scope, q: str, growth: dict[int, list[tuple[str, ast.expr | None]]], found: list[str],
                    bad: list[str], descents: list[str]) -> Any:
    """The work-queue form of structural recursion.  Along a path of one round the facts ('cur', x) / ('sub', x) say that the local x
    holds the element taken off the queue in THIS round / only strict sub-objects of it (values left over from an earlier round carry
    no fact: every round starts without any).  An element may be put on the queue after a bounded event (which pays for anything), or
    when it is a strict sub-object of the element just taken off: the multiset of pending sub-trees then decreases with every round."""
    events = _event_transfer(fl, scope, None, found)

    def transfer(n: ast.AST, st: frozenset) -> frozenset | None:
        for kind, e in growth.get(id(n), ()):
            if kind == "?" or _rank(e, st, q) != "sub":
                what = f"`{norm(e)}`" if e is not None else "something that is not followed"
                bad.append(f"{what} is put on the work queue `{q}` on a path that has not passed a visited test (insertion of an element "
                           "tested to be new / deletion of a key tested to be present), and it is not a strict sub-object of the element "
                           "just taken off the queue: the queue need not drain")
            else:
                descents.append(norm(e))
        st2 = events(n, st)
        if st2 is None:
            return None
        new: set[tuple] = set()
        if isinstance(n, (ast.Assign, ast.AnnAssign)) and n.value is not None:
            r = _rank(n.value, st, q)
            for t in (n.targets if isinstance(n, ast.Assign) else [n.target]):
                if isinstance(t, ast.Name) and r:
                    new.add((r, t.id))
                elif isinstance(t, (ast.Tuple, ast.List)) and r:
                    new |= {("sub", x.id) for x in _flat_targets(t) if isinstance(x, ast.Name)}
        elif isinstance(n, (ast.For, ast.AsyncFor)) and _rank(n.iter, st, q):
            new |= {("sub", x.id) for x in _flat_targets(n.target) if isinstance(x, ast.Name)}
        for w in walk_own(n):  # type: ignore[arg-type]
            if isinstance(w, ast.NamedExpr) and isinstance(w.target, ast.Name):
                r = _rank(w.value, st, q)
                if r:
                    new.add((r, w.target.id))
        return st2 | new

    return transfer


def _snapshot_of(v: ast.expr | None, a_text: str) -> bool:
    """v evaluates to the current value of the expression a_text (or a copy of it)"""
    if v is None:
        return False
    if norm(v) == a_text:
        return True
    if isinstance(v, ast.Call) and len(v.args) == 1 and not v.keywords and call_name(v) in ("set", "frozenset", "list", "tuple", "sorted", "copy", "copy.copy"):
        return norm(v.args[0]) == a_text
    if isinstance(v, ast.Call) and isinstance(v.func, ast.Attribute) and v.func.attr == "copy" and not v.args:
        return norm(v.func.value) == a_text
    return False


def _superset_of(v: ast.expr | None, p: str) -> bool:
    """v evaluates to a collection that contains everything the name p holds (None / empty count as nothing)"""
    if v is None:
        return False
    if isinstance(v, ast.Name):
        return v.id == p
    if isinstance(v, ast.BoolOp) and isinstance(v.op, ast.Or):
        return _superset_of(v.values[0], p)
    if isinstance(v, ast.BinOp) and isinstance(v.op, (ast.BitOr, ast.Add)):
        return _superset_of(v.left, p) or _superset_of(v.right, p)
    if isinstance(v, ast.IfExp):
        return p in _names_of(norm(v.test)) and (_superset_of(v.body, p) or _superset_of(v.orelse, p))
    if isinstance(v, ast.Call):
        if isinstance(v.func, ast.Attribute) and v.func.attr in ("copy", "union") and _superset_of(v.func.value, p):
            return True
        if call_name(v) in ("set", "list", "frozenset", "copy", "copy.copy", "deepcopy", "copy.deepcopy") and len(v.args) == 1:
            return _superset_of(v.args[0], p)
    if isinstance(v, (ast.Set, ast.List)):
        return any(isinstance(e, ast.Starred) and _superset_of(e.value, p) for e in v.elts)
    return False


def _growing_set(rnd: _Round, why: _Why) -> str | None:
    """(2) growing bounded set with change test: the round repeats only under a test that a set (or its size) differs from what the
    previous-round variable holds, that variable takes the set's value before the repetition, the set of the next round starts from
    it, and nothing in the region removes elements: each repetition strictly enlarges a subset of a finite universe."""
    fl = rnd.fl
    f = fl.f
    cands: set[tuple[str, str]] = set()
    for a in rnd.tests:
        for lab in (True, False):
            for fact in fl.facts(a, lab):
                if fact[0] == "differs":
                    cands |= {(fact[1], fact[2]), (fact[2], fact[1])}
    why.add(0, "no test compares a collection with its value at the previous round")
    params = [p.arg for p in f.params]
    import keyword

    for a_text, p in sorted(cands):
        if not p.isidentifier() or keyword.iskeyword(p):
            continue
        try:
            a_expr = _strip_len(ast.parse(a_text, mode="eval").body)
        except SyntaxError:
            continue
        if not isinstance(a_expr, ast.Name) or a_expr.id == p:
            continue
        m = a_expr.id

        def is_test(facts: frozenset, a_text: str = a_text, p: str = p) -> bool:
            return ("differs", a_text, p) in facts or ("differs", p, a_text) in facts

        if fl.reach(rnd.entry, rnd.targets, stop_edge=lambda a, lab: is_test(fl.facts(a, lab)), inside=rnd.inside):
            why.add(1, f"the {rnd.what} can repeat without passing the test that `{a_text}` differs from `{p}`")
            continue
        if rnd.loop is not None:
            assigns = rnd.binders(p)
            good = [s for s in assigns if isinstance(s, (ast.Assign, ast.AnnAssign)) and _snapshot_of(s.value, a_text)
                    and all(isinstance(t, ast.Name) for t in (s.targets if isinstance(s, ast.Assign) else [s.target]))]
            if not assigns or len(good) != len(assigns):
                why.add(3, f"the loop repeats only when `{a_text}` differs from `{p}`, but `{p}` is not (only) given the value of "
                           f"`{a_text}` inside the loop: it does not hold the previous round's value")
                continue
            tedges = rnd.test_edges(is_test)
            if fl.reach(tedges, [a for a, _, _ in tedges], stop_node=lambda n: any(n is s for s in good), inside=rnd.inside | {id(rnd.loop)}):
                why.add(3, f"`{p}` does not take the value of `{a_text}` on every path from one change test to the next")
                continue
            binds_m = rnd.binders(m)
        else:
            if p not in params or rnd.binders(p):
                why.add(2, f"`{p}` is not a parameter that keeps the value handed in by the previous activation")
                continue
            if not all(_snapshot_of(_arg_for(f, c, p), a_text) for _, c in rnd.calls):
                why.add(3, f"a recursive call does not hand `{a_text}` on as `{p}`")
                continue
            binds_m = rnd.binders(m)
            if not binds_m:
                continue
        if not all(isinstance(s, (ast.Assign, ast.AnnAssign)) and _superset_of(s.value, p) for s in binds_m):
            why.add(4, f"the {rnd.what} repeats only when `{a_text}` differs from `{p}`, but `{m}` does not start the round from the "
                       f"previous value `{p}`: across rounds it is not monotone")
            continue
        shr = {nm for nm in (m, p) if _mut_kinds(fl.ix, f, rnd.nodes, ast.Name(id=nm, ctx=ast.Load())) & {"shrink", "escape"}}
        if shr:
            why.add(5, f"the {rnd.what} repeats only when `{a_text}` differs from `{p}`, but elements can be removed from "
                       f"`{'`, `'.join(sorted(shr))}` in the region (or it is handed to code that is not analysed): the set is not monotone")
            continue
        return (f"growing bounded set: the {rnd.what} repeats only when `{a_text}` differs from the previous round's `{p}`; `{m}` "
                "only grows")
    return None


def _iter_source(e: ast.expr) -> str | None:
    """the name of the list a for loop makes one pass over"""
    for _ in range(3):
        if isinstance(e, ast.Name):
            return e.id
        if isinstance(e, ast.Call) and len(e.args) == 1 and not e.keywords and call_name(e) in ("list", "tuple", "sorted", "reversed", "iter", "enumerate"):
            e = e.args[0]
        elif isinstance(e, ast.Call) and isinstance(e.func, ast.Attribute) and e.func.attr == "copy" and not e.args:
            e = e.func.value
        elif isinstance(e, ast.Subscript) and isinstance(e.slice, ast.Slice) and e.slice.lower is None and e.slice.upper is None and e.slice.step is None:
            e = e.value
        else:
            return None
    return None


def _elementwise_of(v: ast.expr | None, r: str) -> bool:
    """v is the list r itself, a copy, or an element-wise image / selection of it (never longer than r)"""
    if v is None:
        return False
    if _iter_source(v) == r and not (isinstance(v, ast.Call) and call_name(v) == "enumerate"):
        return True
    if isinstance(v, (ast.ListComp, ast.GeneratorExp)) and len(v.generators) == 1:
        return _iter_source(v.generators[0].iter) == r
    if isinstance(v, ast.Call) and call_name(v) in ("list", "tuple") and len(v.args) == 1:
        return _elementwise_of(v.args[0], r)
    return False


def _empty_list(v: ast.expr | None) -> bool:
    return (isinstance(v, ast.List) and not v.elts) or (isinstance(v, ast.Call) and call_name(v) in ("list", "deque", "collections.deque")
                                                      and not v.args and not v.keywords)


def _falsy_const(v: ast.expr | None) -> bool:
    return isinstance(v, ast.Constant) and (v.value is False or (isinstance(v.value, int) and v.value == 0))


def _truthy_mark(st: ast.AST) -> str | None:
    """the name a statement makes truthy / non-zero: `g = True`, `g = 1`, `g += 1`, `g = g + 1`, `g |= True`"""
    pos = lambda v: isinstance(v, ast.Constant) and isinstance(v.value, (bool, int)) and v.value > 0  # noqa: E731
    if isinstance(st, ast.Assign) and len(st.targets) == 1 and isinstance(st.targets[0], ast.Name):
        g = st.targets[0].id
        if pos(st.value):
            return g
        if isinstance(st.value, ast.BinOp) and isinstance(st.value.op, ast.Add) and norm(st.value.left) == g and pos(st.value.right):
            return g
    if isinstance(st, ast.AugAssign) and isinstance(st.target, ast.Name) and isinstance(st.op, (ast.Add, ast.BitOr)) and pos(st.value):
        return st.target.id
    return None


class _Pass:
    """one pass `for item in work` over a work list, in the function whose flow is fl.  `entry`: the edges from which the pass is
    reached again - the edges that leave the previous pass when the round is a loop body, the function's entry when every round is a
    new activation (recursion, or the pass lives in a helper).  What the variables hold before the FIRST pass costs at most one extra
    round and is not looked at.  `stmts`: the statements of the round in this function."""

    def __init__(self, fl: _Flow, loop: ast.For, entry: list, inside: set[int] | None, stmts: list[ast.AST]) -> None:
        self.fl, self.loop, self.entry, self.inside, self.stmts = fl, loop, entry, inside, stmts
        self.in_f = fl.inside(loop)
        self.body = [s for s in stmts if id(s) in self.in_f]
        self.targets = {x.id for x in ast.walk(loop.target) if isinstance(x, ast.Name)}
        self.iteration_locals = {nm for s in self.body for nm in _binds(s)} | self.targets

    def after(self, s: ast.AST) -> set[int]:
        """statements that can run after s within the same iteration"""
        out: set[int] = set()
        for b in self.fl.cfg.succ.get(s, ()):
            if b is not self.loop:
                out |= {id(x) for x in self.fl.cfg.reachable_from(b, avoid=lambda x: x is self.loop)}
        return out

    def item_values(self) -> set[str]:
        """the names that hold the item of the iteration or a value computed from it: the loop targets, and every local of the
        iteration each of whose bindings (in the pass) reads such a name - `rec = Record(item, err)`, `a, b = split(item)`"""
        out = set(self.targets)
        reads = {id(s): {x.id for x in walk_own(s) if isinstance(x, ast.Name) and isinstance(x.ctx, ast.Load)} for s in self.body}  # type: ignore[arg-type]
        changed = True
        while changed:
            changed = False
            for nm in sorted(self.iteration_locals - out):
                bs = [s for s in self.body if _binds_name(s, nm)]
                if bs and all(reads[id(s)] & out for s in bs):
                    out.add(nm)
                    changed = True
        return out

    def appends(self, r: str) -> list[tuple[ast.AST, ast.Call]]:
        return [(s, c) for s in self.body for c in walk_own(s)  # type: ignore[arg-type]
                if isinstance(c, ast.Call) and isinstance(c.func, ast.Attribute) and c.func.attr == "append" and norm(c.func.value) == r]

    def marks(self, g: str) -> list[ast.AST]:
        return [s for s in self.body if _truthy_mark(s) == g]

    def requeue_list(self, r: str) -> str | None:
        """why r is not a re-queue list of this pass (None: it is): bound to a new empty list on every path from one pass to the next and
        bound nowhere else, changed only by `append` inside the pass, at most one append on any path through one iteration, and what
        is appended is built from the item of the iteration (and values computed in it)"""
        sites = self.appends(r)
        if not sites:
            return f"the pass appends nothing to `{r}`"
        binders = [s for s in self.stmts if _binds_name(s, r)]
        resets = [s for s in binders if isinstance(s, (ast.Assign, ast.AnnAssign)) and _empty_list(s.value) and id(s) not in self.in_f]
        if not resets or len(resets) != len(binders):
            return f"`{r}` is not (only) bound to a new empty list before the pass"
        if self.fl.reach(self.entry, [self.loop], stop_node=lambda n: any(n is s for s in resets), inside=self.inside):
            return f"`{r}` is not emptied on every path from one pass to the next: it accumulates across rounds"
        other = [s for s in self.stmts if r in self.fl.effects(s).mutated and not any(s is a for a, _ in sites)]
        if other or any(len([1 for a2, _ in sites if a2 is a]) > 1 for a, _ in sites):
            return f"`{r}` is changed by more than the one `append` per item"
        if any(id(b) in self.after(a) for a, _ in sites for b, _ in sites):
            return f"an item can be appended to `{r}` more than once in one iteration"
        item = self.item_values()
        for _, c in sites:
            names = _names_of(norm(c.args[0])) if len(c.args) == 1 else frozenset()
            if not (names & item) or not (names <= self.iteration_locals):
                return f"`{r}` receives `{norm(c.args[0]) if c.args else ''}`, which is not built from the item of the current pass"
        return None

    def indicator(self, g: str) -> str | None:
        """why g is not a progress indicator of this pass (None: it is): reset to False / 0 on every path from one pass to the next,
        made truthy only inside the pass, bound nowhere else"""
        ms = self.marks(g)
        if not ms:
            return f"the pass never sets `{g}`"
        binders = [s for s in self.stmts if _binds_name(s, g)]
        resets = [s for s in binders if isinstance(s, (ast.Assign, ast.AnnAssign)) and _falsy_const(s.value) and id(s) not in self.in_f]
        if len(resets) + len(ms) != len(binders):
            return f"the progress indicator `{g}` is also set outside the pass, or to something that is not a constant"
        if not resets or self.fl.reach(self.entry, [self.loop], stop_node=lambda n: any(n is s for s in resets), inside=self.inside):
            return f"the progress indicator `{g}` is not reset on every path from one pass to the next: it can report the progress of an earlier round"
        return None

    def both(self, g: str, r: str) -> str | None:
        for a, _ in self.appends(r):
            for m_ in self.marks(g):
                if m_ is a or id(m_) in self.after(a) or id(a) in self.after(m_):
                    return f"on one path through an iteration the item is appended to `{r}` and `{g}` is set: an item can be re-queued and still count as progress"
        return None


def _progress_rounds(rnd: _Round, why: _Why) -> str | None:
    """(3) progress rounds over a shrinking work list.  The pass (`for item in work`) lives in the round itself or in a private helper
    of the region that receives the work list and returns (.., re-queue list, .., indicator, ..).  Roles: the re-queue list is what
    the next work list is made of (element-wise at most), the indicator is what the tests on the way to the repetition look at.
    The round repeats only on a path that has passed a test that the indicator of THIS pass is truthy / non-zero; an item that
    counted as progress is never re-queued, no item is re-queued twice: each repeated round works on a strictly shorter list."""
    fl = rnd.fl
    f = fl.f
    ix = fl.ix
    why.add(0, "no pass over a work list whose progress decides whether the round repeats")
    params = [p.arg for p in f.params]
    for node in rnd.stmts:
        if rnd.lexically_repeated(node):
            continue
        # -- the pass and its work list
        helper: FuncInfo | None = None
        if isinstance(node, (ast.For, ast.AsyncFor)):
            w = _iter_source(node.iter)
            if w is None:
                continue
            works = [(w, None, None)]
        elif isinstance(node, ast.Assign) and isinstance(node.value, ast.Call) and len(node.targets) == 1 \
                and isinstance(node.targets[0], ast.Tuple) and all(isinstance(e, ast.Name) for e in node.targets[0].elts):
            helper = _helper_of(ix, f, node.value) if ix is not None else None
            if helper is None or helper is f:
                continue
            hown = [n for n in _walk_all(list(helper.node.body)) if isinstance(n, (ast.stmt, ast.ExceptHandler))]
            works = []
            for p in [p.arg for p in helper.params]:
                a = _arg_for(helper, node.value, p)
                if not isinstance(a, ast.Name) or any(_binds_name(x, p) for x in hown):
                    continue
                for lp in hown:
                    if isinstance(lp, (ast.For, ast.AsyncFor)) and _iter_source(lp.iter) == p and not any(
                            isinstance(o, (ast.For, ast.AsyncFor, ast.While)) and o is not lp and any(x is lp for x in ast.walk(o)) for o in hown):
                        works.append((a.id, p, lp))
        else:
            continue
        for w, hparam, hloop in works:
            # -- roles in the driver: what the next work list is made of, what decides the repetition
            if rnd.loop is not None:
                hand = rnd.binders(w)
                srcs = [s.value for s in hand if isinstance(s, (ast.Assign, ast.AnnAssign))]
            else:
                hand = []
                srcs = [_arg_for(f, c, w) for _, c in rnd.calls]
            lists = sorted({r for v in srcs for r in (_names_of(norm(v)) if v is not None else ()) if _elementwise_of(v, r)})
            if helper is not None and rnd.loop is not None and [s for s in hand if s is node]:
                lists = sorted(set(lists) | {w})  # the pass statement itself puts the returned re-queue list into the work list
            flags = sorted({fact[1] for a in rnd.tests for lab in (True, False) for fact in fl.facts(a, lab)
                            if fact[0] == "truthy" and fact[1].isidentifier()})
            if not lists:
                why.add(1, f"the work list `{w}` of the pass is not replaced by a list filled during the pass")
                continue
            if not flags:
                why.add(1, f"no test on a progress indicator decides whether the {rnd.what} repeats after the pass over `{w}`")
                continue
            exits = fl.exits(node)
            for r in lists:
                for g in flags:
                    # -- the pass itself (in the driver, or in the helper through the returned tuple)
                    if helper is None:
                        ps = _Pass(fl, node, exits if rnd.loop is not None else rnd.entry,  # type: ignore[arg-type]
                                   rnd.inside | {id(rnd.loop)} if rnd.loop is not None else None, rnd.stmts)
                        if not ps.marks(g):
                            why.add(2, f"no variable that a test on the way to the repetition looks at ({', '.join(flags)}) is set by the pass over `{w}`")
                            continue
                        bad = ps.indicator(g) or ps.requeue_list(r) or ps.both(g, r)
                        resets = [s for s in rnd.binders(g) if id(s) not in ps.in_f]
                    else:
                        names = [e.id for e in node.targets[0].elts]  # type: ignore[attr-defined]
                        rets = [n for n in hown if isinstance(n, ast.Return)]
                        bad = None
                        if names.count(g) != 1 or names.count(r) != 1:
                            continue
                        gi, ri = names.index(g), names.index(r)
                        if not rets or not all(isinstance(x.value, ast.Tuple) and len(x.value.elts) == len(names) and
                                               isinstance(x.value.elts[gi], ast.Name) and isinstance(x.value.elts[ri], ast.Name) for x in rets):
                            bad = f"`{helper.name}` does not return the indicator and the re-queue list of its pass as elements of a tuple"
                        hg = {x.value.elts[gi].id for x in rets} if bad is None else set()  # type: ignore[union-attr]
                        hr = {x.value.elts[ri].id for x in rets} if bad is None else set()  # type: ignore[union-attr]
                        if bad is None and (len(hg) != 1 or len(hr) != 1):
                            bad = f"`{helper.name}` returns different variables as `{g}` / `{r}`"
                        if bad is None:
                            hfl = _Flow(helper, ix)
                            ps = _Pass(hfl, hloop, [(_ENTRY, None, b) for b, _ in hfl.out(_ENTRY)], None, hown)
                            g2, r2 = next(iter(hg)), next(iter(hr))
                            bad = ps.indicator(g2) or ps.requeue_list(r2) or ps.both(g2, r2)
                            if bad is None and _mut_kinds(ix, helper, list(helper.node.body), ast.Name(id=hparam, ctx=ast.Load())) & {"grow", "shrink", "escape"}:
                                bad = f"`{helper.name}` modifies the work list `{hparam}` it makes its pass over"
                        # the driver must take both values from the helper and leave them alone
                        if bad is None and ([s for s in rnd.binders(g) if s is not node] or [s for s in rnd.binders(r) if s is not node and r != w]
                                            or _mut_kinds(ix, f, rnd.nodes, ast.Name(id=r, ctx=ast.Load())) & {"grow", "shrink"}):
                            bad = f"`{g}` / `{r}` returned by the pass are changed again in the {rnd.what}"
                        resets = []
                    if bad is not None:
                        why.add(3, bad)
                        continue
                    # -- (a) repetition only after a test that the indicator of this pass is truthy
                    if fl.reach(exits, (rnd.targets if rnd.loop is None else [node]) + resets,
                                stop_edge=lambda a, lab, g=g: ("truthy", g, True) in fl.facts(a, lab),
                                inside=None if rnd.loop is None else rnd.inside | {id(rnd.loop)}):
                        why.add(4, f"the {rnd.what} can repeat on a path that has not passed a test that `{g}`, as set by the pass just made, is truthy")
                        continue
                    # -- (b) the next work list is the re-queue list
                    if _mut_kinds(ix, f, rnd.nodes, ast.Name(id=w, ctx=ast.Load()), skip={h_.qual for h_ in _region_helpers(ix, f).values()}) & {"grow", "shrink"}:
                        why.add(4, f"the work list `{w}` is modified in place")
                        continue
                    if rnd.loop is not None:
                        if not all((r == w and s is node) or (isinstance(s, (ast.Assign, ast.AnnAssign)) and _elementwise_of(s.value, r)) for s in hand):
                            why.add(4, f"the work list `{w}` is not only replaced by the re-queue list `{r}`")
                            continue
                        if r != w and fl.reach(exits, [node], stop_node=lambda n, hand=hand: any(n is s for s in hand), inside=rnd.inside | {id(rnd.loop)}):
                            why.add(4, f"the work list `{w}` is not replaced by the re-queue list `{r}` on every path to the next round")
                            continue
                    else:
                        if w not in params or rnd.binders(w):
                            why.add(4, f"the work list `{w}` is not a parameter of the recursive function")
                            continue
                        if not all(_elementwise_of(v, r) for v in srcs):
                            why.add(4, f"a recursive call does not hand the re-queue list `{r}` on as the work list `{w}`")
                            continue
                    return (f"progress rounds: one pass over `{w}` per round, repeated only if `{g}` (reset for each pass) is truthy; the "
                            f"next work list is the re-queue list `{r}`, which never receives an item that counted as progress")
    return None


_COPY_WITH = {"evolve", "replace"}  # attr.evolve / dataclasses.replace / copy.replace: a copy of the first argument with the named attributes replaced


def _origins(e: ast.AST | None, lc: Any, params: set[str], seen: frozenset[str] = frozenset(), depth: int = 0,
             at: tuple[Any, FuncInfo, tuple[str, ...]] | None = None) -> set[tuple[str, bool]]:
    """(parameter, strict): the value may be the parameter itself (strict False) or something reached from it by attribute access,
    subscription or iteration (strict True).  The value is followed through the locals of the function and - when `at` = (index,
    function, functions being followed) is given - through the functions of the repository it is obtained from: what a helper
    returns or a generator yields, expressed in the helper's own parameters, is mapped back through the arguments (and the
    receiver) of the call.  A value that is not followed has no origin: the call that hands it on does not count as a descent."""
    if e is None or depth > 8:
        return set()
    strict = lambda o: {(p, True) for p, _ in o}  # noqa: E731
    if isinstance(e, ast.Name):
        out: set[tuple[str, bool]] = {(e.id, False)} if e.id in params else set()
        if e.id in seen:
            return out
        for kind, _, v in lc.defs.get(e.id, []):
            if v is None or kind.startswith(("aug", "with", "except")):
                continue
            if kind.startswith("for"):  # an element of v (a component of it when the target is a tuple)
                o = _elem_origins(v, lc, params, seen | {e.id}, depth + 1, at)
                out |= strict(o) if "[" in kind else o
                continue
            if "[" in kind and kind.count("[") == 1 and isinstance(v, (ast.Tuple, ast.List)) and not any(isinstance(x, ast.Starred) for x in v.elts):
                i = int(kind[kind.index("[") + 1:kind.index("]")])  # `a, b = x, y`
                if i < len(v.elts):
                    out |= _origins(v.elts[i], lc, params, seen | {e.id}, depth + 1, at)
                    continue
            o = _origins(v, lc, params, seen | {e.id}, depth + 1, at)
            out |= strict(o) if "[" in kind else o
        return out
    if isinstance(e, (ast.Attribute, ast.Subscript, ast.Starred)) and not isinstance(e, ast.Starred):
        return strict(_origins(e.value, lc, params, seen, depth + 1, at))
    if isinstance(e, ast.Starred):
        return _origins(e.value, lc, params, seen, depth + 1, at)
    if isinstance(e, ast.Call):
        if isinstance(e.func, ast.Attribute) and e.func.attr in _ELEMENT_METHODS:
            return strict(_origins(e.func.value, lc, params, seen, depth + 1, at))
        last = call_name(e).rsplit(".", 1)[-1]
        if last in _WRAPPERS or last in _COPY_WITH:
            out = set()
            for a in [*e.args, *([k.value for k in e.keywords] if last in _COPY_WITH else [])]:
                out |= _origins(a, lc, params, seen, depth + 1, at)
            return out
        return _origins_through_call(e, lc, params, seen, depth, at) if at is not None else set()
    if isinstance(e, ast.IfExp):
        return _origins(e.body, lc, params, seen, depth + 1, at) | _origins(e.orelse, lc, params, seen, depth + 1, at)
    if isinstance(e, ast.BoolOp):
        out = set()
        for v in e.values:
            out |= _origins(v, lc, params, seen, depth + 1, at)
        return out
    if isinstance(e, (ast.Tuple, ast.List, ast.Set)):
        out = set()
        for v in e.elts:
            out |= _origins(v, lc, params, seen, depth + 1, at)
        return out
    if isinstance(e, (ast.ListComp, ast.GeneratorExp, ast.SetComp)):
        return _origins(e.elt, lc, params, seen, depth + 1, at)
    if isinstance(e, ast.NamedExpr):
        return _origins(e.value, lc, params, seen, depth + 1, at)
    if isinstance(e, ast.Await):
        return _origins(e.value, lc, params, seen, depth + 1, at)
    return set()


def _elem_origins(v: ast.AST | None, lc: Any, params: set[str], seen: frozenset[str], depth: int,
                  at: tuple[Any, FuncInfo, tuple[str, ...]] | None) -> set[tuple[str, bool]]:
    """origins of the ELEMENTS an iteration over v produces.  A container written out (a display, a comprehension, what a generator
    of the repository yields, copies and chains of such) hands on exactly what was put into it - iterating over `[p]` is not a
    descent into p; the elements of anything else are strict sub-objects of it."""
    if v is None or depth > 8:
        return set()
    rec = lambda x: _elem_origins(x, lc, params, seen, depth + 1, at)  # noqa: E731
    if isinstance(v, (ast.Tuple, ast.List, ast.Set)):
        out: set[tuple[str, bool]] = set()
        for x in v.elts:
            out |= rec(x.value) if isinstance(x, ast.Starred) else _origins(x, lc, params, seen, depth + 1, at)
        return out
    if isinstance(v, (ast.ListComp, ast.GeneratorExp, ast.SetComp)):
        return _origins(v.elt, lc, params, seen, depth + 1, at)
    if isinstance(v, (ast.IfExp, ast.BoolOp)):
        return {o for x in _alternatives(v) for o in rec(x)}
    if isinstance(v, (ast.NamedExpr, ast.Await, ast.Starred)):
        return rec(v.value)
    if isinstance(v, ast.Name) and v.id not in seen and v.id not in params:
        defs = [(k, x) for k, _, x in lc.defs.get(v.id, [])]
        if defs and all(k == "assign" and x is not None for k, x in defs):
            return {o for _, x in defs for o in _elem_origins(x, lc, params, seen | {v.id}, depth + 1, at)}
    if isinstance(v, ast.Call):
        last = call_name(v).rsplit(".", 1)[-1]
        if last in _WRAPPERS and last not in ("cast", "deepcopy", "copy") and v.args and not (isinstance(v.func, ast.Attribute) and v.func.attr in _ELEMENT_METHODS):
            return {o for x in (v.args[-1:] if last == "filter" else v.args) for o in rec(x)}
        if last == "cast" and len(v.args) == 2:
            return rec(v.args[1])
        if at is not None and _callee(at[0], at[1], v) is not None:
            return _origins_through_call(v, lc, params, seen, depth, at, elements=True)
    return {(p, True) for p, _ in _origins(v, lc, params, seen, depth + 1, at)}


def _origins_through_call(e: ast.Call, lc: Any, params: set[str], seen: frozenset[str], depth: int,
                          at: tuple[Any, FuncInfo, tuple[str, ...]], elements: bool = False) -> set[tuple[str, bool]]:
    """origins of the result of a call to a function of the repository (plain name, nested function, self / cls method) - or, with
    `elements`, of what an iteration over the result produces: those of the values it returns (a generator: of the values it
    yields), in terms of its own parameters, mapped through the call's arguments and receiver"""
    from ..astutil import Locals

    ix, f, stack = at
    h0 = _callee(ix, f, e)
    if h0 is None or len(stack) >= 3:
        return set()
    # a method called through self / cls runs whichever override the class of the object defines: the result has the origins of
    # what any of them hands back - provided each of them is followed (hands back something reached from its own parameters, or
    # nothing at all); one that hands back a value of unknown origin leaves the whole call without origin
    hs = _overrides(ix, f, e, h0)
    if any(h.qual in stack for h in hs):
        return set()
    out: set[tuple[str, bool]] = set()
    for h in hs:
        o = _origins_of_result(e, h, lc, params, seen, depth, at, elements)
        if o is None or (not o and len(hs) > 1 and not _hands_back_nothing(h, elements)):
            return set()
        out |= o
    return out


def _overrides(ix: Any, f: FuncInfo, e: ast.Call, h0: FuncInfo) -> list[FuncInfo]:
    """the methods a call `self.m(...)` / `cls.m(...)` made in f can run: the one the class of f sees, and every redefinition of it
    in a subclass of that class"""
    hs = [h0]
    if isinstance(e.func, ast.Attribute) and isinstance(e.func.value, ast.Name) and e.func.value.id in ("self", "cls") and f.cls is not None:
        for k in ix.subclasses(f.cls):
            h = k.methods.get(e.func.attr)
            if h is not None and h not in hs:
                hs.append(h)
    return hs


def _hands_back_nothing(h: FuncInfo, elements: bool) -> bool:
    """every value the function returns is an empty container written out (asked for the elements of the result), resp. None"""
    own = _own_nodes(h.node)
    if any(isinstance(n, (ast.Yield, ast.YieldFrom)) for n in own):
        return False
    for n in own:
        if isinstance(n, ast.Return) and n.value is not None:
            v = n.value
            empty = (isinstance(v, (ast.Tuple, ast.List, ast.Set)) and not v.elts) or (isinstance(v, ast.Dict) and not v.keys) \
                or (isinstance(v, ast.Call) and not v.args and not v.keywords and call_name(v) in ("tuple", "list", "set", "frozenset", "dict"))
            if not (empty if elements else (isinstance(v, ast.Constant) and v.value is None)):
                return False
    return True


def _origins_of_result(e: ast.Call, h: FuncInfo, lc: Any, params: set[str], seen: frozenset[str], depth: int,
                       at: tuple[Any, FuncInfo, tuple[str, ...]], elements: bool) -> set[tuple[str, bool]] | None:
    """the origins of what the call e, run by h, hands back (of its elements), in terms of the caller's parameters"""
    from ..astutil import Locals

    ix, f, stack = at
    own = _own_nodes(h.node)
    hlc = Locals(h.node)
    hparams = {p.arg for p in h.params}
    hat = (ix, h, (*stack, f.qual))
    inner: set[tuple[str, bool]] = set()
    if any(isinstance(n, (ast.Yield, ast.YieldFrom)) for n in own):
        # the result is a generator: it holds what it yields
        for n in own:
            if isinstance(n, ast.Yield) and n.value is not None:
                inner |= _origins(n.value, hlc, hparams, frozenset(), depth + 1, hat)
            elif isinstance(n, ast.YieldFrom):
                inner |= _elem_origins(n.value, hlc, hparams, frozenset(), depth + 1, hat)
    else:
        for n in own:
            if isinstance(n, ast.Return) and n.value is not None:
                inner |= (_elem_origins if elements else _origins)(n.value, hlc, hparams, frozenset(), depth + 1, hat)
    out: set[tuple[str, bool]] = set()
    first = h.params[0].arg if h.params and h.kind in ("method", "classmethod") else None
    for p, is_strict in inner:
        a = e.func.value if p == first and isinstance(e.func, ast.Attribute) else _arg_for(h, e, p)
        o = _origins(a, lc, params, seen, depth + 1, at)
        out |= {(q, True) for q, _ in o} if is_strict else o
    return out


def _structural(ix: Any, fs: list[FuncInfo], edges: dict[str, set[str]], it: Any = None) -> tuple[str | None, str]:
    """(5) structural recursion on the finite document / property tree.  A call site DESCENDS when it hands on (as an argument or as the
    receiver) something reached from a parameter of the caller by attribute access, subscription or iteration, without handing on
    that parameter itself; `super().m()` descends the (finite) class hierarchy.  Every cycle of the component must contain a
    descending call: the calls that do not descend form an acyclic graph.
    Descending is a ranking only on a structure that is a finite TREE, which depends on where the structure comes from: the objects
    of the validated document model and of the parser's own classes are trees (pydantic refuses a value that contains itself and
    builds new objects; the parser builds its objects bottom-up), so is whatever a JSON text is parsed into; what a YAML loader
    hands back is not - an alias may refer to the node it stands in (`a: &a {b: *a}`), the value is a graph that can contain itself,
    and a descent into it needs a visited set (argument 1).  A descent through a parameter that can hold such a value is no descent."""
    from ..astutil import Locals

    quals = {f.qual: f for f in fs}
    forward: dict[str, set[str]] = {q: set() for q in quals}
    located: set[tuple[str, str]] = set()
    n_desc = 0
    notes: list[str] = []
    for f in fs:
        lc = Locals(f.node)
        params = {p.arg for p in f.params}
        for c in _own_nodes(f.node):
            if not isinstance(c, ast.Call):
                continue
            cn = call_name(c)
            last = cn.rsplit(".", 1)[-1]
            head = cn.rsplit(".", 1)[0] if "." in cn else ""
            tgts = [g for q, g in quals.items() if g.name == last and (not edges or q in edges.get(f.qual, ()))]
            if head[:1].isupper() and "." not in head:
                named = [g for g in tgts if g.cls is not None and g.cls.name == head]
                known = any(k.name == head for k in ix.classes.values())
                if named or known:
                    tgts = named
            if not tgts:
                continue
            located |= {(f.qual, g.qual) for g in tgts}
            if isinstance(c.func, ast.Attribute) and isinstance(c.func.value, ast.Call) and call_name(c.func.value) == "super":
                n_desc += 1
                continue
            handed = list(c.args) + [k.value for k in c.keywords] + ([c.func.value] if isinstance(c.func, ast.Attribute) else [])
            orig = [_origins(a, lc, params, at=(ix, f, ())) for a in handed]
            whole = {p for o in orig for p, s in o if not s}
            through = sorted({p for o in orig for p, s in o if s and p not in whole})
            graphs = [p for p in through if it is not None and (f.qual, p) in _graph_holders(ix, it)]
            if through and not graphs:
                n_desc += 1
                continue
            for p in graphs:
                notes.append(f"`{p}` of {f.name} can be what a YAML loader handed back - a graph that may contain itself, not a tree")
            for g in tgts:
                forward[f.qual].add(g.qual)
    # an edge of the call graph whose call site is not found (a call through a variable, getattr, ...) cannot be shown to descend
    for q in quals:
        for w in edges.get(q, ()):
            if w in quals and (q, w) not in located:
                forward[q].add(w)
    # the non-descending calls must not form a cycle
    state: dict[str, int] = {}

    def cyc(q: str, path: list[str]) -> list[str] | None:
        state[q] = 1
        for w in sorted(forward[q]):
            if state.get(w) == 1:
                return path + [q, w]
            if w not in state:
                r = cyc(w, path + [q])
                if r:
                    return r
        state[q] = 2
        return None

    for q in sorted(quals):
        if q not in state:
            r = cyc(q, [])
            if r:
                return None, ("not structural: the calls " + " -> ".join(x.rsplit(".", 1)[-1] for x in r)
                              + " hand on no strict sub-object of a parameter (or hand the whole parameter on as well)"
                              + "".join("; " + x for x in dict.fromkeys(notes)))
    return f"structural (every cycle passes one of {n_desc} calls that descend into a sub-object of a parameter)", ""


def _yaml_load(f: FuncInfo, c: ast.Call) -> bool:
    """the call parses YAML: a function of a yaml module (`yaml.safe_load`, ...) or the `load` / `load_all` of a loader object
    (an object built by `YAML(...)`, whatever the local that holds it is called)"""
    from ..astutil import Locals

    cn = call_name(c)
    last = cn.rsplit(".", 1)[-1]
    if last not in ("load", "load_all", "safe_load", "safe_load_all", "full_load", "unsafe_load", "compose", "round_trip_load"):
        return False
    if "yaml" in cn.rsplit(".", 1)[0].lower() or (last != "load" and "." not in cn):
        return True
    recv = c.func.value if isinstance(c.func, ast.Attribute) else None
    vals = [recv] if isinstance(recv, ast.Call) else []
    if isinstance(recv, ast.Name):
        vals = [v for _, _, v in Locals(f.node).defs.get(recv.id, []) if v is not None]
    return any(isinstance(v, ast.Call) and "yaml" in call_name(v).lower() for v in vals)


_GRAPH_HOLDERS: dict[int, set[tuple[str, str]]] = {}


def _graph_holders(ix: Any, it: Any) -> set[tuple[str, str]]:
    """(function, local or parameter) that can hold - or hold a part of, or a container of - what a YAML loader handed back.  Forward
    from the load calls to a fixed point: through locals (an element of such a value is one), parameters (the arguments of every
    call of a function of the repository), results of functions of the repository, parts (attribute, item, .items() / .values() /
    .get()) and copying wrappers.  A value that went through anything else (model_validate, json.loads, a constructor) is a new
    structure."""
    from ..astutil import Locals

    if id(ix) in _GRAPH_HOLDERS:
        return _GRAPH_HOLDERS[id(ix)]
    funcs = list(ix.all_functions)
    if not any(isinstance(c, ast.Call) and _yaml_load(f, c) for f in funcs for c in _own_nodes(f.node)):
        _GRAPH_HOLDERS[id(ix)] = set()
        return set()
    names: set[tuple[str, str]] = set()
    rets: set[str] = set()
    callees: dict[int, list[FuncInfo]] = {}

    def of(f: FuncInfo, c: ast.Call) -> list[FuncInfo]:
        if id(c) not in callees:
            callees[id(c)] = _callees(ix, it, f, c)
        return callees[id(c)]

    def t(f: FuncInfo, e: ast.AST | None, d: int = 0) -> bool:
        if e is None or d > 12:
            return False
        if isinstance(e, ast.Name):
            return (f.qual, e.id) in names
        if isinstance(e, (ast.Attribute, ast.Subscript, ast.Starred, ast.Await, ast.NamedExpr)):
            return t(f, e.value, d + 1)
        if isinstance(e, (ast.IfExp, ast.BoolOp)):
            return any(t(f, x, d + 1) for x in _alternatives(e))
        if isinstance(e, (ast.Tuple, ast.List, ast.Set)):
            return any(t(f, x, d + 1) for x in e.elts)
        if isinstance(e, ast.Dict):
            return any(t(f, x, d + 1) for x in e.values)
        if isinstance(e, (ast.ListComp, ast.SetComp, ast.GeneratorExp)):
            return t(f, e.elt, d + 1)
        if isinstance(e, ast.DictComp):
            return t(f, e.value, d + 1)
        if isinstance(e, ast.Call):
            if _yaml_load(f, e):
                return True
            hs = of(f, e)
            if hs:
                return any(h.qual in rets for h in hs)
            if isinstance(e.func, ast.Attribute) and e.func.attr in _ELEMENT_METHODS:
                return t(f, e.func.value, d + 1)
            if call_name(e).rsplit(".", 1)[-1] in _WRAPPERS:
                return any(t(f, x, d + 1) for x in e.args)
        return False

    info = [(f, Locals(f.node), [n for n in _own_nodes(f.node) if isinstance(n, (ast.Call, ast.Return))]) for f in funcs]
    for _ in range(12):
        before = (len(names), len(rets))
        for f, lc, nodes_ in info:
            for name, defs in lc.defs.items():
                if (f.qual, name) not in names and any(v is not None and not k.startswith(("aug", "with", "except")) and t(f, v) for k, _, v in defs):
                    names.add((f.qual, name))
            for n in nodes_:
                if isinstance(n, ast.Return):
                    if n.value is not None and f.qual not in rets and t(f, n.value):
                        rets.add(f.qual)
                    continue
                for h in of(f, n):
                    for p in h.params:
                        if (h.qual, p.arg) not in names and t(f, _arg_for(h, n, p.arg)):
                            names.add((h.qual, p.arg))
        if (len(names), len(rets)) == before:
            break
    _GRAPH_HOLDERS[id(ix)] = names
    return names


# ---------------------------------------------------------------------------------------------------------------------------------
# R06.4, regular expressions.  A backtracking match is a loop the source does not show: when the iterations of an unbounded repetition
# can divide the same text in more than one way, a text that fails to match further on makes the engine try every division (their
# number grows exponentially with the length of the text).  The ranking argument for a repetition is that its iterations divide any
# text in ONE way only; it is decided on the parsed pattern (the standard library's own parser, as in sa/charclass.py), with exact
# sets of code points for the single-character items.

_RE_FUNCS = {"compile", "match", "fullmatch", "search", "sub", "subn", "split", "findall", "finditer"}
_MANY = 10  # a repetition allowed this many times or more counts as unbounded


class _Rx:
    def __init__(self, tables: Any, flags: int) -> None:
        self.t = tables
        self.fold = bool(flags & 2)  # IGNORECASE: the sets below would have to be closed under case folding -> every set is "anything"

    # -- single-character items ------------------------------------------------------------------------------------------------
    def charset(self, op: str, av: Any) -> int | None:
        """the code points a single-character item matches (None: the item is not a single character)"""
        if op not in ("LITERAL", "NOT_LITERAL", "ANY", "IN"):
            return None
        if self.fold:
            return self.t.ALL
        if op == "LITERAL":
            return 1 << av
        if op == "NOT_LITERAL":
            return self.t.ALL & ~(1 << av)
        if op == "ANY":
            return self.t.ALL
        out, neg = 0, False
        for o, a in av:
            o = str(o)
            if o == "NEGATE":
                neg = True
            elif o == "LITERAL":
                out |= 1 << a
            elif o == "RANGE":
                out |= ((1 << (a[1] + 1)) - 1) & ~((1 << a[0]) - 1)
            elif o == "CATEGORY":
                cat = str(a)
                base = {"WORD": r"\w", "DIGIT": r"\d", "SPACE": r"\s"}.get(cat.replace("CATEGORY_", "").replace("NOT_", ""))
                if base is None:
                    return self.t.ALL
                cls = self.t.regex_class(base)
                out |= (self.t.ALL & ~cls) if "NOT_" in cat else cls
            else:
                return self.t.ALL
        return (self.t.ALL & ~out) if neg else out

    # -- facts about a sequence of items ---------------------------------------------------------------------------------------
    def length(self, seq: Any) -> tuple[int, int | None]:
        """(shortest, longest) text the sequence matches; longest None = unbounded / not known"""
        lo, hi = 0, 0
        for op, av in seq:
            a, b = self.item_length(str(op), av)
            lo += a
            hi = None if hi is None or b is None else hi + b
        return lo, hi

    def item_length(self, op: str, av: Any) -> tuple[int, int | None]:
        if self.charset(op, av) is not None:
            return 1, 1
        if op in ("AT", "ASSERT", "ASSERT_NOT", "FAILURE"):
            return 0, 0
        if op == "SUBPATTERN":
            return self.length(av[3])
        if op == "ATOMIC_GROUP":
            return self.length(av)
        if op == "BRANCH":
            ls = [self.length(s) for s in av[1]]
            return min(a for a, _ in ls), (None if any(b is None for _, b in ls) else max(b for _, b in ls))  # type: ignore[type-var]
        if op in ("MAX_REPEAT", "MIN_REPEAT", "POSSESSIVE_REPEAT"):
            lo, hi, body = av
            a, b = self.length(body)
            return lo * a, (None if b is None or hi >= _MANY and b > 0 else hi * b)
        if op == "GROUPREF_EXISTS":
            ls = [self.length(s) for s in (av[1], av[2] or [])]
            return min(a for a, _ in ls), (None if any(b is None for _, b in ls) else max(b for _, b in ls))  # type: ignore[type-var]
        return 0, None  # GROUPREF and anything else: not known

    def chars(self, seq: Any) -> int:
        """every code point a text matched by the sequence can contain"""
        out = 0
        for op, av in seq:
            op = str(op)
            cs = self.charset(op, av)
            if cs is not None:
                out |= cs
            elif op == "SUBPATTERN":
                out |= self.chars(av[3])
            elif op == "ATOMIC_GROUP":
                out |= self.chars(av)
            elif op == "BRANCH":
                for s in av[1]:
                    out |= self.chars(s)
            elif op in ("MAX_REPEAT", "MIN_REPEAT", "POSSESSIVE_REPEAT"):
                out |= self.chars(av[2])
            elif op == "GROUPREF_EXISTS":
                out |= self.chars(av[1]) | self.chars(av[2] or [])
            elif op not in ("AT", "ASSERT", "ASSERT_NOT", "FAILURE"):
                return self.t.ALL
        return out

    def first(self, seq: Any) -> int:
        """code points a non-empty text matched by the sequence can start with"""
        out = 0
        for op, av in seq:
            op = str(op)
            cs = self.charset(op, av)
            if cs is not None:
                return out | cs
            if op == "SUBPATTERN":
                out |= self.first(av[3])
            elif op == "ATOMIC_GROUP":
                out |= self.first(av)
            elif op == "BRANCH":
                for s in av[1]:
                    out |= self.first(s)
            elif op in ("MAX_REPEAT", "MIN_REPEAT", "POSSESSIVE_REPEAT"):
                out |= self.first(av[2])
            elif op == "GROUPREF_EXISTS":
                out |= self.first(av[1]) | self.first(av[2] or [])
            elif op not in ("AT", "ASSERT", "ASSERT_NOT", "FAILURE"):
                return self.t.ALL
            if self.item_length(op, av)[0] > 0:
                return out
        return out

    @staticmethod
    def flat(seq: Any) -> list[tuple[str, Any]]:
        """the items of a sequence with plain groups opened (a group does not change what is matched)"""
        out: list[tuple[str, Any]] = []
        for op, av in seq:
            if str(op) == "SUBPATTERN" and not av[1] and not av[2]:
                out += _Rx.flat(av[3])
            else:
                out.append((str(op), av))
        return out

    def one_division(self, body: Any) -> bool:
        """every text has at most one division into consecutive matches of `body`:
        - all matches have the same (non-zero) length, or
        - the body begins or ends with a mandatory item of fixed length whose code points occur nowhere else in it (a delimiter:
          the iterations begin / end exactly where it occurs), or
        - it is a choice between alternatives that begin with different code points and each of which ends in one way only"""
        items = [it for it in self.flat(body) if self.item_length(*it) != (0, 0)]
        lo, hi = self.length(items)
        if hi is not None and lo == hi:
            return True  # (zero length: nothing is consumed, the engine stops repeating)
        if lo == 0:
            return False
        if self.end_determined(items):
            return True
        if len(items) > 1:
            d, rest = items[0], items[1:]
            a, b = self.item_length(*d)
            if a == b and a > 0 and not (self.chars([d]) & self.chars(rest)):
                return True
        return False

    def end_determined(self, items: list[tuple[str, Any]]) -> bool:
        """reading from a given start, a match of the sequence can end in one place only"""
        lo, hi = self.length(items)
        if hi is not None and lo == hi:
            return True
        if all(it[0] in ("ATOMIC_GROUP", "POSSESSIVE_REPEAT") or (lambda ab: ab[0] == ab[1])(self.item_length(*it)) for it in items):
            return True  # nothing in it is ever given back
        if len(items) > 1:
            d, rest = items[-1], items[:-1]
            a, b = self.item_length(*d)
            if a == b and a > 0 and not (self.chars([d]) & self.chars(rest)):
                return True
        if len(items) == 1 and items[0][0] == "BRANCH":
            alts = [[it for it in self.flat(s) if self.item_length(*it) != (0, 0)] for s in items[0][1][1]]
            firsts = [self.first(s) for s in alts]
            if all(self.length(s)[0] > 0 for s in alts) and all(not (firsts[i] & firsts[j]) for i in range(len(alts)) for j in range(i)) \
                    and all(self.end_determined(s) for s in alts):
                return True
        return False

    # -- the check -------------------------------------------------------------------------------------------------------------
    def ambiguous_repeats(self, seq: Any, out: list[str] | None = None) -> list[str]:
        """the unbounded repetitions (as text of their parsed form) whose iterations can divide a text in more than one way"""
        out = [] if out is None else out
        for op, av in seq:
            op = str(op)
            if op in ("MAX_REPEAT", "MIN_REPEAT"):
                lo, hi, body = av
                if hi >= _MANY and not self.one_division(body):
                    txt = _rx_text(body)
                    out.append((txt if len(list(body)) == 1 and str(list(body)[0][0]) != "BRANCH" else f"(?:{txt})") + ("*" if lo == 0 else "+" if lo == 1 else f"{{{lo},}}"))
                self.ambiguous_repeats(body, out)
            elif op == "POSSESSIVE_REPEAT":
                self.ambiguous_repeats(av[2], out)  # never re-divided itself; what it contains still is, within one iteration
            elif op == "SUBPATTERN":
                self.ambiguous_repeats(av[3], out)
            elif op in ("ASSERT", "ASSERT_NOT"):
                self.ambiguous_repeats(av[1], out)
            elif op == "ATOMIC_GROUP":
                self.ambiguous_repeats(av, out)
            elif op == "BRANCH":
                for s in av[1]:
                    self.ambiguous_repeats(s, out)
            elif op == "GROUPREF_EXISTS":
                self.ambiguous_repeats(av[1], out)
                self.ambiguous_repeats(av[2] or [], out)
        return out


def _rx_text(seq: Any) -> str:
    """a readable rendering of parsed items"""
    def cs(av: Any) -> str:
        out = ""
        for o, a in av:
            o = str(o)
            out += "^" if o == "NEGATE" else re_escape(chr(a)) if o == "LITERAL" else f"{chr(a[0])}-{chr(a[1])}" if o == "RANGE" \
                else {"CATEGORY_WORD": "\\w", "CATEGORY_DIGIT": "\\d", "CATEGORY_SPACE": "\\s", "CATEGORY_NOT_WORD": "\\W",
                      "CATEGORY_NOT_DIGIT": "\\D", "CATEGORY_NOT_SPACE": "\\S"}.get(str(a), "?")
        return out

    def re_escape(c: str) -> str:
        return "\\" + c if c in ".^$*+?{}[]\\|()" else c

    out = ""
    for op, av in seq:
        op = str(op)
        if op == "LITERAL":
            out += re_escape(chr(av))
        elif op == "NOT_LITERAL":
            out += f"[^{re_escape(chr(av))}]"
        elif op == "ANY":
            out += "."
        elif op == "IN":
            out += f"[{cs(av)}]"
        elif op == "SUBPATTERN":
            out += f"({_rx_text(av[3])})"
        elif op == "BRANCH":
            out += "(?:" + "|".join(_rx_text(s) for s in av[1]) + ")"
        elif op in ("MAX_REPEAT", "MIN_REPEAT", "POSSESSIVE_REPEAT"):
            lo, hi, body = av
            inner = _rx_text(body)
            inner = inner if len(list(body)) == 1 and str(list(body)[0][0]) in ("LITERAL", "IN", "ANY", "NOT_LITERAL", "SUBPATTERN") else f"(?:{inner})"
            out += inner + ("?" if (lo, hi) == (0, 1) else "*" if lo == 0 and hi >= 1 << 16 else "+" if lo == 1 and hi >= 1 << 16 else f"{{{lo},{hi if hi < 1 << 16 else ''}}}")
        else:
            out += f"<{op.lower()}>"
    return out


def _const_text(ix: Any, mod: Any, e: ast.AST | None, local: Any = None, depth: int = 0) -> str | None:
    """the string an expression always evaluates to: literals, f-strings and concatenations of them, module-level constants and locals
    bound once to such a string (None: not known)"""
    if e is None or depth > 4:
        return None
    if isinstance(e, ast.Constant):
        return e.value if isinstance(e.value, str) else None
    if isinstance(e, ast.JoinedStr):
        parts = []
        for v in e.values:
            if isinstance(v, ast.FormattedValue):
                if v.conversion != -1 or v.format_spec is not None:
                    return None
                parts.append(_const_text(ix, mod, v.value, local, depth + 1))
            else:
                parts.append(_const_text(ix, mod, v, local, depth + 1))
        return None if any(p is None for p in parts) else "".join(parts)  # type: ignore[arg-type]
    if isinstance(e, ast.BinOp) and isinstance(e.op, ast.Add):
        a, b = _const_text(ix, mod, e.left, local, depth + 1), _const_text(ix, mod, e.right, local, depth + 1)
        return None if a is None or b is None else a + b
    d = dotted(e)
    if d is None:
        return None
    if local is not None and isinstance(e, ast.Name) and e.id in local.defs:
        vals = local.defs[e.id]
        return _const_text(ix, mod, vals[0][2], local, depth + 1) if len(vals) == 1 and vals[0][0] == "assign" else None
    r = ix.resolve(mod, d)
    if r and r[0] == "var":
        m, name = r[1]
        return _const_text(ix, m, m.variables.get(name), None, depth + 1)
    return None


def _regex_termination(rep: Report, ctx: Any) -> None:
    """Instances: every pattern the package hands to the `re` module.  Oracle: every unbounded repetition of the pattern divides any
    text in one way only (`_Rx.one_division`)."""
    from ..astutil import Locals

    try:
        import re._parser as sp  # type: ignore[import-not-found]
    except ImportError:  # pragma: no cover
        import sre_parse as sp  # type: ignore[no-redef]
    ix = ctx.py
    n_rx = 0
    for m in ix.modules.values():
        owners = [(f.node, f) for f in ix.all_functions if f.module is m]
        for c in ast.walk(m.tree):
            if not isinstance(c, ast.Call):
                continue
            d = dotted(c.func)
            r = ix.resolve(m, d) if d else None
            if not (r and r[0] == "ext" and r[1].startswith("re.") and r[1][3:] in _RE_FUNCS):
                continue
            pat_e = c.args[0] if c.args else next((k.value for k in c.keywords if k.arg == "pattern"), None)
            inner = [f for node, f in owners if any(x is c for x in ast.walk(node))]
            f = inner[-1] if inner else None
            at = f"{m.rel}:{c.lineno}"
            text = _const_text(ix, m, pat_e, Locals(f.node) if f is not None else None)
            if text is None:
                # a pattern compiled elsewhere is judged where it is compiled
                pd = dotted(pat_e) if pat_e is not None else None
                rr = ix.resolve(m, pd) if pd else None
                compiled = rr and rr[0] == "var" and isinstance(rr[1][0].variables.get(rr[1][1]), ast.Call)
                if not compiled:
                    rep.not_decided.append(f"R06.4: the pattern `{norm(pat_e)[:60]}` at {at} is not a constant of the source: its repetitions are not decided")
                continue
            n_rx += 1
            flags = 0
            for fe in [*c.args[1:], *[k.value for k in c.keywords if k.arg == "flags"]]:
                if any(isinstance(x, ast.Attribute) and x.attr in ("I", "IGNORECASE") for x in ast.walk(fe)):
                    flags |= 2
            key = f"{short(f) if f is not None else m.name.replace(PKG + '.', '') or PKG}::regex {text[:60]}"
            try:
                parsed = sp.parse(text)
            except Exception as ex:  # noqa: BLE001  (a pattern the library rejects fails at import / first use: reported as it is)
                rep.fail("R06.4", key, f"the pattern does not parse: {ex}", where=at)
                continue
            bad = _Rx(ctx.tables, flags | parsed.state.flags).ambiguous_repeats(parsed)
            rep.check(not bad, "R06.4", key, f"the iterations of {', '.join('`' + b + '`' for b in bad[:3])} can divide the same text in more "
                      "than one way (what one iteration matches has no fixed length and no delimiter of its own): on a text that fails to "
                      "match further on the engine tries every division - exponential backtracking, the match does not come to an end",
                      where=at, lhs=bad[:3], rhs="every unbounded repetition divides a text in one way only", pattern=text[:120])
    rep.floor("regular_expressions", n_rx, 2)


# ---------------------------------------------------------------------------------------------------------------------------------
# R06.2 (iv): container operations on values that may be scalars

_SCALARS = {"bool", "int", "float"}
_ITERATING = {"set", "list", "tuple", "sorted", "frozenset", "enumerate", "sum", "any", "all", "min", "max", "dict", "iter", "reversed", "len"}
_ITERATING_ALL_ARGS = {"zip", "chain"}
_ITERATING_METHODS = {"update", "extend", "union", "intersection", "difference", "symmetric_difference", "issubset", "issuperset",
                      "isdisjoint", "join"}


def _alternatives(e: ast.expr) -> list[ast.expr]:
    """the expressions whose value `e` can hand on: the operands of `a or b` / `a and b`, the arms of a conditional expression"""
    if isinstance(e, ast.BoolOp):
        return [x for v in e.values for x in _alternatives(v)]
    if isinstance(e, ast.IfExp):
        return _alternatives(e.body) + _alternatives(e.orelse)
    if isinstance(e, ast.NamedExpr):
        return _alternatives(e.value)
    return [e]


def _container_uses(fn: ast.AST) -> list[tuple[str, ast.AST, ast.expr]]:
    """(operation, node, operand) for every operation of the function that needs its operand to be a container / iterable: iteration
    (for, comprehensions, unpacking, the iterating builtins and collection methods), len(), membership test, subscription"""
    out: list[tuple[str, ast.AST, ast.expr]] = []
    for n in _own_nodes(fn):
        if isinstance(n, (ast.For, ast.AsyncFor, ast.comprehension)):
            out.append(("iteration", n, n.iter))
        elif isinstance(n, ast.Call):
            cn = call_name(n)
            last = cn.rsplit(".", 1)[-1]
            if cn in _ITERATING and n.args:
                out.append((f"{cn}()", n, n.args[0]))
            elif last in _ITERATING_ALL_ARGS and cn in (last, f"itertools.{last}"):
                out += [(f"{last}()", n, a) for a in n.args if not isinstance(a, ast.Starred)]
            elif cn in ("map", "filter") and len(n.args) >= 2:
                out += [(f"{cn}()", n, a) for a in n.args[1:]]
            elif isinstance(n.func, ast.Attribute) and n.func.attr in _ITERATING_METHODS:
                out += [(f".{n.func.attr}()", n, a) for a in n.args if not isinstance(a, ast.Starred)]
        elif isinstance(n, ast.Compare) and len(n.ops) == 1 and isinstance(n.ops[0], (ast.In, ast.NotIn)):
            out.append(("`in`", n, n.comparators[0]))
        elif isinstance(n, ast.Starred) and isinstance(n.ctx, ast.Load):
            out.append(("unpacking", n, n.value))
        elif isinstance(n, ast.Subscript) and isinstance(n.ctx, ast.Load):
            out.append(("subscription", n, n.value))
    return out


def _isinstance_of(test: ast.AST, text: str) -> list[str] | None:
    """the class names of `isinstance(<text>, ...)`, None when the expression is no such test"""
    if isinstance(test, ast.Call) and call_name(test) == "isinstance" and len(test.args) == 2 and norm(test.args[0]) == text:
        return [(dotted(x) or norm(x)).rsplit(".", 1)[-1] for x in (test.args[1].elts if isinstance(test.args[1], ast.Tuple) else [test.args[1]])]
    return None


def _excludes(classes: list[str], outcome: bool, scalars: set[str]) -> bool:
    """the outcome of isinstance(x, classes) rules out that x is one of the scalar types"""
    numeric = {"bool": {"bool", "int"}, "int": {"int"}, "float": {"float"}}  # isinstance(True, int)
    wide = {"object", "Any", "Number", "Real", "Rational", "Integral", "Complex", "complex", "Hashable"}
    if outcome:
        return not any(c in wide or c in _SCALARS for c in classes)
    return all(any(c in numeric[s] or c in wide for c in classes) for s in scalars)


def _excludes_unhashable(classes: list[str], outcome: bool, unhashable: set[str]) -> bool:
    """the outcome of isinstance(x, classes) rules out that x (a value of the document: the unhashable ones are lists and mappings) is
    unhashable"""
    containers = {"list", "dict", "set", "bytearray", "List", "Dict", "Set", "Mapping", "MutableMapping", "Sequence", "MutableSequence",
                  "Iterable", "Collection", "Container"}
    wide = {"object", "Any", "Hashable"} | containers
    if outcome:
        return not any(c in wide for c in classes)
    return {"list", "dict"} <= set(classes) or bool({"Sequence", "MutableSequence", "list"} & set(classes)) and bool({"Mapping", "MutableMapping", "dict"} & set(classes))


def _scalar_excluded(f: FuncInfo, ix: Any, node: ast.AST, text: str, scalars: set[str], _excludes: Any = None) -> bool:
    """on every way to the operation an isinstance test on the operand (same text) has ruled the scalar types out - inside the
    expression (arms of a conditional expression, later operands of and / or) or on every path of the statement CFG"""
    from ..astutil import stmt_of
    from ..cfg import own_exprs

    _excludes = _excludes or globals()["_excludes"]
    found = False

    def rec(cur: ast.AST, guarded: bool) -> None:
        nonlocal found
        if cur is node:
            found = found or guarded
            return
        if isinstance(cur, ast.IfExp):
            facts = _implied(cur.test, True), _implied(cur.test, False)
            g = [guarded or any((cl := _isinstance_of(a, text)) is not None and _excludes(cl, v, scalars) for a, v in fs) for fs in facts]
            rec(cur.test, guarded)
            rec(cur.body, g[0])
            rec(cur.orelse, g[1])
            return
        if isinstance(cur, ast.BoolOp):
            g = guarded
            for v in cur.values:
                rec(v, g)
                want = isinstance(cur.op, ast.And)  # the next operand is evaluated only if this one was true (and) / false (or)
                g = g or any((cl := _isinstance_of(a, text)) is not None and _excludes(cl, val, scalars) for a, val in _implied(v, want))
            return
        for k in ast.iter_child_nodes(cur):
            if not isinstance(k, (ast.stmt, ast.ExceptHandler)):
                rec(k, guarded)

    st = stmt_of(f.node, node)
    if st is None:
        return False
    for e in own_exprs(st):
        rec(e, False)
    if found:
        return True
    fl = _Flow(f, ix)

    def passes_guard(a: object, lab: bool | None) -> bool:
        if lab is None or not isinstance(a, (ast.If, ast.While)):
            return False
        return any((cl := _isinstance_of(atom, text)) is not None and _excludes(cl, v, scalars) for atom, v in _implied(a.test, lab))

    entry = [(_ENTRY, None, b) for b, _ in fl.out(_ENTRY)]
    return not fl.reach(entry, [st], stop_edge=passes_guard)


def _container_operations(rep: Report, ctx: Any, funcs: list[FuncInfo], validators: list[FuncInfo]) -> None:
    """Instances: every container operation whose operand is document-derived (abstract interpreter).  Obligation: the operand's
    abstract type - what the pydantic field it comes from admits, what the code assigned - contains no scalar type (bool, int,
    float), or an isinstance test has excluded it on every way there.  `x or []` only replaces None / False / 0, not True or 5."""
    from ..astutil import role_anon

    ix = ctx.py
    it, _ = ctx.flow
    n_ops = 0
    for f in funcs:
        for what, node, operand in _container_uses(f.node):
            for alt in _alternatives(operand):
                av = it.node_av.get(id(alt))
                if av is None or not (av.labels & {RAW, RAW_NONSTR, UNKNOWN}):
                    continue
                n_ops += 1
                scalars = set(av.types & _SCALARS)
                ok = not scalars or _scalar_excluded(f, ix, alt, norm(alt), scalars)
                exc = "TypeError" if f not in validators else "TypeError (not wrapped into ValidationError)"
                rep.check(ok, "R06.2", f"{short(f)}::{what} on {role_anon(alt, f.node)[:50]}",
                          f"{what} is applied to `{norm(alt)[:60]}`, a value taken from the document that may be a {' / '.join(sorted(scalars))} "
                          f"(abstract type {sorted(av.types)[:6]}) and that no isinstance test has narrowed: {exc} instead of a diagnostic",
                          where(f, node), lhs=sorted(av.types)[:8], rhs="a container type, or an isinstance test on every way to the operation")
    rep.floor("container_operations_on_document_values", n_ops, 12)


_UNHASHABLE = {"Any", "list", "dict", "set"}
_HASHING_METHODS = {"get", "pop", "setdefault", "add", "discard", "remove", "count", "index"}


def _hash_uses(fn: ast.AST, it: Any) -> list[tuple[str, ast.AST, ast.expr, bool]]:
    """(operation, node, operand, elements) for every operation of the function that hashes its operand (elements: the elements of
    its operand): membership test in / subscription of / keyed method of a dict or set (the container's abstract type says which),
    keys of dict displays and comprehensions, elements of set displays and comprehensions, set() / frozenset() / dict.fromkeys()"""
    def kinds(e: ast.AST) -> set[str]:
        av = it.node_av.get(id(e))
        if av is None and isinstance(e, (ast.Dict, ast.DictComp)):
            return {"dict"}
        if av is None and isinstance(e, (ast.Set, ast.SetComp)):
            return {"set"}
        return set(av.types) & {"dict", "set", "frozenset"} if av is not None else set()

    out: list[tuple[str, ast.AST, ast.expr, bool]] = []
    for n in _own_nodes(fn):
        if isinstance(n, ast.Compare) and len(n.ops) == 1 and isinstance(n.ops[0], (ast.In, ast.NotIn)) and kinds(n.comparators[0]):
            out.append(("lookup with `in`", n, n.left, False))
        elif isinstance(n, ast.Subscript) and not isinstance(n.slice, ast.Slice) and "dict" in kinds(n.value):
            out.append(("use as a dict key", n, n.slice, False))
        elif isinstance(n, ast.Call) and isinstance(n.func, ast.Attribute) and n.func.attr in _HASHING_METHODS and n.args and kinds(n.func.value) \
                and not (n.func.attr in ("count", "index", "pop", "remove") and "list" in getattr(it.node_av.get(id(n.func.value)), "types", ())):
            out.append((f".{n.func.attr}()", n, n.args[0], False))
        elif isinstance(n, ast.Dict):
            out += [("use as a dict key", n, k, False) for k in n.keys if k is not None]
        elif isinstance(n, ast.DictComp):
            out.append(("use as a dict key", n, n.key, False))
        elif isinstance(n, ast.Set):
            out += [("use as a set element", n, k, False) for k in n.elts if not isinstance(k, ast.Starred)]
        elif isinstance(n, ast.SetComp):
            out.append(("use as a set element", n, n.elt, False))
        elif isinstance(n, ast.Call) and call_name(n) in ("set", "frozenset", "dict.fromkeys") and n.args:
            out.append((f"{call_name(n)}()", n, n.args[0], True))
    return out


def _hash_operations(rep: Report, ctx: Any, funcs: list[FuncInfo], validators: list[FuncInfo]) -> None:
    """R06.2 (v).  Instances: every hash operation whose operand is document-derived (abstract interpreter).  Obligation: the
    operand's abstract type - what the pydantic field it comes from admits, narrowed by the isinstance tests on the way - contains no
    unhashable type (list, dict, set, or the untyped Any of `default` / `example` / `const` / enum members), or the operation sits in
    a try that catches TypeError.  A class object (`type(x)`) and a string built from the value are hashable whatever the value is."""
    from ..astutil import role_anon

    it, _ = ctx.flow
    n_ops = 0
    for f in funcs:
        for what, node, operand, elements in _hash_uses(f.node, it):
            for alt in _alternatives(operand):
                if isinstance(alt, ast.Call) and call_name(alt) in ("type", "str", "repr", "id", "hash", "len", "bool", "int", "float", "tuple") and not elements:
                    continue
                av = it.node_av.get(id(alt))
                if av is not None and elements:
                    av = av.elem
                if av is None or not (av.labels & {RAW, RAW_NONSTR, UNKNOWN}):
                    continue
                n_ops += 1
                unhashable = set(av.types) & _UNHASHABLE
                ok = not unhashable or caught("TypeError", handlers_around(f.node, node)) \
                    or _scalar_excluded(f, ctx.py, alt, norm(alt), unhashable, _excludes_unhashable)
                exc = "TypeError" if f not in validators else "TypeError (not wrapped into ValidationError)"
                rep.check(ok, "R06.2", f"{short(f)}::{what} of {role_anon(alt, f.node)[:50]}",
                          f"{what}: `{norm(alt)[:60]}`{' (its elements)' if elements else ''} is hashed, a value taken from the document that may be "
                          f"a {' / '.join(sorted(unhashable))} (abstract type {sorted(av.types)[:6]}) and that no isinstance test has narrowed: "
                          f"{exc} `unhashable type` instead of a diagnostic", where(f, node), lhs=sorted(av.types)[:8],
                          rhs="a hashable type, or an isinstance test on every way to the operation, or a try that catches TypeError")
    rep.floor("hash_operations_on_document_values", n_ops, 10)


_CONTAINER_ANNOTATIONS = ("dict[", "Dict[", "list[", "List[", "set[", "Set[", "Mapping[", "MutableMapping[", "Sequence[", "Iterable[", "Collection[",
                          "tuple[", "Tuple[")


def _container_annotation(ann: ast.AST | None) -> bool:
    """the parameter is declared as a container and not as optional"""
    txt = norm(ann).strip("'\"") if ann is not None else ""
    return bool(txt) and (txt.startswith(_CONTAINER_ANNOTATIONS) or txt in ("dict", "list", "set")) and "None" not in txt and "Optional" not in txt


def _may_be_none(it: Any, f: FuncInfo, fl: "_Flow", lc: Any, e: ast.AST | None, st: ast.AST | None, seen: frozenset[str] = frozenset(),
                 depth: int = 0) -> bool:
    """can the expression e, evaluated in the statement st of f, be None.  `a or b` hands on only truthy values of a, `a and b` any
    falsy value of a; a name, attribute, subscript or call can be None when the interpreter has None among its abstract types and no
    test on the same expression (truthiness, `is not None`; in the statement itself or on every path that leads to it, looking
    through boolean locals) rules it out; a local that is only assigned is as good as what it is assigned from, where it is assigned."""
    from ..astutil import stmt_of

    if e is None or depth > 6:
        return False
    if isinstance(e, ast.Constant):
        return e.value is None
    if isinstance(e, ast.BoolOp):
        if isinstance(e.op, ast.Or):
            return _may_be_none(it, f, fl, lc, e.values[-1], st, seen, depth + 1)
        return any(_may_be_none(it, f, fl, lc, v, st, seen, depth + 1) for v in e.values)
    if isinstance(e, ast.IfExp):
        return _may_be_none(it, f, fl, lc, e.body, st, seen, depth + 1) or _may_be_none(it, f, fl, lc, e.orelse, st, seen, depth + 1)
    if isinstance(e, (ast.NamedExpr, ast.Await)):
        return _may_be_none(it, f, fl, lc, e.value, st, seen, depth + 1)
    if not isinstance(e, (ast.Name, ast.Attribute, ast.Subscript, ast.Call)):
        return False
    av = it.node_av.get(id(e))
    if av is None or "None" not in av.types:
        return False
    text = norm(e)

    def not_none(test: ast.expr, outcome: bool) -> bool:
        for atom, val in _implied_deep(test, outcome, lc):
            if any(fact in (("truthy", text, True), ("differs", text, "None")) for fact in _atom_facts(atom, val)):
                return True
            cl = _isinstance_of(atom, text)
            if cl is not None and val and not ({"object", "Any", "NoneType"} & set(cl)):
                return True  # an instance of a class that is not None's
            if val and isinstance(atom, ast.Compare) and len(atom.ops) == 1 and isinstance(atom.ops[0], ast.Eq) and any(
                    norm(a) == text and isinstance(b, ast.Constant) and b.value is not None
                    for a, b in ((atom.left, atom.comparators[0]), (atom.comparators[0], atom.left))):
                return True  # equal to a constant that is not None
        return False

    if any(not_none(t, v) for t, v in _guards_in_statement(st, e)):
        return False
    if st is not None:
        # ways to the statement: from the entry of the function and from every statement that gives the expression a new value
        # (binds its root name, stores into it); a way ends at a test that rules None out and at a store of a value that cannot be
        # None (`x.detail = x.detail or ""`, `x.detail += ".."`) - the statement itself reads the expression before it stores
        root = _root(e) if isinstance(e, (ast.Name, ast.Attribute, ast.Subscript)) else None
        fills: list[ast.AST] = []
        kills: list[ast.AST] = []
        for n in (fl.cfg.stmts() if root is not None and depth < 3 else []):
            stores = isinstance(n, (ast.Assign, ast.AnnAssign, ast.AugAssign)) and any(
                norm(t) == text for t in (n.targets if isinstance(n, ast.Assign) else [n.target]))
            if stores and (isinstance(n, ast.AugAssign) or (n.value is not None and not _may_be_none(it, f, fl, lc, n.value, n, seen, depth + 3))):  # type: ignore[union-attr]
                fills.append(n)
            elif stores or _binds_name(n, root):  # type: ignore[arg-type]
                kills.append(n)
        starts = [(_ENTRY, None, b) for b, _ in fl.out(_ENTRY)] + [(k, lab, b) for k in kills for b, lab in fl.out(k)]
        if not fl.reach(starts, [st], stop_node=lambda n: any(n is x for x in fills),
                        stop_edge=lambda a, lab: lab is not None and isinstance(a, (ast.If, ast.While)) and not_none(a.test, lab)):
            return False
    if isinstance(e, ast.Name) and e.id not in seen and e.id not in [p.arg for p in f.params]:
        defs = lc.defs.get(e.id, [])
        if defs and all(k.startswith("assign[") and not isinstance(v, (ast.Tuple, ast.List)) for k, _, v in defs):
            # a component of an unpacked tuple that is not written out: the interpreter keeps one abstract value for all the
            # components of a tuple, so None among the types may belong to another component - not decided
            return False
        if defs and all(k == "assign" and v is not None for k, _, v in defs):
            return any(_may_be_none(it, f, fl, lc, v, s if isinstance(s, ast.stmt) else stmt_of(f.node, s), seen | {e.id}, depth + 1)
                       for _, s, v in defs)
    return True


def _none_arguments(rep: Report, ctx: Any, funcs: list[FuncInfo]) -> None:
    """R06.2 (vi).  Instances: every argument that is document-derived (abstract interpreter) and is received by a parameter of a function
    of the repository declared as a container (dict[..], list[..], set[..], Mapping, Sequence, ...) and not as optional - the callee,
    or a function it hands the value on to, applies container operations and methods to it.  Obligation: the argument cannot be None
    (`_may_be_none`): an optional section of the document has been replaced by an empty container or tested before it is handed on."""
    from ..astutil import Locals, role_anon, stmt_of

    ix = ctx.py
    it, _ = ctx.flow
    n_args = 0
    for f in funcs:
        fl: _Flow | None = None
        lc = None
        for c in _own_nodes(f.node):
            if not isinstance(c, ast.Call):
                continue
            hs = _callees(ix, it, f, c)
            if not hs:
                continue
            given: list[tuple[int | str, ast.expr]] = [(i, a) for i, a in enumerate(c.args) if not isinstance(a, ast.Starred)]
            given += [(k.arg, k.value) for k in c.keywords if k.arg]
            for pos, a in given:
                pars = [(h, par) for h in hs if (p := _param_for(h, c, pos)) is not None for par in h.params if par.arg == p]
                if not pars or not all(_container_annotation(par.annotation) for _, par in pars):
                    continue
                if not any((x := it.node_av.get(id(w))) is not None and x.labels & {RAW, RAW_NONSTR, UNKNOWN} for w in _alternatives(a)):
                    continue
                if fl is None:
                    fl, lc = _Flow(f, ix), Locals(f.node)
                n_args += 1
                h, par = pars[0]
                ok = not _may_be_none(it, f, fl, lc, a, stmt_of(f.node, c))
                rep.check(ok, "R06.2", f"{short(f)}::{h.name}({par.arg}={role_anon(a, f.node)[:50]})",
                          f"`{norm(a)[:60]}`, a value taken from the document that may be None (an optional section that is absent), is handed to "
                          f"`{h.name}` as `{par.arg}: {norm(par.annotation)[:40]}` without a fallback or a test: AttributeError / TypeError on None "
                          "instead of a diagnostic where the callee uses it", where(f, c), lhs=norm(a)[:60],
                          rhs="an empty container instead of None (`x or {}`), or a test on every way to the call")
    rep.floor("document_arguments_to_container_parameters", n_args, 6)


# R06.2 (vii): operations that reject None, applied to optional values of the document

# functions of the standard library that work on the text (or the number) they are given and raise TypeError / AttributeError on None:
# callee suffix -> positions of the arguments concerned (None: all positional arguments)
_REJECTS_NONE: dict[str, tuple[int, ...] | None] = {
    "textwrap.indent": (0, 1), "indent": (0, 1), "textwrap.dedent": (0,), "dedent": (0,), "textwrap.fill": (0,), "fill": (0,),
    "textwrap.wrap": (0,), "wrap": (0,), "textwrap.shorten": (0,), "shorten": (0,),
    "re.sub": (0, 1, 2), "re.subn": (0, 1, 2), "re.match": (0, 1), "re.search": (0, 1), "re.fullmatch": (0, 1), "re.findall": (0, 1),
    "re.finditer": (0, 1), "re.split": (0, 1), "re.compile": (0,), "re.escape": (0,),
    "len": (0,), "int": (0,), "float": (0,), "abs": (0,), "round": (0,), "ord": (0,), "chr": (0,), "divmod": (0, 1), "pow": (0, 1),
    "html.escape": (0,), "html.unescape": (0,), "shlex.quote": (0,), "shlex.split": (0,), "quote": (0,), "unquote": (0,), "quote_plus": (0,),
    "urljoin": (0,), "json.loads": (0,), "unicodedata.normalize": (1,), "unicodedata.name": (0,), "unicodedata.category": (0,),
    "keyword.iskeyword": (), "os.path.join": None, "os.path.basename": (0,), "os.path.dirname": (0,), "os.path.splitext": (0,),
    "Path": None, "PurePosixPath": None, "PurePath": None, "fnmatch": (0, 1), "fnmatchcase": (0, 1),
    "isoparse": (0,), "fromisoformat": (0,), "strptime": (0, 1), "UUID": (0,), "Decimal": (0,), "Fraction": (0,), "b64decode": (0,), "b64encode": (0,),
    "math.floor": (0,), "math.ceil": (0,), "math.trunc": (0,), "math.isfinite": (0,), "math.isnan": (0,), "math.isinf": (0,), "math.log": (0,),
    "math.sqrt": (0,),
}
# methods of str whose arguments must be text as well: `s.replace(a, None)`, `s.startswith(None)`, `sep.join([None])` (the elements)
_STR_METHODS_TEXT_ARGS = {"replace", "startswith", "endswith", "removeprefix", "removesuffix", "find", "rfind", "index", "rindex", "count",
                          "partition", "rpartition", "ljust", "rjust", "center", "zfill", "encode"}
_ARITHMETIC = (ast.Add, ast.Sub, ast.Mult, ast.Div, ast.FloorDiv, ast.Mod, ast.Pow, ast.MatMult)
_ORDERING = (ast.Lt, ast.LtE, ast.Gt, ast.GtE)


def _none_rejecting_uses(ix: Any, it: Any, f: FuncInfo) -> list[tuple[str, ast.AST, ast.expr]]:
    """(operation, node, operand) for every operation of the function that raises when its operand is None: attribute access and
    method calls on it, arithmetic / concatenation / `%` formatting / ordering comparison with it, unary minus, the container
    operations of (iv), the text and number functions of the standard library (table), text arguments of str methods"""
    out: list[tuple[str, ast.AST, ast.expr]] = list(_container_uses(f.node))
    for n in _own_nodes(f.node):
        if isinstance(n, ast.Attribute) and isinstance(n.ctx, ast.Load):
            out.append((f"`.{n.attr}`", n, n.value))
        elif isinstance(n, ast.BinOp) and isinstance(n.op, _ARITHMETIC):
            out += [("arithmetic / concatenation", n, n.left), ("arithmetic / concatenation", n, n.right)]
        elif isinstance(n, ast.AugAssign) and isinstance(n.op, _ARITHMETIC):
            out += [("arithmetic / concatenation", n, n.value), ("arithmetic / concatenation", n, n.target)]
        elif isinstance(n, ast.UnaryOp) and isinstance(n.op, (ast.USub, ast.UAdd, ast.Invert)):
            out.append(("arithmetic", n, n.operand))
        elif isinstance(n, ast.Compare) and any(isinstance(o, _ORDERING) for o in n.ops):
            xs = [n.left, *n.comparators]
            out += [("ordering comparison", n, x) for i, x in enumerate(xs)
                    if (i < len(n.ops) and isinstance(n.ops[i], _ORDERING)) or (i > 0 and isinstance(n.ops[i - 1], _ORDERING))]
        elif isinstance(n, ast.Call):
            if _callees(ix, it, f, n):
                continue
            cn = call_name(n)
            positions: tuple[int, ...] | None = ()
            for suf, pos in _REJECTS_NONE.items():
                if cn == suf or cn.endswith("." + suf) and "." in suf:
                    positions = pos
                    break
            else:
                rv = it.node_av.get(id(n.func.value)) if isinstance(n.func, ast.Attribute) else None
                if rv is not None and rv.types and set(rv.types) <= {"str"} and isinstance(n.func, ast.Attribute):
                    if n.func.attr in _STR_METHODS_TEXT_ARGS:
                        positions = None
                    elif n.func.attr == "join" and n.args and isinstance(n.args[0], (ast.List, ast.Tuple)):
                        out += [("`.join()` of", n, x) for x in n.args[0].elts if not isinstance(x, ast.Starred)]
                if cn == "len" or cn in _ITERATING:
                    continue  # already among the container operations
            if cn == "len":
                continue
            for i, a in enumerate(n.args):
                if isinstance(a, ast.Starred):
                    break
                if positions is None or i in positions:
                    out.append((f"`{cn.rsplit('.', 2)[-1] if '.' not in cn else '.'.join(cn.rsplit('.', 2)[-2:])}()`", n, a))
    return out


def _optional_read(e: ast.AST, lc: Any, params: set[str], depth: int = 0) -> bool:
    """the expression reads an optional field or an optional result where it stands: an attribute, the result of a call, or a local
    that is only ever assigned (plainly) from such.  A parameter, a loop / unpacking target, an element taken out by subscription:
    the interpreter's type for these is a join over everything they ever hold (all elements, all bindings) - not decided here."""
    if isinstance(e, (ast.Attribute, ast.Call)):
        return True
    if isinstance(e, ast.Name) and e.id not in params and depth < 4:
        defs = lc.defs.get(e.id, [])
        return bool(defs) and all(k == "assign" and v is not None and all(_optional_read(w, lc, params, depth + 1) or isinstance(w, ast.Constant)
                                                                          for w in _alternatives(v)) for k, _, v in defs)
    return False


def _none_operations(rep: Report, ctx: Any, funcs: list[FuncInfo], validators: list[FuncInfo]) -> None:
    """R06.2 (vii).  Instances: every operation that rejects None (`_none_rejecting_uses`) whose operand is document-derived (abstract
    interpreter) and has None among its abstract types - an optional field of the document, or of a diagnostic / property built from
    it.  Obligation: the operand cannot be None there (`_may_be_none`: a fallback `x or ""`, a test on the same expression inside the
    statement or on every path to it), or the operation sits in a try that catches what None raises (TypeError and AttributeError)."""
    from ..astutil import Locals, role_anon, stmt_of

    ix = ctx.py
    it, _ = ctx.flow
    n_ops = 0
    for f in funcs:
        fl: _Flow | None = None
        lc = None
        params = {p.arg for p in f.params}
        for what, node, operand in _none_rejecting_uses(ix, it, f):
            if fl is None:
                fl, lc = _Flow(f, ix), Locals(f.node)
            if not any((x := it.node_av.get(id(w))) is not None and "None" in x.types and x.labels & {RAW, RAW_NONSTR, UNKNOWN}
                       and _optional_read(w, lc, params) for w in _alternatives(operand)):
                continue
            n_ops += 1
            st = node if isinstance(node, (ast.stmt, ast.ExceptHandler)) else stmt_of(f.node, node)
            hs = handlers_around(f.node, node)
            ok = not _may_be_none(it, f, fl, lc, operand, st) or (caught("TypeError", hs) and caught("AttributeError", hs))
            exc = "AttributeError / TypeError" if f not in validators else "AttributeError / TypeError (not wrapped into ValidationError)"
            rep.check(ok, "R06.2", f"{short(f)}::{what} on optional {role_anon(operand, f.node)[:50]}",
                      f"{what} is applied to `{norm(operand)[:60]}`, an optional value taken from the document (or from a diagnostic / property "
                      f"built from it) that may be None there: {exc} instead of a diagnostic", where(f, node), lhs=norm(operand)[:60],
                      rhs="a fallback (`x or \"\"`), or a test that rules None out on every way to the operation")
    rep.floor("none_rejecting_operations_on_optional_document_values", n_ops, 8)


# ---------------------------------------------------------------------------------------------------------------------------------
# R06.5 machinery: what cli.handle_errors does with the diagnostics it is given, decided by abstract evaluation.  The property
# distinguishes the inputs only by (a) is the sequence of diagnostics empty, (b) does SOME diagnostic have the level ERROR, (c) is
# fail_on_warning set.  The function body (and the functions of the repository it calls) is evaluated once per combination over
# abstract values: constants and dotted names, records (constructor calls of field-only classes, tuple / dict displays), collections
# described by the KINDS of element they hold (each kind guaranteed to occur or not), the diagnostics themselves, and "unknown".
# Under (b) the diagnostics hold one element whose `level == ERROR` is true (guaranteed) and others for which it is unknown; otherwise
# only elements for which it is false.  A loop over such a collection is iterated to a fixpoint in two phases around the iteration
# that meets the guaranteed element, so "set in some iteration and never reset" and "return at the first match" come out alike,
# whether the scan is a loop with a flag / level variable / break, an `any(...)`, a filtered list, a counter, or lives in a helper that
# returns a scalar, a tuple or a record.  Tests whose value is unknown are followed both ways.  Nothing of the repository is run.

_TOP: tuple = ("top",)
_TRUTHY: tuple = ("truthy",)
_FALSY: tuple = ("falsy",)
_NONE: tuple = ("k", "c", None)
_PURE_CALLS = _READONLY | _WRAPPERS | {"next", "filter", "map", "range", "hasattr", "getattr", "callable", "format", "pformat"}


# ---------------------------------------------------------------------------------------------------------------------------------
# R06.2 (viii).  The document decides how long its lists and texts are - the empty one is always among the inputs.  Taking the element
# at a fixed position (`x[0]`, `x[-1]`, `next(iter(x))`, `x.pop()`) is total only where the length is known to suffice.

def _positional_uses(fn: ast.AST) -> list[tuple[str, ast.AST, ast.expr, int, tuple[str, ...]]]:
    """(operation, node, sequence, elements needed, exceptions raised when there are fewer)"""
    out: list[tuple[str, ast.AST, ast.expr, int, tuple[str, ...]]] = []
    for n in _own_nodes(fn):
        if isinstance(n, ast.Subscript) and isinstance(n.ctx, ast.Load):
            i = n.slice
            neg = isinstance(i, ast.UnaryOp) and isinstance(i.op, ast.USub)
            i = i.operand if neg else i  # type: ignore[union-attr]
            if isinstance(i, ast.Constant) and isinstance(i.value, int) and not isinstance(i.value, bool):
                need = i.value if neg else i.value + 1
                if need > 0:
                    out.append((f"[{'-' if neg else ''}{i.value}]", n, n.value, need, ("IndexError",)))
        elif isinstance(n, ast.Call) and call_name(n) == "next" and len(n.args) == 1 and not n.keywords:
            a = n.args[0]
            a = a.args[0] if isinstance(a, ast.Call) and call_name(a) in ("iter", "reversed") and len(a.args) == 1 else a
            out.append(("next()", n, a, 1, ("StopIteration",)))
        elif isinstance(n, ast.Call) and isinstance(n.func, ast.Attribute) and n.func.attr in ("pop", "popleft", "popitem") and not n.args \
                and not n.keywords:
            out.append((f".{n.func.attr}()", n, n.func.value, 1, ("IndexError", "KeyError")))
    return out


def _known_length(e: ast.AST | None, lc: Any, it: Any, seen: frozenset[str] = frozenset()) -> int:
    """a number of elements the value has whatever the document says: a display, the result of split(sep) / partition(sep), a tuple
    of known shape; a local has the least of what its definitions have"""
    if e is None:
        return 0
    av = it.node_av.get(id(e))
    if av is not None and av.tup is not None:
        return len(av.tup)
    if isinstance(e, (ast.Tuple, ast.List)):
        return sum(1 for x in e.elts if not isinstance(x, ast.Starred))
    if isinstance(e, ast.Call) and isinstance(e.func, ast.Attribute):
        if e.func.attr in ("split", "rsplit") and e.args and not (isinstance(e.args[0], ast.Constant) and e.args[0].value is None):
            return 1
        if e.func.attr in ("partition", "rpartition"):
            return 3
    if isinstance(e, ast.Name) and e.id not in seen:
        defs = lc.defs.get(e.id, [])
        if defs and all(k == "assign" and v is not None for k, _, v in defs):
            return min(_known_length(v, lc, it, seen | {e.id}) for _, _, v in defs)
    return 0


def _length_bound(atom: ast.expr, val: bool, text: str, f: FuncInfo, ix: Any) -> int:
    """the least number of elements `text` has when the atom of a test has the truth value val: its own truth (a non-empty
    container), or a comparison of its len() with an integer constant (written out, or a constant of a module)"""
    def const(e: ast.expr) -> int | None:
        if isinstance(e, ast.Constant):
            return e.value if isinstance(e.value, int) and not isinstance(e.value, bool) else None
        d = dotted(e)
        r = ix.resolve(f.module, d) if d else None
        if r is not None and r[0] == "var":
            v = r[1][0].variables.get(r[1][1])
            return const(v) if isinstance(v, ast.Constant) else None
        return None

    def is_len(e: ast.expr) -> bool:
        return isinstance(e, ast.Call) and call_name(e) == "len" and len(e.args) == 1 and norm(e.args[0]) == text

    if norm(_strip_len(atom)) == text:
        return 1 if val else 0
    if not (isinstance(atom, ast.Compare) and len(atom.ops) == 1):
        return 0
    op, left, right = type(atom.ops[0]), atom.left, atom.comparators[0]
    if is_len(right) and not is_len(left):
        left, right = right, left
        op = {ast.Gt: ast.Lt, ast.Lt: ast.Gt, ast.GtE: ast.LtE, ast.LtE: ast.GtE}.get(op, op)
    k = const(right) if is_len(left) else None
    if k is None:
        return 0
    if val:
        return {ast.Eq: k, ast.Gt: k + 1, ast.GtE: k}.get(op, 0)
    return {ast.NotEq: k, ast.Lt: k, ast.LtE: k + 1}.get(op, 0)


def _long_enough(f: FuncInfo, ix: Any, node: ast.AST, seq: ast.expr, need: int) -> bool:
    """on every way to the access a test has established that the sequence (same text) has at least `need` elements - inside the
    expression (arms of a conditional expression, later operands of and / or, the conditions of a comprehension) or on every path
    of the statement CFG from the function's entry and from every statement that binds the sequence anew"""
    from ..astutil import stmt_of
    from ..cfg import own_exprs

    text = norm(seq)
    found = False

    def enough(facts: list[tuple[ast.expr, bool]]) -> bool:
        return any(_length_bound(a, v, text, f, ix) >= need for a, v in facts)

    def rec(cur: ast.AST, guarded: bool) -> None:
        nonlocal found
        if cur is node:
            found = found or guarded
            return
        if isinstance(cur, ast.IfExp):
            rec(cur.test, guarded)
            rec(cur.body, guarded or enough(_implied(cur.test, True)))
            rec(cur.orelse, guarded or enough(_implied(cur.test, False)))
            return
        if isinstance(cur, ast.BoolOp):
            g = guarded
            for v in cur.values:
                rec(v, g)
                g = g or enough(_implied(v, isinstance(cur.op, ast.And)))
            return
        if isinstance(cur, (ast.ListComp, ast.SetComp, ast.GeneratorExp, ast.DictComp)):
            g = guarded
            for gen in cur.generators:
                rec(gen.iter, g)
                for c in gen.ifs:
                    rec(c, g)
                    g = g or enough(_implied(c, True))
            for part in ([cur.key, cur.value] if isinstance(cur, ast.DictComp) else [cur.elt]):
                rec(part, g)
            return
        for k in ast.iter_child_nodes(cur):
            if not isinstance(k, (ast.stmt, ast.ExceptHandler)):
                rec(k, guarded)

    st = stmt_of(f.node, node)
    if st is None:
        return False
    for e in own_exprs(st):
        rec(e, False)
    if found:
        return True
    fl = _Flow(f, ix)
    root = _root(seq) if isinstance(seq, (ast.Attribute, ast.Subscript)) else (seq.id if isinstance(seq, ast.Name) else None)

    def rebinds(s_: object) -> bool:
        if not isinstance(s_, ast.AST) or s_ is st:
            return False
        for n in walk_own(s_):  # type: ignore[arg-type]
            if isinstance(n, (ast.Name, ast.Attribute, ast.Subscript)) and isinstance(getattr(n, "ctx", None), (ast.Store, ast.Del)) \
                    and (norm(n) == text or (isinstance(n, ast.Name) and n.id == root)):
                return True
        return isinstance(s_, ast.ExceptHandler) and s_.name == root

    def passes_guard(a: object, lab: bool | None) -> bool:
        if lab is None or not isinstance(a, (ast.If, ast.While)):
            return False
        return enough(_implied(a.test, lab))

    starts = [_ENTRY] + [s_ for s_ in fl.cfg.stmts() if rebinds(s_)]
    edges0 = [(a, lab, b) for a in starts for b, lab in fl.out(a)]
    return not fl.reach(edges0, [st], stop_edge=passes_guard)


def _positional_accesses(rep: Report, ctx: Any, funcs: list[FuncInfo], validators: list[FuncInfo]) -> None:
    """Instances: every access to the element at a fixed position - `x[i]` with an integer constant i, `next(iter(x))` without a
    default, `x.pop()` - whose sequence the abstract interpreter derives from the document; inside a pydantic validation callback
    every such access (all it handles is the document, and what it raises besides ValueError / AssertionError is not wrapped).
    Obligation: the sequence has that many elements whatever the document says (a display, split(sep), a tuple of known shape), or
    a test of its truth / of its len() against a constant has established it on every way there, or a try around the access (in a
    private helper: around every call of it) catches what the access raises on a sequence that is too short."""
    from ..astutil import Locals, role_anon

    ix = ctx.py
    it, _ = ctx.flow
    n_acc = 0
    for f in funcs:
        lc = None
        for what, node, seq, need, excs in _positional_uses(f.node):
            av = it.node_av.get(id(seq))
            derived = av is not None and bool(av.labels & {RAW, RAW_NONSTR, UNKNOWN})
            if not derived and f not in validators:
                continue
            if av is not None and av.types and av.types <= {"dict", "None"}:
                continue  # a key of a mapping, not a position
            n_acc += 1
            lc = lc or Locals(f.node)
            ok = _known_length(seq, lc, it) >= need or _long_enough(f, ix, node, seq, need)
            bad: list[str] = []
            if not ok:
                hs = handlers_around(f.node, node)
                bad = [e for e in excs if not caught(e, hs)]
                if bad and f not in validators:
                    bad = _escaping_callers(ix, f, bad, 0)
            rep.check(not bad, "R06.2", f"{short(f)}::element {what} of {role_anon(seq, f.node)[:50]}",
                      f"`{norm(node)[:60]}` takes the element at a fixed position of `{norm(seq)[:40]}`, whose length the document decides "
                      f"(an empty list / text is a possible input) and that no test has shown to have {need} element(s) on every way "
                      f"there: {' / '.join(bad)} instead of a diagnostic" + (" (not wrapped into ValidationError)" if f in validators else ""),
                      where(f, node), lhs=f"needs {need} element(s)", rhs="known length | truth / len() test on every way | try")
    rep.floor("positional_accesses_on_document_sequences", n_acc, 3)


class _NotFollowed(Exception):
    """the evaluation met a construct it does not model"""


class _Raises(Exception):
    def __init__(self, excs: list[tuple]) -> None:
        super().__init__("raises")
        self.excs = excs


def _kc(v: Any) -> tuple:
    return ("k", "c", v)


def _comp(kinds: Any) -> tuple:
    out: list[tuple] = []
    for g, v in kinds:
        if (True, v) in out or (g, v) in out:
            continue
        if g and (False, v) in out:
            out.remove((False, v))
        out.append((g, v))
    return ("comp", tuple(out))


def _freeze(env: dict[str, tuple]) -> tuple:
    return tuple(sorted(env.items()))


def _dedupe(outs: list[tuple[str, dict[str, tuple], Any]]) -> list[tuple[str, dict[str, tuple], Any]]:
    seen: set[tuple] = set()
    res = []
    for kind, env, v in outs:
        k = (kind, _freeze(env), v)
        if k not in seen:
            seen.add(k)
            res.append((kind, env, v))
    return res


class _ExitEval:
    def __init__(self, ix: Any, diag_param: str, flag_param: str) -> None:
        self.ix = ix
        self.diag_param, self.flag_param = diag_param, flag_param
        lv = [c for c in ix.classes.values() if c.name == "ErrorLevel"]
        self.level_cls = lv[0] if len(lv) == 1 else None
        self.members = [m for m in (self.level_cls.classvars if self.level_cls else {}) if not m.startswith("_")]
        self.scans: set[str] = set()
        self.ticks = 0
        self.stack: list[FuncInfo] = []
        self.pending: list[tuple] = []
        self.lams: dict[int, ast.Lambda] = {}

    # ---------------------------------------------------------------------------------------------------------------- entry
    def outcomes(self, f: FuncInfo, empty: bool, has_error: bool, flag: bool) -> set[str]:
        """how a call of f can end: 'end' (returns, or exit status 0), 'exit1' (non-zero exit status), 'exit?' (an exit status that
        is not a constant), 'crash:<exception>'"""
        if empty:
            diags = _comp([])
        elif has_error:
            diags = _comp([(True, ("elem", True)), (False, ("elem", None))])
        else:
            diags = _comp([(True, ("elem", False))])
        env = {p.arg: _TOP for p in f.params}
        env[self.diag_param] = diags
        env[self.flag_param] = _kc(flag)
        self.stack = [f]
        self.ticks = 0
        out: set[str] = set()
        for kind, _, v in self.block(f.node.body, env):
            out.add(self.classify(v) if kind == "raise" else "end")
        return out

    @staticmethod
    def classify(v: tuple) -> str:
        if v[0] == "exc" and v[1] == "Exit":
            code = v[2]
            if code[:2] == ("k", "c"):
                return "end" if code[2] in (0, None, False) else "exit1"
            return "exit1" if code in (_TRUTHY, ("num", "pos")) else "end" if code == _FALSY else "exit?"
        return f"crash:{v[1] if v[0] == 'exc' else '?'}"

    def tick(self) -> None:
        self.ticks += 1
        if self.ticks > 60000:
            raise _NotFollowed("the evaluation of the exit status does not come to an end")

    @property
    def mod(self) -> Any:
        return self.stack[-1].module

    # ---------------------------------------------------------------------------------------------------------------- values
    def canon(self, d: str, mod: Any, depth: int = 0) -> tuple:
        r = self.ix.resolve(mod, d) if mod is not None else None
        if r is None:
            return ("k", "n", d)
        kind, obj = r
        if kind == "classvar":
            return ("k", "n", f"{obj[0].qual}.{obj[1]}")
        if kind in ("class", "func"):
            return ("k", "n", obj.qual)
        if kind == "ext":
            return ("k", "n", obj)
        if kind == "module":
            return ("k", "n", obj.name)
        if kind == "var":
            m, name = obj
            v = m.variables.get(name)
            if depth < 3 and isinstance(v, ast.Constant):
                return _kc(v.value)
            if depth < 3 and v is not None and dotted(v):
                return self.canon(dotted(v) or "", m, depth + 1)
            return ("k", "n", f"{m.name}.{name}")
        return ("k", "n", d)

    def truth(self, v: tuple) -> bool | None:
        if v[0] == "k":
            return bool(v[2]) if v[1] == "c" else None
        if v[0] == "comp":
            return False if not v[1] else True if any(g for g, _ in v[1]) else None
        if v[0] == "rec":
            return bool(v[2]) if v[1] in (None, "dict") else None
        if v[0] == "num":
            return True if v[1] == "pos" else None
        return True if v == _TRUTHY else False if v == _FALSY else None

    def _member(self, b: tuple, attr: str | None) -> str | None:
        """the member of the level enumeration that b denotes when compared with <level>, <level>.value or <level>.name ('' none)"""
        if self.level_cls is None:
            return None
        if attr is None:
            if b[:2] == ("k", "n"):
                pre = self.level_cls.qual + "."
                return b[2][len(pre):] if b[2].startswith(pre) and b[2][len(pre):] in self.members else None
            return "" if b[:2] == ("k", "c") else None
        if b[:2] != ("k", "c"):
            return None
        if attr == "name":
            return b[2] if b[2] in self.members else ""
        hits = [m for m in self.members if isinstance(self.level_cls.classvars[m], ast.Constant) and self.level_cls.classvars[m].value == b[2]]
        if len(hits) == 1:
            return hits[0]
        return "" if all(isinstance(self.level_cls.classvars[m], ast.Constant) for m in self.members) else None

    def eq(self, a: tuple, b: tuple, site: ast.AST | None = None) -> bool | None:
        if b[0] == "lvl":
            a, b = b, a
        if a[0] == "lvl":
            if b[0] == "lvl":
                return None
            m = self._member(b, a[2])
            if m is None:
                return None
            if m == "":
                return False
            if site is not None:
                self.scans.add(norm(site))
            if m == "ERROR":
                return a[1]
            if a[1] is True:
                return False
            return True if a[1] is False and sorted(self.members) == sorted(["ERROR", m]) else None
        if a[0] == "k" and b[0] == "k":
            if a[1] == "c" and b[1] == "c":
                return bool(a[2] == b[2])
            if a[1] == "n" and b[1] == "n":
                if a[2] == b[2]:
                    return True
                ca, _, ma = a[2].rpartition(".")
                cb, _, mb = b[2].rpartition(".")
                ci = self.ix.classes.get(ca)
                if ca == cb and ci is not None and any("Enum" in x for x in ci.bases) and ma in ci.classvars and mb in ci.classvars \
                        and norm(ci.classvars[ma]) != norm(ci.classvars[mb]):
                    return False
                return None
            return False if _NONE in (a, b) else None
        if _NONE in (a, b) and (a[0] in ("elem", "rec", "comp", "exc", "num") or b[0] in ("elem", "rec", "comp", "exc", "num")):
            return False
        if b[0] == "num":
            a, b = b, a
        if a[0] == "num" and b[:2] == ("k", "c"):  # an integer >= 1 ('pos') / >= 0
            if not isinstance(b[2], (int, float)) or b[2] < (1 if a[1] == "pos" else 0):
                return False
        return None

    def join(self, vals: list[tuple]) -> tuple:
        if not vals:
            return _TOP
        cur = vals[0]
        for v in vals[1:]:
            if v == cur:
                continue
            if cur[0] == "elem" and v[0] == "elem":
                cur = ("elem", None)
            elif cur[0] == "rec" and v[0] == "rec" and cur[1] == v[1] and [n for n, _ in cur[2]] == [n for n, _ in v[2]]:
                cur = ("rec", cur[1], tuple((n, self.join([x, y])) for (n, x), (_, y) in zip(cur[2], v[2])))
            elif cur[0] == "comp" and v[0] == "comp":
                both = {x for g, x in cur[1] if g} & {x for g, x in v[1] if g}
                cur = _comp([(x in both, x) for _, x in cur[1] + v[1]])
            elif self.truth(cur) is not None and self.truth(cur) == self.truth(v):
                cur = _TRUTHY if self.truth(cur) else _FALSY
            else:
                return _TOP
        return cur

    def field(self, r: tuple, name: str) -> tuple:
        return next((v for n, v in r[2] if n == name), _TOP)

    def as_comp(self, v: tuple) -> tuple | None:
        if v[0] == "comp":
            return v
        if v[0] == "rec" and v[1] is None:
            return _comp([(True, x) for _, x in v[2]])
        return None

    # ---------------------------------------------------------------------------------------------------------------- expressions
    def ev(self, e: ast.AST | None, env: dict[str, tuple]) -> tuple:
        self.tick()
        if e is None:
            return _NONE
        if isinstance(e, ast.Constant):
            return _kc(e.value)
        if isinstance(e, ast.Name):
            return env[e.id] if e.id in env else self.canon(e.id, self.mod)
        if isinstance(e, ast.NamedExpr):
            v = self.ev(e.value, env)
            self.bind(e.target, v, env)
            return v
        if isinstance(e, ast.Attribute):
            d = dotted(e)
            if d is not None and _root(e) not in env:
                return self.canon(d, self.mod)
            b = self.ev(e.value, env)
            if b[0] == "rec":
                return self.field(b, e.attr)
            if b[0] == "elem":
                return ("lvl", b[1], None) if e.attr == "level" else _TOP
            if b[0] == "lvl" and b[2] is None and e.attr in ("value", "name"):
                return ("lvl", b[1], e.attr)
            if b[:2] == ("k", "n"):
                return ("k", "n", f"{b[2]}.{e.attr}")
            return _TOP
        if isinstance(e, ast.Subscript):
            b = self.ev(e.value, env)
            i = self.ev(e.slice, env) if not isinstance(e.slice, ast.Slice) else _TOP
            if b[0] == "rec" and i[:2] == ("k", "c"):
                if b[1] == "dict":
                    return self.field(b, i[2]) if isinstance(i[2], str) else _TOP
                if isinstance(i[2], int) and not isinstance(i[2], bool) and -len(b[2]) <= i[2] < len(b[2]):
                    return b[2][i[2]][1]
            if b[0] == "comp" and isinstance(e.slice, ast.Slice) and e.slice.lower is None and e.slice.upper is None:
                return b
            return _TOP
        if isinstance(e, ast.UnaryOp):
            v = self.ev(e.operand, env)
            if isinstance(e.op, ast.Not):
                t = self.truth(v)
                return _TOP if t is None else _kc(not t)
            return _TOP
        if isinstance(e, ast.BoolOp):
            is_or = isinstance(e.op, ast.Or)
            unknown = False
            v = _TOP
            for x in e.values:
                v = self.ev(x, env)
                t = self.truth(v)
                if t is None:
                    unknown = True
                elif t == is_or:  # decides the operation (if it is reached, and it is unless an earlier operand decided likewise)
                    return (v if not unknown else _TRUTHY if is_or else _FALSY)
            return _TOP if unknown else v
        if isinstance(e, ast.Compare):
            if len(e.ops) != 1:
                for c in e.comparators:
                    self.ev(c, env)
                return _TOP
            a, b = self.ev(e.left, env), self.ev(e.comparators[0], env)
            op = e.ops[0]
            if isinstance(op, (ast.Eq, ast.Is, ast.NotEq, ast.IsNot)):
                r = self.eq(a, b, e)
                return _TOP if r is None else _kc(r == isinstance(op, (ast.Eq, ast.Is)))
            if isinstance(op, (ast.In, ast.NotIn)):
                c = self.as_comp(b)
                if c is None:
                    return _TOP
                rs = [(g, self.eq(a, x, e)) for g, x in c[1]]
                r = True if any(g and t is True for g, t in rs) else False if all(t is False for _, t in rs) else None
                return _TOP if r is None else _kc(r == isinstance(op, ast.In))
            return self._order(a, b, op)
        if isinstance(e, ast.IfExp):
            t = self.truth(self.ev(e.test, env))
            if t is not None:
                return self.ev(e.body if t else e.orelse, env)
            return self.join([self.ev(e.body, dict(env)), self.ev(e.orelse, dict(env))])
        if isinstance(e, (ast.Tuple, ast.List, ast.Set)):
            if any(isinstance(x, ast.Starred) for x in e.elts):
                for x in e.elts:
                    self.ev(x.value if isinstance(x, ast.Starred) else x, env)
                return _TOP
            vals = [self.ev(x, env) for x in e.elts]
            if isinstance(e, ast.Tuple):
                return ("rec", None, tuple((str(i), v) for i, v in enumerate(vals)))
            return _comp([(True, v) for v in vals])
        if isinstance(e, ast.Dict):
            vals = [self.ev(v, env) for v in e.values]
            if all(isinstance(k, ast.Constant) and isinstance(k.value, str) for k in e.keys):
                return ("rec", "dict", tuple((k.value, v) for k, v in zip(e.keys, vals)))  # type: ignore[union-attr]
            return _TOP
        if isinstance(e, (ast.ListComp, ast.SetComp, ast.GeneratorExp)):
            return self._comprehension(e, env)
        if isinstance(e, ast.Lambda):
            self.lams[id(e)] = e
            return ("lam", id(e))
        if isinstance(e, ast.BinOp):
            return self._binop(self.ev(e.left, env), e.op, self.ev(e.right, env))
        if isinstance(e, ast.Call):
            return self._call(e, env)
        if isinstance(e, ast.Starred):
            return self.ev(e.value, env)
        if isinstance(e, (ast.JoinedStr, ast.FormattedValue)):
            for x in ast.iter_child_nodes(e):
                if isinstance(x, ast.expr):
                    self.ev(x, env)
            return _TOP
        if isinstance(e, (ast.Yield, ast.YieldFrom, ast.Await)):
            raise _NotFollowed(f"`{norm(e)[:40]}`")
        for x in ast.iter_child_nodes(e):
            if isinstance(x, ast.expr):
                self.ev(x, env)
        return _TOP

    def _order(self, a: tuple, b: tuple, op: ast.cmpop) -> tuple:
        if a[:2] == ("k", "c") and b[:2] == ("k", "c") and isinstance(a[2], (int, float)) and isinstance(b[2], (int, float)):
            return _kc({ast.Lt: a[2] < b[2], ast.LtE: a[2] <= b[2], ast.Gt: a[2] > b[2], ast.GtE: a[2] >= b[2]}[type(op)])
        mirror = {ast.Gt: ast.Lt, ast.Lt: ast.Gt, ast.GtE: ast.LtE, ast.LtE: ast.GtE}
        if a[:2] == ("k", "c"):
            a, b, op = b, a, mirror[type(op)]()
        if a[0] == "num" and b[:2] == ("k", "c") and isinstance(b[2], (int, float)):
            c = b[2]
            if a[1] == "pos":  # an integer >= 1
                r = {ast.Gt: True if c < 1 else None, ast.GtE: True if c <= 1 else None, ast.Lt: False if c <= 1 else None,
                     ast.LtE: False if c < 1 else None}[type(op)]
            else:  # an integer >= 0
                r = {ast.Gt: True if c < 0 else None, ast.GtE: True if c <= 0 else None, ast.Lt: False if c <= 0 else None,
                     ast.LtE: False if c < 0 else None}[type(op)]
            return _TOP if r is None else _kc(r)
        return _TOP

    def _binop(self, a: tuple, op: ast.operator, b: tuple) -> tuple:
        def nonneg(v: tuple) -> bool:
            return v[0] == "num" or (v[:2] == ("k", "c") and isinstance(v[2], (int, bool)) and v[2] >= 0)

        def pos(v: tuple) -> bool:
            return v == ("num", "pos") or (v[:2] == ("k", "c") and isinstance(v[2], (int, bool)) and v[2] > 0)

        if isinstance(op, ast.Add):
            if nonneg(a) and nonneg(b):  # counters are not followed beyond zero / at least one (the evaluation has to settle)
                return ("num", "pos") if pos(a) or pos(b) else _kc(0) if a[0] == "k" and b[0] == "k" else ("num", "nonneg")
            ca, cb = self.as_comp(a), self.as_comp(b)
            if ca is not None and cb is not None and a[0] == b[0]:
                return _comp(ca[1] + cb[1])
        if isinstance(op, (ast.BitOr, ast.BitAnd)):
            # bool, int and set alike: a | b is truthy iff one operand is, a & b is falsy if one operand is
            if a[:2] == ("k", "c") and b[:2] == ("k", "c") and all(isinstance(x[2], (bool, int)) for x in (a, b)):
                return _kc(a[2] | b[2] if isinstance(op, ast.BitOr) else a[2] & b[2])
            ta, tb = self.truth(a), self.truth(b)
            if isinstance(op, ast.BitOr):
                ca, cb = self.as_comp(a), self.as_comp(b)
                if ca is not None and cb is not None:
                    return _comp(ca[1] + cb[1])
                return _TRUTHY if True in (ta, tb) else _FALSY if (ta, tb) == (False, False) else _TOP
            return _FALSY if False in (ta, tb) else _TOP
        return _TOP

    def _comprehension(self, e: Any, env: dict[str, tuple]) -> tuple:
        if len(e.generators) != 1 or e.generators[0].is_async:
            return _TOP
        g = e.generators[0]
        src = self.as_comp(self.ev(g.iter, env))
        if src is None:
            return _TOP
        kinds = []
        for guaranteed, x in src[1]:
            env2 = dict(env)
            self.bind(g.target, x, env2)
            keep: bool | None = True
            for c in g.ifs:
                t = self.truth(self.ev(c, env2))
                keep = False if t is False or keep is False else None if t is None else keep
                if keep is False:
                    break
            if keep is False:
                continue
            kinds.append((guaranteed and keep is True, self.ev(e.elt, env2)))
        return _comp(kinds)

    def _exists(self, c: tuple, want: bool) -> bool | None:
        """does the collection hold an element whose truth is `want`"""
        ts = [(g, self.truth(x)) for g, x in c[1]]
        if any(g and t is want for g, t in ts):
            return True
        return False if all(t is (not want) for _, t in ts) else None

    def _apply(self, fn: tuple, args: list[tuple], env: dict[str, tuple]) -> tuple:
        if fn[0] == "lam":
            lam = self.lams[fn[1]]
            env2 = dict(env)
            ps = [*lam.args.posonlyargs, *lam.args.args]
            if len(ps) != len(args) or lam.args.vararg or lam.args.kwarg or lam.args.kwonlyargs:
                return _TOP
            for p, a in zip(ps, args):
                env2[p.arg] = a
            return self.ev(lam.body, env2)
        if fn[:2] == ("k", "n"):
            h = self.ix.functions.get(fn[2])
            if h is not None and h.cls is None:
                return self._invoke(h, dict(zip([p.arg for p in h.params], args)) if len(args) <= len(h.params) else None)
        return _TOP

    def _call(self, c: ast.Call, env: dict[str, tuple]) -> tuple:
        starred = any(isinstance(a, ast.Starred) for a in c.args) or any(k.arg is None for k in c.keywords)
        # method calls on a tracked local collection
        if isinstance(c.func, ast.Attribute) and isinstance(c.func.value, ast.Name) and c.func.value.id in env \
                and env[c.func.value.id][0] in ("comp", "rec"):
            recv, a = c.func.value.id, c.func.attr
            args = [self.ev(x, env) for x in c.args] + [self.ev(k.value, env) for k in c.keywords]
            cur = env[recv]
            if cur[0] == "comp":
                if a in ("append", "add", "appendleft") and len(args) == 1:
                    env[recv] = _comp(cur[1] + ((True, args[0]),))
                    return _NONE
                if a in ("extend", "update", "extendleft") and len(args) == 1 and self.as_comp(args[0]) is not None:
                    env[recv] = _comp(cur[1] + self.as_comp(args[0])[1])  # type: ignore[index]
                    return _NONE
                if a == "clear":
                    env[recv] = _comp([])
                    return _NONE
                if a == "copy" and not args:
                    return cur
                if a in _GROW or a in _SHRINK or a in ("sort", "reverse"):
                    env[recv] = _TOP if a not in ("sort", "reverse") else cur
                    return _TOP
            elif cur[0] == "rec" and cur[1] == "dict" and a == "get" and args and args[0][:2] == ("k", "c"):
                return next((v for n, v in cur[2] if n == args[0][2]), args[1] if len(args) > 1 else _NONE)
        fn = self.ev(c.func, env)
        args = [self.ev(x, env) for x in c.args]
        kws = {k.arg: self.ev(k.value, env) for k in c.keywords}
        name = fn[2] if fn[:2] == ("k", "n") else ""
        last = name.rsplit(".", 1)[-1]
        # collections handed to code that is not followed may be changed by it
        followed = name in self.ix.functions and self.ix.functions[name].cls is None
        for x in [*c.args, *[k.value for k in c.keywords]]:
            if isinstance(x, ast.Name) and x.id in env and env[x.id][0] in ("comp", "rec") and x.id != self.diag_param:
                if followed:
                    h = self.ix.functions[name]
                    p = _param_for(h, c, c.args.index(x)) if x in c.args else next(k.arg for k in c.keywords if k.value is x)
                    if p is None or _mut_kinds(self.ix, h, list(h.node.body), ast.Name(id=p, ctx=ast.Load())) & {"grow", "shrink", "escape"} \
                            or any(isinstance(n, (ast.Attribute, ast.Subscript)) and isinstance(n.ctx, (ast.Store, ast.Del)) and _root(n) == p
                                   for n in ast.walk(h.node)):
                        env[x.id] = _TOP
                elif env[x.id][0] == "comp" and not (name in _PURE_CALLS or last in _PURE_CALLS):
                    env[x.id] = _TOP
        if starred:
            return _TOP
        if fn[0] == "lam":
            return self._apply(fn, args, env) if not kws else _TOP
        if not name:
            return _TOP
        # process exit
        if last in ("Exit", "SystemExit") and name in ("typer.Exit", "click.exceptions.Exit", "click.Exit", "SystemExit", "typer.exceptions.Exit"):
            return ("exc", "Exit", kws.get("code", args[0] if args else _kc(0)))
        if name in ("sys.exit", "exit", "quit", "os._exit"):
            raise _Raises([("exc", "Exit", args[0] if args else _kc(0))])
        if name in self.ix.functions:
            h = self.ix.functions[name]
            if h.cls is not None:
                return self._unfollowed(h)
            bound: dict[str, tuple] | None = {}
            for i, a in enumerate(args):
                p = _param_for(h, c, i)
                if p is None:
                    bound = None
                    break
                bound[p] = a
            if bound is not None:
                for k, v in kws.items():
                    if k not in [p.arg for p in h.params]:
                        bound = None
                        break
                    bound[k] = v  # type: ignore[index]
            return self._invoke(h, bound)
        if name in self.ix.classes:
            return self._construct(self.ix.classes[name], args, kws)
        comp = self.as_comp(args[0]) if args else None
        if name in ("len",) and comp is not None:
            t = self.truth(comp)
            return _kc(0) if t is False else ("num", "pos") if t else ("num", "nonneg")
        if name == "bool" and len(args) == 1:
            t = self.truth(args[0])
            return _TOP if t is None else _kc(t)
        if name in ("any", "all") and comp is not None:
            r = self._exists(comp, name == "any")
            return _TOP if r is None else _kc(r == (name == "any"))
        if name in ("list", "tuple", "set", "frozenset", "sorted", "reversed", "iter", "collections.deque", "deque") and comp is not None:
            return comp
        if name in ("list", "set", "frozenset", "dict", "tuple", "collections.deque") and not args and not kws:
            return _comp([]) if name != "dict" else ("rec", "dict", ())
        if name == "enumerate" and comp is not None:
            return _comp([(g, ("rec", None, (("0", ("num", "nonneg")), ("1", x)))) for g, x in comp[1]])
        if name == "sum" and comp is not None and len(args) == 1:
            def pos(v: tuple) -> bool | None:
                if v[:2] == ("k", "c") and isinstance(v[2], (int, bool)):
                    return v[2] > 0 if v[2] >= 0 else None
                return True if v == ("num", "pos") else None

            ps = [(g, pos(x)) for g, x in comp[1]]
            if all(p is False for _, p in ps):
                return _kc(0)
            if all(p is not None or x[0] == "num" for (_, p), (_, x) in zip(ps, comp[1])):
                return ("num", "pos") if any(g and p for g, p in ps) else ("num", "nonneg")
            return _TOP
        if name == "next" and comp is not None:
            alts = [x for _, x in comp[1]]
            if not any(g for g, _ in comp[1]):  # may be exhausted
                if len(args) > 1:
                    alts.append(args[1])
                elif alts:
                    self.pending.append(("exc", "StopIteration", _TOP))
                else:
                    raise _Raises([("exc", "StopIteration", _TOP)])
            return self.join(alts)
        if name in ("filter", "map") and len(args) == 2 and self.as_comp(args[1]) is not None:
            src = self.as_comp(args[1])
            kinds = []
            for g, x in src[1]:  # type: ignore[index]
                r = self._apply(args[0], [x], env) if args[0] != _NONE else x
                if name == "map":
                    kinds.append((g, r))
                else:
                    t = self.truth(r)
                    if t is not False:
                        kinds.append((g and t is True, x))
            return _comp(kinds)
        if last.endswith(("Error", "Exception")) or last in ("BadParameter", "Abort", "KeyboardInterrupt", "StopIteration"):
            return ("exc", last, _TOP)
        return _TOP

    def _construct(self, ci: Any, args: list[tuple], kws: dict[Any, tuple]) -> tuple:
        ks = self.ix.mro(ci)
        if any(m in k.methods for k in ks for m in ("__init__", "__new__", "__post_init__", "__attrs_post_init__")):
            return _TOP
        fields = list(self.ix.all_fields(ci))
        if len(args) > len(fields) or any(k not in fields for k in kws):
            return _TOP
        vals: dict[str, tuple] = dict(zip(fields, args))
        vals.update(kws)
        out = []
        for n in fields:
            if n in vals:
                out.append((n, vals[n]))
                continue
            dflt = next((k.field_defaults[n] for k in ks if n in k.field_defaults), None)
            out.append((n, self.ev(dflt, {}) if isinstance(dflt, (ast.Constant, ast.Attribute, ast.Name)) else _TOP))
        return ("rec", ci.qual, tuple(out))

    def _has_exit(self, h: FuncInfo) -> bool:
        return any(isinstance(n, (ast.Raise, ast.Call)) and "xit" in norm(n.exc if isinstance(n, ast.Raise) else n.func) for n in ast.walk(h.node))

    def _unfollowed(self, h: FuncInfo, why: str = "") -> tuple:
        if self._has_exit(h):
            raise _NotFollowed(f"`{h.name}` ends the process but is not followed by the evaluation{why}")
        return _TOP

    def _invoke(self, h: FuncInfo, bound: dict[str, tuple] | None) -> tuple:
        if bound is None or h.parent is not None or h in self.stack or len(self.stack) >= 4 or isinstance(h.node, ast.AsyncFunctionDef) \
                or h.node.args.vararg or h.node.args.kwarg or any(isinstance(n, (ast.Yield, ast.YieldFrom)) for n in _own_nodes(h.node)) \
                or [d for d in h.decorators if d.rsplit(".", 1)[-1] not in ("staticmethod", "cache", "lru_cache", "wraps")]:
            return self._unfollowed(h)
        a = h.node.args
        defaults = dict(zip([p.arg for p in [*a.posonlyargs, *a.args]][len(a.posonlyargs) + len(a.args) - len(a.defaults):], a.defaults))
        defaults.update({p.arg: d for p, d in zip(a.kwonlyargs, a.kw_defaults) if d is not None})
        self.stack.append(h)
        try:
            env = {}
            for p in h.params:
                if p.arg in bound:
                    env[p.arg] = bound[p.arg]
                elif p.arg in defaults:
                    env[p.arg] = self.ev(defaults[p.arg], {})
                else:
                    return _TOP
            saved, self.pending = self.pending, []
            try:
                outs = self.block(h.node.body, env)
            except _NotFollowed as ex:
                self.pending = saved
                return self._unfollowed(h, f" ({ex})")
            self.pending = saved
        finally:
            self.stack.pop()
        rets = [v if kind == "return" else _NONE for kind, _, v in outs if kind in ("return", "next")]
        raises = [v for kind, _, v in outs if kind == "raise"]
        if raises and not rets:
            raise _Raises(raises)
        self.pending += raises
        return self.join(rets)

    # ---------------------------------------------------------------------------------------------------------------- statements
    def bind(self, t: ast.AST, v: tuple, env: dict[str, tuple]) -> None:
        if isinstance(t, ast.Name):
            env[t.id] = v
        elif isinstance(t, (ast.Tuple, ast.List)):
            plain = not any(isinstance(x, ast.Starred) for x in t.elts)
            for i, x in enumerate(t.elts):
                self.bind(x.value if isinstance(x, ast.Starred) else x,
                          v[2][i][1] if plain and v[0] == "rec" and v[1] != "dict" and len(v[2]) == len(t.elts) else _TOP, env)
        elif isinstance(t, (ast.Attribute, ast.Subscript)):
            r = _root(t)
            if r in env:
                cur = env[r]
                if isinstance(t, ast.Attribute) and isinstance(t.value, ast.Name) and cur[0] == "rec" and any(n == t.attr for n, _ in cur[2]):
                    env[r] = ("rec", cur[1], tuple((n, v if n == t.attr else x) for n, x in cur[2]))
                else:
                    env[r] = _TOP

    def evx(self, e: ast.AST | None, env: dict[str, tuple]) -> tuple[tuple | None, list[tuple]]:
        """value of a statement's expression (None: it always raises) and the exceptions its evaluation may raise"""
        saved, self.pending = self.pending, []
        try:
            v: tuple | None = self.ev(e, env)
        except _Raises as r:
            v = None
            self.pending = r.excs + self.pending
        excs, self.pending = self.pending, saved
        return v, excs

    def block(self, stmts: list[ast.stmt], env: dict[str, tuple]) -> list[tuple[str, dict[str, tuple], Any]]:
        done: list[tuple[str, dict[str, tuple], Any]] = []
        cur = [env]
        for st in stmts:
            nxt: list[tuple[str, dict[str, tuple], Any]] = []
            for e in cur:
                for o in self.stmt(st, dict(e)):
                    (nxt if o[0] == "next" else done).append(o)
            cur = [e for _, e, _ in _dedupe(nxt)]
            if not cur:
                break
        return _dedupe(done + [("next", e, None) for e in cur])

    def stmt(self, st: ast.stmt, env: dict[str, tuple]) -> list[tuple[str, dict[str, tuple], Any]]:
        self.tick()
        raised = lambda excs: [("raise", env, x) for x in excs]  # noqa: E731
        if isinstance(st, (ast.Pass, ast.Assert, ast.Import)):
            return [("next", env, None)]
        if isinstance(st, ast.ImportFrom):
            base = self.ix._abs_import(self.mod, st.level, st.module)
            for a in st.names:
                full = f"{base}.{a.name}" if base else a.name
                r = self.ix._resolve_abs(full, 0)
                env[a.asname or a.name] = ("k", "n", r[1].qual if r and r[0] in ("class", "func") else r[1] if r and r[0] == "ext" else full)
            return [("next", env, None)]
        if isinstance(st, ast.Expr):
            v, excs = self.evx(st.value, env)
            return raised(excs) + ([("next", env, None)] if v is not None else [])
        if isinstance(st, (ast.Assign, ast.AnnAssign)):
            if st.value is None:
                return [("next", env, None)]
            v, excs = self.evx(st.value, env)
            if v is None:
                return raised(excs)
            for t in (st.targets if isinstance(st, ast.Assign) else [st.target]):
                self.bind(t, v, env)
            return raised(excs) + [("next", env, None)]
        if isinstance(st, ast.AugAssign):
            v, excs = self.evx(st.value, env)
            if v is None:
                return raised(excs)
            if isinstance(st.target, ast.Name):
                cur = env.get(st.target.id, _TOP)
                env[st.target.id] = self._binop(cur, st.op, v)
            else:
                self.bind(st.target, _TOP, env)
            return raised(excs) + [("next", env, None)]
        if isinstance(st, ast.Delete):
            for t in st.targets:
                if isinstance(t, ast.Name):
                    env.pop(t.id, None)
                else:
                    self.bind(t, _TOP, env)
            return [("next", env, None)]
        if isinstance(st, ast.Return):
            v, excs = self.evx(st.value, env)
            return raised(excs) + ([("return", env, v)] if v is not None else [])
        if isinstance(st, ast.Raise):
            if st.exc is None:
                return [("raise", env, _TOP)]
            v, excs = self.evx(st.exc, env)
            if v is not None and v[:2] == ("k", "n"):  # `raise SomeClass`
                v = ("exc", "Exit", _kc(0)) if v[2].rsplit(".", 1)[-1] in ("Exit", "SystemExit") else ("exc", v[2].rsplit(".", 1)[-1], _TOP)
            return raised(excs) + ([("raise", env, v)] if v is not None else [])
        if isinstance(st, ast.Break):
            return [("break", env, None)]
        if isinstance(st, ast.Continue):
            return [("continue", env, None)]
        if isinstance(st, ast.If):
            v, excs = self.evx(st.test, env)
            if v is None:
                return raised(excs)
            t = self.truth(v)
            out = raised(excs)
            if t is not False:
                out += self.block(st.body, dict(env))
            if t is not True:
                out += self.block(st.orelse, dict(env))
            return out
        if isinstance(st, ast.For):
            return self._for(st, env)
        if isinstance(st, ast.While):
            return self._while(st, env)
        if isinstance(st, ast.With):
            out = []
            for item in st.items:
                v, excs = self.evx(item.context_expr, env)
                out += raised(excs)
                if item.optional_vars is not None:
                    self.bind(item.optional_vars, _TOP, env)
            return out + self.block(st.body, env)
        if isinstance(st, ast.Try):
            if any(isinstance(n, (ast.Return, ast.Raise, ast.Break, ast.Continue)) for s in st.finalbody for n in ast.walk(s)):
                raise _NotFollowed("a `finally` that leaves the block")
            out = []
            body = self.block(st.body, dict(env))
            for o in body:
                if o[0] == "next":
                    out += self.block(st.orelse, dict(o[1])) if st.orelse else [o]
                else:
                    out.append(o)  # an exception raised in the body is also taken to propagate (a handler may or may not match)
            if st.handlers:
                bound = {nm for s in st.body for x in ast.walk(s) for nm in (_binds(x) if isinstance(x, (ast.stmt, ast.ExceptHandler)) else ())}
                env_h = {k: (_TOP if k in bound else v) for k, v in env.items()}
                for h in st.handlers:
                    e2 = dict(env_h)
                    if h.name:
                        e2[h.name] = _TOP
                    out += self.block(h.body, e2)
            res = []
            for o in out:
                if o[0] == "next" and st.finalbody:
                    res += self.block(st.finalbody, dict(o[1]))
                else:
                    res.append(o)
            return res
        if isinstance(st, (ast.FunctionDef, ast.AsyncFunctionDef, ast.ClassDef)):
            env[st.name] = _TOP
            return [("next", env, None)]
        raise _NotFollowed(f"a `{type(st).__name__.lower()}` statement")

    def _for(self, st: ast.For, env: dict[str, tuple]) -> list[tuple[str, dict[str, tuple], Any]]:
        v, excs = self.evx(st.iter, env)
        if v is None:
            return [("raise", env, x) for x in excs]
        src = self.as_comp(v)
        kinds = src[1] if src is not None else ((False, _TOP),)
        left: list[tuple[str, dict[str, tuple], Any]] = [("raise", env, x) for x in excs]

        def one(e0: dict[str, tuple], elt: tuple) -> list[dict[str, tuple]]:
            e1 = dict(e0)
            self.bind(st.target, elt, e1)
            nxt = []
            for kind, e2, val in self.block(st.body, e1):
                if kind in ("next", "continue"):
                    nxt.append(e2)
                elif kind == "break":
                    left.append(("next", e2, None))
                else:
                    left.append((kind, e2, val))
            return nxt

        def closure(states: list[dict[str, tuple]]) -> list[dict[str, tuple]]:
            seen = {_freeze(s): s for s in states}
            work = list(seen.values())
            while work:
                s = work.pop()
                for _, elt in kinds:
                    for n in one(s, elt):
                        k = _freeze(n)
                        if k not in seen:
                            if len(seen) > 300:
                                raise _NotFollowed("a loop whose states do not settle")
                            seen[k] = n
                            work.append(n)
            return list(seen.values())

        cur = closure([env])
        for g, elt in kinds:
            if g:  # the iteration that meets the element known to be there: control passes it (or has left the loop before)
                cur = closure([n for s in cur for n in one(s, elt)])
        for s in cur:
            left += self.block(st.orelse, dict(s)) if st.orelse else [("next", s, None)]
        return _dedupe(left)

    def _while(self, st: ast.While, env: dict[str, tuple]) -> list[tuple[str, dict[str, tuple], Any]]:
        seen: set[tuple] = set()
        work = [env]
        out: list[tuple[str, dict[str, tuple], Any]] = []
        while work:
            s = dict(work.pop())
            if _freeze(s) in seen:
                continue
            if len(seen) > 300:
                raise _NotFollowed("a loop whose states do not settle")
            seen.add(_freeze(s))
            v, excs = self.evx(st.test, s)
            out += [("raise", s, x) for x in excs]
            if v is None:
                continue
            t = self.truth(v)
            if t is not False:
                for kind, e2, val in self.block(st.body, dict(s)):
                    if kind in ("next", "continue"):
                        work.append(e2)
                    elif kind == "break":
                        out.append(("next", e2, None))
                    else:
                        out.append((kind, e2, val))
            if t is not True:
                out += self.block(st.orelse, dict(s)) if st.orelse else [("next", s, None)]
        return _dedupe(out)


def _exit_status(rep: Report, ctx: Any, cfgs: dict[str, CFG]) -> None:
    ix = ctx.py
    it, _ = ctx.flow
    he = ix.func("cli.handle_errors")
    # Decided on outcomes, not on the shape of the code: handle_errors (with the functions it calls) is evaluated abstractly for each
    # combination of (no diagnostics at all | some diagnostic has level ERROR | none has) x fail_on_warning, see _ExitEval; the ways the
    # call can end are compared with what the property demands.  Where the scan over the diagnostics is written (loop with a flag or
    # a level variable, any(), a filtered list, a helper that returns a record, ...) and how the final test is phrased is immaterial.
    params = [p.arg for p in he.params]
    rep.require("fail_on_warning" in params and len(params) >= 2, "parameters (diagnostics, fail_on_warning) of handle_errors")
    diag = next(p for p in params if p != "fail_on_warning")
    reach = [he]
    for _ in range(3):
        reach += [g for q in sorted({w for f in reach for w in it.call_edges.get(f.qual, ())}) if (g := it.func_by_qual.get(q)) is not None and g not in reach]
    exits = [(g, n) for g in reach for n in ast.walk(g.node)
             if (isinstance(n, ast.Raise) and n.exc is not None and {"Exit", "SystemExit"} & set(_raised_names(ix, g, n.exc)))
             or (isinstance(n, ast.Call) and call_name(n) in ("sys.exit", "exit", "quit"))]
    rep.require(exits, "a statement that ends the process with an exit status (raise typer.Exit / sys.exit) in handle_errors or a function it calls")
    evl = _ExitEval(ix, diag, "fail_on_warning")
    res: dict[tuple[bool, bool, bool], set[str]] = {}
    scans: set[str] = set()
    try:
        for empty, h, f_ in ((True, False, False), (True, False, True), (False, False, False), (False, True, False), (False, False, True), (False, True, True)):
            evl.scans = set()
            res[(empty, h, f_)] = evl.outcomes(he, empty, h, f_)
            if not empty and not f_:
                scans |= evl.scans
    except _NotFollowed as ex:
        rep.require(False, f"handle_errors can be evaluated for the way it ends ({ex})")
    rep.check(bool(scans), "R06.5", "cli.handle_errors::level-scan",
              "nothing that handle_errors evaluates compares the level of the diagnostics it was given with a member of ErrorLevel", where(he, he.node),
              lhs=sorted(scans), rhs="`<diagnostic>.level == ErrorLevel.<member>` evaluated for the elements of the diagnostics")
    bad_combo = None
    for h in (False, True):
        for f_ in (False, True):
            outs = res[(False, h, f_)]
            if (h or f_) and outs != {"exit1"}:
                bad_combo = bad_combo or (f"error={h}, fail_on_warning={f_}: the function can end without exit status 1 "
                                          f"({', '.join(sorted(outs - {'exit1'})) or 'it does not end'})")
            if not (h or f_) and outs & {"exit1", "exit?"}:
                bad_combo = bad_combo or f"error={h}, fail_on_warning={f_}: exit status 1 although nothing calls for it"
    last_exit = ([n for g, n in exits if g is he] or [he.node])[-1]
    rep.check(bad_combo is None, "R06.5", "cli.handle_errors::exit-guard",
              f"typer.Exit(code=1) is not raised exactly when an error-level diagnostic exists or fail_on_warning ({bad_combo})",
              where(he, last_exit), lhs=bad_combo, rhs="exit 1 iff (some error has level ERROR) or fail_on_warning")
    # with no diagnostics at all the function ends without an exit status
    rep.check(not ((res[(True, False, False)] | res[(True, False, True)]) & {"exit1", "exit?"}), "R06.5", "cli.handle_errors::early-return",
              "handle_errors can exit with status 1 although there are no diagnostics", where(he, he.node))
    _diagnostics_forwarded(rep, ctx, he, cfgs)
    _no_write_on_rejection(rep, ctx)


# ---------------------------------------------------------------------------------------------------------------------------------
# R06.5, the two clauses around handle_errors.  Both are stated on values (what a call can run is what the abstract interpreter
# resolved the called expression to; where a value comes from is followed through locals, parameters and call sites), never on the
# name of a local or on which function of the entry region a statement sits in.

def _callees(ix: Any, it: Any, f: FuncInfo, c: ast.Call) -> list[FuncInfo]:
    """the functions of the repository a call can run: what the interpreter resolved the called name to (a class: its construction
    hooks), a method looked up on the abstract types of the receiver, else the name as written"""
    out: list[FuncInfo] = []

    def add(h: FuncInfo | None) -> None:
        if h is not None and h not in out:
            out.append(h)

    def of_class(ci: Any) -> None:
        for m in ("__init__", "__new__", "__post_init__", "__attrs_post_init__"):
            add(ix.find_method(ci, m))

    av = it.node_av.get(id(c.func))
    for kind, q in (av.funcs if av is not None else ()):
        if kind == "func":
            add(it.func_by_qual.get(q))
        elif kind == "class" and q in ix.classes:
            of_class(ix.classes[q])
    if isinstance(c.func, ast.Attribute):
        rav = it.node_av.get(id(c.func.value))
        if rav is not None:
            for q in sorted({q for kind, q in rav.funcs if kind == "class"} | set(rav.types)):
                if q in ix.classes:
                    add(ix.find_method(ix.classes[q], c.func.attr))
    if not out:
        d = dotted(c.func)
        r = ix.resolve(f.module, d) if d else None
        if r is not None and r[0] == "class":
            of_class(r[1])
        else:
            add(_callee(ix, f, c))
    return out


def _value_sources(ix: Any, it: Any, f: FuncInfo, e: ast.AST | None, depth: int = 0, seen: frozenset[str] = frozenset()) -> list[tuple[FuncInfo, ast.AST]]:
    """where the value of an expression of f can come from: (function, node) with node a call, a parameter (ast.arg) nobody in the
    repository is seen to supply, or another expression that is not followed.  Locals are followed through their bindings,
    conditional / boolean expressions through their alternatives, copying wrappers through their argument, a parameter through the
    argument at every call site of f in the repository."""
    from ..astutil import Locals

    if e is None:
        return []
    if isinstance(e, (ast.IfExp, ast.BoolOp, ast.NamedExpr)):
        return [x for a in _alternatives(e) for x in _value_sources(ix, it, f, a, depth, seen)] if not isinstance(e, ast.NamedExpr) \
            else _value_sources(ix, it, f, e.value, depth, seen)
    if isinstance(e, (ast.Starred, ast.Await)):
        return _value_sources(ix, it, f, e.value, depth, seen)
    if isinstance(e, ast.Call) and call_name(e).rsplit(".", 1)[-1] in _WRAPPERS and e.args and not _callees(ix, it, f, e):
        return _value_sources(ix, it, f, e.args[-1], depth, seen)
    if isinstance(e, ast.Name) and f"{f.qual}:{e.id}" not in seen and depth < 6:
        seen = seen | {f"{f.qual}:{e.id}"}
        out: list[tuple[FuncInfo, ast.AST]] = []
        for kind, _, v in Locals(f.node).defs.get(e.id, []):
            if v is None or kind.startswith(("aug", "except")):
                continue
            if "[" in kind and isinstance(v, (ast.Tuple, ast.List)) and kind.count("[") == 1:
                i = int(kind[kind.index("[") + 1:kind.index("]")])
                v = v.elts[i] if i < len(v.elts) and not any(isinstance(x, ast.Starred) for x in v.elts) else v
            out += _value_sources(ix, it, f, v, depth + 1, seen)
        par = next((p for p in f.params if p.arg == e.id), None)
        if par is not None:
            sites = [(g, c) for g in ix.all_functions if g is not f for c in _own_nodes(g.node)
                     if isinstance(c, ast.Call) and call_name(c).rsplit(".", 1)[-1] == f.name and f in _callees(ix, it, g, c)]
            supplied = [(g, a) for g, c in sites if (a := _arg_for(f, c, e.id)) is not None]
            if supplied and depth < 4:
                for g, a in supplied:
                    out += _value_sources(ix, it, g, a, depth + 1, seen)
            else:
                out.append((f, par))
        if out:
            return out
    return [(f, e)]


def _diagnostics_forwarded(rep: Report, ctx: Any, he: FuncInfo, cfgs: dict[str, CFG]) -> None:
    """Instances: every call of the package's generate() outside its own module.  Obligation: the diagnostics it returns reach
    handle_errors - the first argument of a handle_errors call has that call among the sources of its value, the argument received
    as `fail_on_warning` comes from a parameter of that name (the command line option), and every path from the generate() call to
    the end of the function passes a statement at which handle_errors runs (in place, or in a function called there)."""
    from ..astutil import Locals, stmt_of
    from .effects import performing

    ix = ctx.py
    it, _ = ctx.flow
    gen = ix.func(f"{PKG}.generate")
    runs = [(g, c) for g in ix.all_functions if g.module is not gen.module for c in _own_nodes(g.node)
            if isinstance(c, ast.Call) and gen in _callees(ix, it, g, c)]
    rep.require(runs, "a call of generate() in the command line interface")
    hcalls = [(g, c) for g in ix.all_functions for c in _own_nodes(g.node) if isinstance(c, ast.Call) and he in _callees(ix, it, g, c)]
    diag_param = next(p.arg for p in he.params if p.arg != "fail_on_warning")
    for g, run in runs:
        good: list[ast.Call] = []
        for hg, hc in hcalls:
            first = _arg_for(he, hc, diag_param)
            flag = _arg_for(he, hc, "fail_on_warning")
            if any(n is run for _, n in _value_sources(ix, it, hg, first)) and \
                    any(isinstance(n, ast.arg) and n.arg == "fail_on_warning" for _, n in _value_sources(ix, it, hg, flag)):
                good.append(hc)
        ok = bool(good)
        why = "no handle_errors call receives the result of this generate() call together with the fail_on_warning option"
        if ok:
            # a path may go round handle_errors only after a test that there are no diagnostics (handle_errors does nothing then)
            st = stmt_of(g.node, run)
            at = performing(ix, g, lambda n: any(n is hc for hc in good), cfgs, must=True)
            fl = _Flow(g, ix)
            held = _aliases_of(Locals(g.node), run, copies=True)
            empty = lambda a, lab: any(fact[0] == "truthy" and fact[1] in held and fact[2] is False for fact in fl.facts(a, lab))  # noqa: E731
            if st is None or (not any(s is st for s in at) and fl.reach([(st, lab, b) for b, lab in fl.out(st)], [EXIT], stop_edge=empty,
                                                                        stop_node=lambda n: any(n is s for s in at))):
                ok = False
                why = "a path from the generate() call to the end of the command does not pass handle_errors"
        rep.check(ok, "R06.5", f"{short(g)}::handle_errors", f"the CLI does not pass the generator's diagnostics and fail_on_warning to handle_errors ({why})",
                  where(g, run), lhs=[norm(c)[:80] for _, c in hcalls], rhs="handle_errors(<result of generate(...)>, <the fail_on_warning option>) on every path")


def _error_classes(ix: Any) -> set[str]:
    roots = [c for c in ix.classes.values() if c.name == "GeneratorError"]
    return {k.qual for r in roots for k in [r, *ix.subclasses(r)]}


_CONSTRUCTION = ("__init__", "__new__", "__post_init__", "__attrs_post_init__")


def _no_write_on_rejection(rep: Report, ctx: Any) -> None:
    """A rejected document is an error VALUE (GeneratorError or a subclass) that a stage of generate() hands back instead of its result.
    Instances: (1) every call in the entry region - generate() and, transitively, the functions whose result it tests for being such an
    error - that can perform a filesystem / process effect (an effect site, or a call of a function from which one is reachable in
    the call graph); (2) the calls that build what such a call is applied to or given (followed back through locals, returns of the
    stages and parameters: `Project(...)` for `project.build()`).  Obligations per instance: (a) no value it is given (receiver,
    arguments) can still be the error - its abstract type, narrowed by the interpreter along the paths that lead there, holds no
    error class; (b) no call that can hand back an error (a STAGE) performs an effect itself or can run after an effect; (c) every
    path from a stage to the instance passes a test that rules the error out for the stage's result.  Where the stages and the
    tests are written - in generate(), in a helper, inlined - is immaterial."""
    from ..astutil import Locals, stmt_of
    from .effects import effect_sites

    ix = ctx.py
    it, _ = ctx.flow
    errs = _error_classes(ix)
    rep.require(errs, "the class GeneratorError")
    gen = ix.func(f"{PKG}.generate")
    # (`replace` / `rename` are also methods of str: a receiver the interpreter knows to be a string is no filesystem effect)
    sites = [e for e in effect_sites(ix)
             if not (e.what in ("replace", "rename") and (av := it.node_av.get(id(e.target))) is not None and av.types and "Path" not in av.types)]
    effectful = {e.func.qual for e in sites}
    changed = True
    while changed:
        changed = False
        for a, bs in it.call_edges.items():
            if a not in effectful and bs & effectful:
                effectful.add(a)
                changed = True

    def may_be_error(n: ast.AST) -> set[str]:
        av = it.node_av.get(id(n))
        return set(av.types) & errs if av is not None else set()

    def is_stage(g: FuncInfo, c: ast.Call) -> bool:
        return bool(may_be_error(c)) and any(h.name not in _CONSTRUCTION for h in _callees(ix, it, g, c))

    def operands(c: ast.Call) -> list[ast.expr]:
        return [*([c.func.value] if isinstance(c.func, ast.Attribute) else []), *c.args, *[k.value for k in c.keywords]]

    region: list[FuncInfo] = [gen]
    level = [gen]
    for _ in range(3):
        nxt: list[FuncInfo] = []
        for g in level:
            for c in _own_nodes(g.node):
                if isinstance(c, ast.Call) and is_stage(g, c):
                    nxt += [h for h in _callees(ix, it, g, c) if h not in region and h not in nxt and h.name not in _CONSTRUCTION]
        region += nxt
        level = nxt
    # (1) the calls of the region that can perform an effect
    work: list[tuple[FuncInfo, ast.Call, str, int]] = []
    for g in region:
        direct = {id(e.node) for e in sites if e.func is g}
        for c in _own_nodes(g.node):
            if not isinstance(c, ast.Call):
                continue
            cands = _callees(ix, it, g, c)
            if not cands and isinstance(c.func, ast.Attribute) and (rav := it.node_av.get(id(c.func.value))) is not None and rav.types and set(rav.types) <= errs:
                # the receiver can only be an error here (none of its classes has the method): judged as the method of that name that
                # was meant - obligation (a) then reports the receiver
                cands = [h for h in ix.all_functions if h.name == c.func.attr and h.cls is not None]
            if (hs := [h for h in cands if h.qual in effectful]) or id(c) in direct:
                work.append((g, c, "/".join(sorted({h.name for h in hs})) or call_name(c).rsplit(".", 1)[-1], 0))
    n_eff = len(work)
    rep.require(work, "a call in generate() (or a function whose result it tests) from which a filesystem effect is reachable")
    # (2) ... and the calls that build what they are given
    stages_seen: set[int] = set()
    done: set[int] = set()
    i = 0
    while i < len(work):
        g, c, what, lvl = work[i]
        i += 1
        if id(c) in done:
            continue
        done.add(id(c))
        if lvl < 2:
            for x in operands(c):
                for sf, n in _value_sources(ix, it, g, x):
                    if not isinstance(n, ast.Call) or sf not in region:
                        continue
                    builders = [(sf, n)]
                    if is_stage(sf, n):  # what the stage hands back when it does not hand back an error
                        builders = [(sf2, n2) for h in _callees(ix, it, sf, n) if h in region
                                    for r in _own_nodes(h.node) if isinstance(r, ast.Return) and r.value is not None
                                    for sf2, n2 in _value_sources(ix, it, h, r.value) if isinstance(n2, ast.Call) and sf2 in region]
                    for sf2, n2 in builders:
                        hs2 = _callees(ix, it, sf2, n2)
                        if hs2 and not is_stage(sf2, n2) and not may_be_error(n2) and id(n2) not in done:
                            work.append((sf2, n2, "->".join([norm(n2.func)[:30], what]), lvl + 1))
        calls = [k for k in _own_nodes(g.node) if isinstance(k, ast.Call)]
        stages = [k for k in calls if is_stage(g, k)]
        stages_seen |= {id(k) for k in stages}
        fl = _Flow(g, ix)
        lc = Locals(g.node)
        key = f"{short(g)}::no-write-on-rejection[{what}]"
        st_c = stmt_of(g.node, c)
        bad: list[str] = []
        unknown: list[str] = []
        # (a) what the call is given: the interpreter's narrowed type, or - for a local it did not narrow (a test kept in a flag, an
        # alias) - the same question asked of the paths from the local's bindings to the call
        for x in operands(c):
            if (t := may_be_error(x)):
                binds = [st for kind, st, v in lc.defs.get(x.id, []) if kind == "assign"] if isinstance(x, ast.Name) and st_c is not None else []
                held_x = _alias_closure(lc, {x.id}) if isinstance(x, ast.Name) else set()
                if binds and len(binds) == len(lc.defs.get(x.id, [])) and not any(
                        fl.reach([(b, lab, n) for n, lab in fl.out(b)], [st_c], stop_edge=_rules_out(ix, lc, held_x, t)) for b in binds if b is not st_c):
                    continue
                bad.append(f"`{norm(x)[:40]}` can still be {sorted(q.rsplit('.', 1)[-1] for q in t)} when it is handed to `{norm(c.func)}`")
        for s_ in stages:
            st_s = stmt_of(g.node, s_)
            if s_ is c:
                bad.append(f"`{norm(c.func)}` performs an effect and can still hand back an error")
                continue
            if st_s is None or st_c is None or st_s is st_c:
                continue
            # (b) the effect is not followed by a stage that can still reject
            if lvl == 0 and fl.reach([(st_c, lab, b) for b, lab in fl.out(st_c)], [st_s]):
                bad.append(f"`{norm(s_.func)}`, which can still reject the document, can run after `{norm(c.func)}`")
            # (c) between the stage and the effect the error is ruled out
            held = _aliases_of(lc, s_)
            rules_out = _rules_out(ix, lc, held, may_be_error(s_))

            def looks(n: object, held: set[str] = held) -> bool:
                tests = [n.test] if isinstance(n, (ast.If, ast.While)) else [n.subject] if isinstance(n, ast.Match) else []
                return isinstance(n, ast.Try) or bool({x.id for e_ in tests for x in ast.walk(e_) if isinstance(x, ast.Name)} & held)

            edges0 = [(st_s, lab, b) for b, lab in fl.out(st_s)]
            if any(rules_out(ast.If(test=t, body=[ast.Pass()], orelse=[]), v) for t, v in _guards_in_statement(st_c, c)):
                continue  # ruled out inside the statement: an arm of a conditional expression, a later operand of and / or
            if fl.reach(edges0, [st_c], stop_edge=rules_out):
                if fl.reach(edges0, [st_c], stop_edge=rules_out, stop_node=looks):
                    bad.append(f"`{norm(c.func)}` is reached from `{norm(s_.func)}` on a path that never looks at what the stage handed back")
                else:
                    unknown.append(f"the test between `{norm(s_.func)}` and `{norm(c.func)}` on the stage's result is not an isinstance test")
        if not bad and unknown:
            rep.require(False, f"deciding whether the error is ruled out before the effect ({unknown[0]})")
        rep.check(not bad, "R06.5", key, f"a filesystem / process effect is possible for a rejected document: {'; '.join(bad[:3])}",
                  where(g, c), lhs=bad[:3], rhs="effects only after every stage's error has been ruled out")
    rep.floor("effectful_calls_in_entry_region", n_eff, 1)
    rep.floor("rejecting_stages_before_effects", len(stages_seen), 1)


def _aliases_of(lc: Any, call: ast.Call, copies: bool = False) -> set[str]:
    """the locals that hold the result of the call: bound to it, or to another such local (copies=True: or to a list / tuple /
    sorted copy of one - as good as the original where only its emptiness matters)"""
    def is_it(v: ast.AST | None) -> bool:
        if copies and isinstance(v, ast.Call) and len(v.args) == 1 and not v.keywords and call_name(v) in ("list", "tuple", "sorted"):
            v = v.args[0]
        return v is call or (isinstance(v, ast.NamedExpr) and v.value is call)

    held = {nm for nm, ds in lc.defs.items() for kind, _, v in ds if kind == "assign" and is_it(v)}
    return _alias_closure(lc, held, copies)


def _alias_closure(lc: Any, held: set[str], copies: bool = False) -> set[str]:
    """... and the locals that are plain copies of them (in either direction: `b = a` makes a test on b a test on a)"""
    held = set(held)
    for _ in range(3):
        for nm, ds in lc.defs.items():
            for kind, _, v in ds:
                if copies and isinstance(v, ast.Call) and len(v.args) == 1 and not v.keywords and call_name(v) in ("list", "tuple", "sorted"):
                    v = v.args[0]
                if kind == "assign" and isinstance(v, ast.Name) and ((v.id in held) != (nm in held)) and len(ds) == 1:
                    held |= {nm, v.id}
    return held


def _guards_in_statement(st: ast.AST | None, node: ast.AST) -> list[tuple[ast.expr, bool]]:
    """(test, outcome) known when `node` is evaluated, from the statement's own expressions: the test of a conditional expression it is
    an arm of, the earlier operands of an `and` (true) / `or` (false) it is a later operand of"""
    from ..cfg import own_exprs

    parent: dict[int, ast.AST] = {}
    for root in (own_exprs(st) if isinstance(st, (ast.stmt, ast.ExceptHandler)) else []):  # type: ignore[arg-type]
        for p in ast.walk(root):
            for ch in ast.iter_child_nodes(p):
                parent[id(ch)] = p
    out: list[tuple[ast.expr, bool]] = []
    cur: ast.AST = node
    while id(cur) in parent:
        p = parent[id(cur)]
        if isinstance(p, ast.IfExp) and cur is not p.test:
            out.append((p.test, cur is p.body))
        elif isinstance(p, ast.BoolOp):
            i = next((k for k, v in enumerate(p.values) if v is cur), 0)
            out += [(v, isinstance(p.op, ast.And)) for v in p.values[:i]]
        cur = p
    return out


def _implied_deep(test: ast.expr, outcome: bool, lc: Any, depth: int = 0) -> list[tuple[ast.expr, bool]]:
    """_implied, looking through boolean locals: an atom that is a local bound once (`rejected = isinstance(x, E)`) also implies
    what its definition implies"""
    out = list(_implied(test, outcome))
    for atom, v in list(out):
        if isinstance(atom, ast.Name) and depth < 2:
            ds = lc.defs.get(atom.id, [])
            if len(ds) == 1 and ds[0][0] == "assign" and ds[0][2] is not None:
                out += _implied_deep(ds[0][2], v, lc, depth + 1)  # type: ignore[arg-type]
    return out


def _rules_out(ix: Any, lc: Any, held: set[str], etypes: set[str]) -> Any:
    """edge predicate: the outcome of the test the edge leaves rules out that one of the locals `held` is an error of `etypes`"""
    def pred(a: object, lab: bool | None) -> bool:
        if lab is None or not isinstance(a, (ast.If, ast.While)):
            return False
        for atom, v in _implied_deep(a.test, lab, lc):
            for nm in held:
                cl = _isinstance_of(atom, nm)
                if cl is not None and _excludes_errors(ix, cl, v, etypes):
                    return True
        return False

    return pred


def _excludes_errors(ix: Any, classes: list[str], outcome: bool, etypes: set[str]) -> bool:
    """the outcome of isinstance(x, classes) rules out that x is one of the error classes etypes (qualified names)"""
    def supers(q: str) -> set[str]:
        ci = ix.classes.get(q)
        return {k.name for k in ix.mro(ci)} if ci is not None else {q.rsplit(".", 1)[-1]}

    if outcome:
        return not any(c in ("object", "Any") or any(c in supers(q) for q in etypes) for c in classes)
    return all(any(c in supers(q) for c in classes) for q in etypes)


def _diagnostics_returned(rep: Report, ctx: Any) -> None:
    """R06.6.  Instances: parser functions with a local dict filled by `setdefault` (objects grouped by a key) in which error values
    are appended to a list attribute of those objects.  Obligation: the dict is bound once (to an empty dict) and every return that
    is not itself an error hands back the dict's own name."""
    from ..astutil import Locals, constructs_error, error_names, receivers
    from .registries import local_registries

    ix = ctx.py
    n_inst = 0
    for f in ix.all_functions:
        if not f.module.name.startswith(f"{PKG}.parser"):
            continue
        tables = {nm for nm, kind in local_registries(f).items() if kind == "dict"
                  and any(r == nm for r, _ in receivers(f.node, "setdefault"))}
        if not tables:
            continue
        errs = error_names(f.node)
        # objects taken out of the table: locals bound from expressions that mention <table>.setdefault(...)
        lc = Locals(f.node)
        for tb in sorted(tables):
            holders = set(lc.bound_from(lambda v, tb=tb: f"{tb}.setdefault(" in v, ""))
            members = {norm(lp.target) for lp in ast.walk(f.node) if isinstance(lp, ast.For) and norm(lp.iter) in holders} | holders
            records = [c for r, c in receivers(f.node, "append") if "." in r and r.split(".", 1)[0] in members and c.args and
                       (constructs_error(c.args[0]) or (isinstance(c.args[0], ast.Name) and c.args[0].id in errs))]
            if not records:
                continue
            n_inst += 1
            defs = [norm(v) for v in lc.values_of(tb)]
            rets = [r for r in ast.walk(f.node) if isinstance(r, ast.Return) and r.value is not None]
            firsts = [norm(r.value.elts[0]) if isinstance(r.value, ast.Tuple) and r.value.elts else norm(r.value) for r in rets]
            ok = defs in (["{}"], ["dict()"]) and bool(rets) and all(x == tb for x in firsts)
            rep.check(ok, "R06.6", f"{short(f)}::returns-the-table-with-its-diagnostics",
                      "objects that carry recorded diagnostics are kept in a local table, but what is returned is not that table itself "
                      f"(bound from {defs}, returned as {sorted(set(firsts))}): an object filtered out takes its diagnostics along and "
                      "the failure is reported nowhere", where(f, rets[-1] if rets else f.node), lhs=[defs, sorted(set(firsts))],
                      rhs=f"`{tb}` bound once to an empty dict and returned by name")
    rep.floor("diagnostic_tables", n_inst, 1)


def _tuple_pairs(g: Any, a_name: str, b_name: str) -> list[tuple[ast.expr, ast.expr]]:
    """values given to locals a and b by the SAME tuple assignment `(.., a, .., b, ..) = (.., x, .., y, ..)` (correlated choices)"""
    out = []
    for st in ast.walk(g.node):
        if isinstance(st, ast.Assign) and isinstance(st.targets[0], ast.Tuple) and isinstance(st.value, ast.Tuple) \
                and len(st.targets[0].elts) == len(st.value.elts):
            names = [t.id if isinstance(t, ast.Name) else None for t in st.targets[0].elts]
            if a_name in names and b_name in names:
                out.append((st.value.elts[names.index(a_name)], st.value.elts[names.index(b_name)]))
    return out


def _escaping_callers(ix: Any, f: Any, excs: list[str], depth: int) -> list[str]:
    """exceptions of `excs` that can still escape when f is called: f must be a private helper (leading underscore or nested) whose
    every call site - by name, or through a local the helper was assigned to - sits in a try that catches them.  A handler whose
    type is a local is resolved through that local; when the callee variable and the handler variable are set by the same tuple
    assignment, the pairing is respected (parse, error = _parse_json, ValueError)."""
    from ..astutil import Locals

    if depth > 2 or not (f.name.startswith("_") and not f.name.startswith("__") or f.parent is not None):
        return excs
    sites = []
    for g in ix.all_functions:
        if g.module is not f.module or g is f:
            continue
        lc = Locals(g.node)
        carriers = {nm for nm in lc.defs if any(isinstance(x, ast.Name) and x.id == f.name for v in lc.values_of(nm) for x in ast.walk(v))}
        for c in ast.walk(g.node):
            if isinstance(c, ast.Call):
                cn = call_name(c)
                if cn == f.name or cn.endswith("." + f.name) and cn.split(".")[0] in ("self", "cls"):
                    sites.append((g, c, None))
                elif isinstance(c.func, ast.Name) and c.func.id in carriers:
                    sites.append((g, c, c.func.id))
    if not sites:
        return excs
    still: set[str] = set()
    for g, c, carrier in sites:
        lc = Locals(g.node)
        stack = handlers_around(g.node, c)
        resolved: list[list[str]] = []
        for names in stack:
            row: list[str] = []
            for nm in names:
                vals = lc.values_of(nm) if nm in lc.defs else []
                if not vals:
                    row.append(nm)
                    continue
                if carrier is not None:
                    pairs = _tuple_pairs(g, carrier, nm)
                    mine = [dotted(e) or "" for fv, e in pairs if isinstance(fv, ast.Name) and fv.id == f.name]
                    if mine:
                        # the handler type that goes with this callee; caught only if every such pairing catches
                        row.append("&".join(sorted(set(mine))))
                        continue
                # an uncorrelated local: caught only if every value it may hold catches
                alts = sorted({dotted(x) or "" for v in vals for x in ([v] if not isinstance(v, ast.Tuple) else v.elts)})
                row.append("&".join(alts))
            resolved.append(row)

        def is_caught(e: str) -> bool:
            return any(all(is_sub(e, part) for part in h.split("&")) for row in resolved for h in row if h)

        left = [e for e in excs if not is_caught(e)]
        if left:
            still |= set(_escaping_callers(ix, g, left, depth + 1))
    return sorted(still)
