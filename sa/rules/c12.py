"""C12 - same document, same bytes: deterministic and order-independent."""
from __future__ import annotations

import ast
from typing import Any

from ..astutil import Locals, call_name, constructs_error, error_names, norm, role_anon, short, where
from ..core import PKG, Report
from ..pyindex import dotted

LEVEL = ("hash-seed clause: every place where the ORDER of a set-typed value is observed (Python for/comprehension/join/"
         "list()/next(iter())/pop(); Jinja for/join/list/first) is enumerated from the typed program (abstract interpreter "
         "types for Python, template interpreter for Jinja); each is sorted, a proven singleton, feeds an order-insensitive "
         "update, or is a frozen diagnostics-only case. Environment-dependent sources are enumerated. Permutation clause "
         "(narrow): aggregates are sorted, worklist rounds reset their errors, suffix tests on reference paths are "
         "separator-anchored, re-registrations of shared classes are monotone, late-filled fields of copied "
         "classes are read by templates only on the rendered object itself, context-less imported templates keep no macro-written "
         "module state.")

# unsorted iterations over sets whose order can only reach diagnostics text or idempotent removals (confirmed by reading)
FROZEN = {
    "parser.properties._process_model_errors::for <each model_errors[0]>.roots":
        "order reaches only the text of the error detail (list of removed references) and idempotent removals",
    "parser.properties._propogate_removal::for schemas.dependencies.get(root, set())":
        "order reaches only the text of the error detail and idempotent removals (pop/del guarded by membership)",
}
ENV_SOURCES = ("time.time", "time.monotonic", "datetime.now", "datetime.utcnow", "datetime.today", "date.today", "random.",
               "uuid.uuid1", "uuid.uuid4", "os.getpid", "os.listdir", "os.scandir", "glob.glob", "os.environ", "os.getenv",
               "socket.gethostname", "getpass.getuser", "secrets.")


ORDERED = {"list", "sortedlist", "tuple"}
# consumers whose result does not depend on the order in which their (single) iterable argument is traversed
ORDER_BLIND = ("sorted", "set", "frozenset", "any", "all", "sum", "len", "min", "max", "Counter")


def _types_of(e: ast.AST | None, it: Any) -> frozenset[str]:
    """container types the expression may evaluate to.  The interpreter records abstract values of names, attributes, calls and
    subscripts only; the type of every other expression form is derived here from its operands, so that a set is a set however it
    is written: a display `{a, b}`, a set comprehension, `s | t`, `a if c else s`, `s or set()`, `(x := s)`, `*s` ..."""
    if e is None:
        return frozenset()
    if isinstance(e, (ast.Set, ast.SetComp)):
        return frozenset({"set"})
    if isinstance(e, (ast.List, ast.ListComp)):
        return frozenset({"list"})
    if isinstance(e, ast.Tuple):
        return frozenset({"tuple"})
    if isinstance(e, (ast.Dict, ast.DictComp)):
        return frozenset({"dict"})
    if isinstance(e, ast.GeneratorExp):
        return frozenset({"iter"})
    if isinstance(e, (ast.Constant, ast.JoinedStr, ast.Compare, ast.Lambda)):
        return frozenset()
    if isinstance(e, ast.Call) and call_name(e) in ("set", "frozenset"):
        return frozenset({"set"})
    if isinstance(e, ast.Call) and call_name(e) in ("sorted", "list"):
        return frozenset({"list"})
    if isinstance(e, ast.BinOp):
        l, r = _types_of(e.left, it), _types_of(e.right, it)
        if isinstance(e.op, (ast.BitOr, ast.BitXor)):
            return l | r
        if isinstance(e.op, (ast.BitAnd, ast.Sub)):
            return l
        return (l | r) - {"set"}  # no other binary operator yields a set
    if isinstance(e, ast.IfExp):
        return _types_of(e.body, it) | _types_of(e.orelse, it)
    if isinstance(e, ast.BoolOp):
        return frozenset().union(*[_types_of(v, it) for v in e.values])
    if isinstance(e, (ast.NamedExpr, ast.Starred, ast.Await)):
        return _types_of(e.value, it)
    av = it.node_av.get(id(e))
    return frozenset(av.types) if av is not None else frozenset()


def _may_be_set(e: ast.AST | None, it: Any) -> bool:
    """some evaluation of e yields a set (and e is not declared to be an ordered sequence as well: the annotations of the analysed
    program use `list | set` nowhere, a value of both types is an imprecision of the join)"""
    if isinstance(e, (ast.IfExp, ast.BoolOp)):
        # either operand alone decides what is traversed: `s if c else []` traverses the set s whenever c holds
        return any(_may_be_set(v, it) for v in ([e.body, e.orelse] if isinstance(e, ast.IfExp) else e.values))
    t = _types_of(e, it)
    return "set" in t and not (t & ORDERED)


def _insensitive_body(body: list[ast.stmt]) -> bool:
    """the loop body only performs keyed/idempotent updates (set.add/update/discard, dict[key]=, membership tests)"""
    for st in body:
        if isinstance(st, (ast.Pass, ast.Continue)):
            continue
        if isinstance(st, ast.If):
            if not _insensitive_body(st.body) or not _insensitive_body(st.orelse):
                return False
            continue
        if isinstance(st, ast.Expr) and isinstance(st.value, ast.Call) and isinstance(st.value.func, ast.Attribute) and \
                st.value.func.attr in ("add", "update", "discard", "add_dependencies", "setdefault"):
            continue
        return False
    return True


def run(rep: Report, ctx: Any) -> str:
    ix = ctx.py
    it, ji = ctx.flow
    rep.rule("R12.1", "no observation of the order of a set reaches generated output: sorted / singleton / order-insensitive / "
                      "diagnostics-only (frozen); no environment-dependent source is used")
    rep.rule("R12.2", "aggregates are emitted through a sort; worklist rounds take errors from the last round only; suffix tests "
                      "on reference paths are separator-anchored; updates of already registered classes are monotone")
    rep.rule("R12.3", "a field that is filled in after construction (declared Optional, written outside the constructors) of a class whose "
                      "instances are also copied without it is read by templates only on the object handed to render(), never on an "
                      "object reached through fields / loops / macro parameters (that may be a copy taken before the field was filled)")
    rep.rule("R12.4", "a template that is imported without context (its module is cached for the whole run) holds no module-level object "
                      "that one of its macros writes to: what a render emits must not depend on the renders before it")
    rep.assumptions.append("dict iteration order is insertion order (language guarantee); only set/frozenset order is hash-dependent")
    rep.assumptions.append("R12.3: the objects passed to Template.render() are the registered instances themselves and rendering starts after "
                           "parsing has finished, so every late write has happened on them")

    n_py = 0
    for f in ix.all_functions:
        if f.module.name.startswith(f"{PKG}.schema"):
            continue
        parent = {id(ch): p_ for p_ in ast.walk(f.node) for ch in ast.iter_child_nodes(p_)}
        for n in ast.walk(f.node):
            for expr, desc, node in _order_observations(n, f.node, parent):
                if not _may_be_set(expr, it):
                    continue
                n_py += 1
                key = f"{short(f)}::{desc}"
                if _feeds_order_blind(node, parent):
                    rep.ok("R12.1", key, "set", "feeds a set / sorted() / order-blind aggregate: order not observed")
                    continue
                if key in FROZEN:
                    rep.ok("R12.1", key, "frozen", FROZEN[key], nontrivial=False)
                    continue
                if isinstance(node, (ast.For, ast.AsyncFor)) and _insensitive_body(node.body):
                    rep.ok("R12.1", key, "set", "loop body performs only keyed / idempotent updates")
                    continue
                if _singleton_guard(f.node, node, expr):
                    rep.ok("R12.1", key, "set", "singleton by a dominating len(...) test")
                    continue
                if isinstance(node, ast.JoinedStr) and _only_in_error(f.node, node):
                    rep.ok("R12.1", key, "set", "formatted into an error detail only")
                    continue
                rep.fail("R12.1", key, f"the iteration order of the set `{norm(expr)}` is observed here and is not sorted, a singleton, "
                                       "or an order-insensitive update: output may depend on PYTHONHASHSEED", where(f, node),
                         lhs=sorted(_types_of(expr, it)), rhs="sorted(...) / singleton / keyed update")
    rep.floor("python_set_order_observations", n_py, 5)
    rep.control("R12.1 set-valued expressions that are not names", _control_untyped_set_forms())

    # templates
    n_t = 0
    for k, itn in sorted(ji.iterations.items(), key=lambda kv: (kv[1].template, kv[1].macro, kv[1].expr, kv[1].kind)):
        if "set" not in itn.types or itn.kind in ("list",):
            continue
        n_t += 1
        key = f"{itn.template}::{itn.macro}::{itn.kind} {itn.expr}"
        rep.check(False, "R12.1", key, f"`{itn.expr}` is a set and is iterated ({itn.kind}) without `| sort`: the emitted order depends "
                                       "on string hashing", where=f"{PKG}/templates/{itn.template}:{itn.line}",
                  lhs=sorted(itn.types), rhs="| sort")
    for k, itn in sorted(ji.iterations.items(), key=lambda kv: (kv[1].template, kv[1].macro, kv[1].expr)):
        if itn.sorted_ and itn.kind == "for":
            n_t += 1
            rep.ok("R12.1", f"{itn.template}::{itn.macro}::for {itn.expr}", "sorted", "| sort / dictsort")
    rep.floor("template_order_observations", n_t, 6)
    # sorted aggregates: every template `for` over an import/alls collection is sorted
    for k, itn in sorted(ji.iterations.items()):
        if itn.kind == "for" and itn.expr.split("|")[0] in ("imports", "alls") and itn.template == "models_init.py.jinja":
            rep.check(itn.sorted_, "R12.2", f"{itn.template}::for {itn.expr}", "aggregate over all schemas is not sorted",
                      where=f"{PKG}/templates/{itn.template}:{itn.line}", lhs=itn.expr, rhs="| sort")

    # environment sources
    n_env = 0
    for f in ix.all_functions:
        for n in ast.walk(f.node):
            txt = None
            if isinstance(n, ast.Call):
                txt = call_name(n)
            elif isinstance(n, ast.Attribute):
                txt = dotted(n)
            if txt and any(s in txt + ("" if txt.endswith(".") else "") for s in ENV_SOURCES):
                if isinstance(n, ast.Attribute) and any(isinstance(p, ast.Call) and p.func is n for p in ast.walk(f.node)):
                    continue
                n_env += 1
                rep.fail("R12.1", f"{short(f)}::{txt}", f"environment-dependent source `{txt}` is used by the generator", where(f, n))
    rep.control("R12.1 env-source table", any(s in "time.time" for s in ENV_SOURCES) and any(s in "random.choice" for s in ENV_SOURCES))
    rep.indexed["environment_sources"] = n_env

    # ---- R12.2 ------------------------------------------------------------------------------------------------------
    # errors reset per round in the three progress loops
    n_w = 0
    for f in ix.all_functions:
        for n in ast.walk(f.node):
            # round loops: `while <flag>:` whose body first clears the flag (other worklist shapes are not rounds)
            if isinstance(n, ast.While) and isinstance(n.test, ast.Name) and any(
                    isinstance(a, ast.Assign) and norm(a.targets[0]) == n.test.id and isinstance(a.value, ast.Constant) and a.value.value is False for a in n.body):
                n_w += 1
                # roles: the work list is iterated inside the round and re-assigned from the next-round list at its end; an error
                # list must be reset per round iff some error is appended to it in a block that also re-queues the item
                work = {norm(lp.iter) for lp in ast.walk(n) if isinstance(lp, ast.For) and isinstance(lp.iter, ast.Name)}
                nxt = {norm(a.value) for a in n.body if isinstance(a, ast.Assign) and norm(a.targets[0]) in work and isinstance(a.value, ast.Name)}
                errs = error_names(f.node)

                def is_err(a: ast.AST) -> bool:
                    return constructs_error(a) or (isinstance(a, ast.Name) and a.id in errs) or \
                        (isinstance(a, ast.Tuple) and any(isinstance(x, ast.Name) and x.id in errs for x in a.elts))

                err_lists = set()
                for blk in [getattr(b, fld) for b in ast.walk(n) for fld in ("body", "orelse") if isinstance(getattr(b, fld, None), list)]:
                    apps = [(norm(s_.value.func.value), s_.value) for s_ in blk if isinstance(s_, ast.Expr) and isinstance(s_.value, ast.Call)
                            and isinstance(s_.value.func, ast.Attribute) and s_.value.func.attr == "append" and s_.value.args]
                    if any(r in nxt for r, _ in apps):
                        err_lists |= {r for r, c in apps if r not in nxt and isinstance(c.func.value, ast.Name) and is_err(c.args[0])}
                rep.check(bool(nxt) and bool(err_lists), "R12.2", f"{short(f)}::round-structure", "the progress loop has no next-round list / no "
                          "per-round error list", where(f, n), lhs=[sorted(nxt), sorted(err_lists)], rhs="work list re-assigned, errors recorded with the re-queue")
                for i_, el in enumerate(sorted(err_lists)):
                    reset = any(isinstance(s, ast.Assign) and norm(s.targets[0]) == el and isinstance(s.value, ast.List) and not s.value.elts
                                for s in n.body)
                    rep.check(reset, "R12.2", f"{short(f)}::round-errors#{i_}",
                              f"`{el}` accumulates over rounds: whether an error is reported would depend on the order of definitions",
                              where(f, n), lhs=el, rhs="reset to [] at the head of every round")
    rep.floor("progress_loops", n_w, 3)
    # separator-anchored suffix tests on references
    n_s = 0
    for f in ix.all_functions:
        refs = ({"ref_path"} & {p_.arg for p_ in f.params}) | set(Locals(f.node).bound_from(lambda v: v.startswith("parse_reference_path("), "assign"))
        for n in ast.walk(f.node):
            if isinstance(n, ast.Call) and isinstance(n.func, ast.Attribute) and n.func.attr == "endswith" and \
                    (norm(n.func.value).endswith(".ref") or norm(n.func.value) in refs) and n.args:
                n_s += 1
                a = n.args[0]
                anchored = False
                if isinstance(a, ast.JoinedStr) and a.values and isinstance(a.values[0], ast.Constant) and str(a.values[0].value).startswith("/"):
                    anchored = True
                if isinstance(a, ast.Constant) and str(a.value).startswith("/"):
                    anchored = True
                if isinstance(a, ast.Name) and a.id in refs:
                    anchored = True  # a full reference path always starts with '/'
                rep.check(anchored, "R12.2", f"{short(f)}::endswith({role_anon(a, f.node)[:40]})",
                          "suffix test on a reference without the `/` separator: a schema whose name is a suffix of another's is "
                          "confused with it (outcome then depends on the order of definitions)", where(f, n),
                          lhs=norm(n)[:80], rhs="argument starts with '/' or is a full reference path")
    rep.floor("reference_suffix_tests", n_s, 3)
    # monotone re-registration
    n_m = 0
    for f in ix.all_functions:
        for n in ast.walk(f.node):
            if isinstance(n, ast.Call) and call_name(n).endswith("evolve"):
                for kw in n.keywords:
                    if kw.arg == "is_multipart_body":
                        n_m += 1
                        rep.check(isinstance(kw.value, ast.Constant) and kw.value.value is True, "R12.2",
                                  f"{short(f)}::evolve(is_multipart_body)", "a flag of an already registered (shared) class is set "
                                  "from the current item: the last operation parsed wins, so output depends on the order of paths",
                                  where(f, n), lhs=norm(kw.value), rhs="constant True (monotone)")
    rep.floor("shared_class_flag_updates", n_m, 1)
    _late_filled_fields(rep, ctx)
    _template_module_state(rep, ctx)
    rep.not_decided += ["invariance under permutation as such (class-name collisions and {name}_type_{i} numbering are order-sensitive "
                        "by construction; the property restricts itself to documents without diagnostics)"]
    return LEVEL


def _order_observations(n: ast.AST, fn: ast.AST, parent: dict[int, ast.AST]) -> list[tuple[ast.expr, str, ast.AST]]:
    """(traversed expression, description for the construct key, observing node) for every way in which node n makes the order of an
    iterable visible: statements and expressions that traverse it front to back, take its first element or print it"""
    sites: list[tuple[ast.expr, str, ast.AST]] = []

    def ra(e: ast.AST) -> str:
        return role_anon(e, fn)

    if isinstance(n, (ast.For, ast.AsyncFor)):
        sites.append((n.iter, f"for {ra(n.iter)}", n))
    elif isinstance(n, (ast.ListComp, ast.GeneratorExp, ast.DictComp)):
        for g in n.generators:
            sites.append((g.iter, f"comprehension over {ra(g.iter)}", n))
    elif isinstance(n, ast.Call):
        cn = call_name(n)
        if cn in ("list", "tuple", "next", "iter", "enumerate", "reversed", "str", "repr") and n.args:
            inner = n.args[0]
            if cn == "next" and isinstance(inner, ast.Call) and call_name(inner) == "iter" and inner.args:
                inner = inner.args[0]
            sites.append((inner, f"{cn}({ra(inner)})", n))
        elif cn == "zip" and n.args:
            sites.append((n.args[0], f"zip({ra(n.args[0])})", n))
            for a in n.args[1:]:
                sites.append((a, f"zip(.., {ra(a)})", n))
        elif cn in ("map", "filter") and len(n.args) > 1:
            for a in n.args[1:]:
                sites.append((a, f"{cn}(.., {ra(a)})", n))
        elif isinstance(n.func, ast.Attribute) and n.func.attr == "join" and n.args:
            sites.append((n.args[0], f"join({ra(n.args[0])})", n))
        elif isinstance(n.func, ast.Attribute) and n.func.attr == "pop" and not n.args:
            sites.append((n.func.value, f"{ra(n.func.value)}.pop()", n))
        elif isinstance(n.func, ast.Attribute) and n.func.attr in ("extend", "fromkeys") and n.args:
            sites.append((n.args[0], f"{n.func.attr}({ra(n.args[0])})", n))
    elif isinstance(n, ast.JoinedStr):
        for v in n.values:
            if isinstance(v, ast.FormattedValue):
                sites.append((v.value, f"f-string of {ra(v.value)}", n))
    elif isinstance(n, ast.Starred) and isinstance(getattr(n, "ctx", None), ast.Load):
        # `[*s]`, `(*s,)`, `f(*s)`: the elements are laid out in iteration order (a set display `{*s}` is a set again)
        par = parent.get(id(n))
        if not isinstance(par, ast.Set):
            sites.append((n.value, f"*{ra(n.value)}", par if isinstance(par, (ast.List, ast.Tuple)) else n))
    elif isinstance(n, ast.YieldFrom):
        sites.append((n.value, f"yield from {ra(n.value)}", n))
    elif isinstance(n, ast.Assign) and any(isinstance(t, (ast.Tuple, ast.List)) for t in n.targets):
        sites.append((n.value, f"unpacking of {ra(n.value)}", n))
    elif isinstance(n, ast.AugAssign) and isinstance(n.op, ast.Add):
        sites.append((n.value, f"+= {ra(n.value)}", n))
    return sites


def _control_untyped_set_forms() -> bool:
    """synthetic fragment: every way of writing a set that the interpreter does not record a type for must be seen as a set, and the
    same forms under an order-blind consumer must not"""
    class NoTypes:
        node_av: dict[int, Any] = {}

    src = ("def f(a, b, c):\n"
           "    x = list({g(t) for t in a})\n"
           "    y = [*({1, 2} | set(b))]\n"
           "    for z in ({c} if a else frozenset(b)):\n"
           "        print(z)\n"
           "    return ', '.join(set(a) - {c}), sorted({t for t in a}), len(list({1, 2}))\n")
    fn = ast.parse(src).body[0]
    parent = {id(ch): p_ for p_ in ast.walk(fn) for ch in ast.iter_child_nodes(p_)}
    seen, blind = 0, 0
    for n in ast.walk(fn):
        for expr, _, node in _order_observations(n, fn, parent):
            if _may_be_set(expr, NoTypes):
                if _feeds_order_blind(node, parent):
                    blind += 1
                else:
                    seen += 1
    return seen == 4 and blind == 1


def _feeds_order_blind(node: ast.AST, parent: dict[int, ast.AST]) -> bool:
    """the observing expression is itself the argument of a consumer that forgets the order again: sorted(list(s)), set(x for x in s),
    any(... for x in s), len([.. for x in s]), `{*[.. for x in s]}`"""
    if not isinstance(node, ast.expr):
        return False
    par = parent.get(id(node))
    if isinstance(par, ast.Starred):
        par = parent.get(id(par))
        return isinstance(par, ast.Set)
    if isinstance(par, ast.Call) and par.args and par.args[0] is node and len(par.args) == 1:
        return call_name(par).rsplit(".", 1)[-1] in ORDER_BLIND
    return False


def _singleton_guard(fn: ast.AST, node: ast.AST, expr: ast.expr) -> bool:
    """node is inside `if len(X) == 1:` (or after an early return on len(X) > 1 / != 1) for the same X"""
    x = norm(expr)
    for n in ast.walk(fn):
        if isinstance(n, ast.If) and f"len({x})" in norm(n.test):
            t = norm(n.test)
            if "== 1" in t and any(s is node for b in n.body for s in ast.walk(b)):
                return True
            if ("> 1" in t or "!= 1" in t) and any(isinstance(s, ast.Return) for s in n.body) and \
                    getattr(node, "lineno", 0) > n.lineno:
                return True
    return False


def _only_in_error(fn: ast.AST, node: ast.AST) -> bool:
    for n in ast.walk(fn):
        if isinstance(n, ast.Call) and call_name(n).rsplit(".", 1)[-1] in ("PropertyError", "ParseError", "ParameterError", "GeneratorError"):
            if any(s is node for s in ast.walk(n)):
                return True
    return False


# ---- R12.3 ------------------------------------------------------------------------------------------------------------------
CONSTRUCTORS = ("__init__", "__new__", "__attrs_post_init__", "__post_init__")
COPIERS = ("evolve", "replace", "copy", "deepcopy")


def _class_types(av: Any, ix: Any) -> set[str]:
    return {t for t in (av.types if av is not None else ()) if t in ix.classes}


def _late_filled_fields(rep: Report, ctx: Any) -> None:
    from jinja2 import nodes

    from ..jinja_interp import expr_text

    ix = ctx.py
    it, ji = ctx.flow
    # (a) late writes: object.__setattr__(X, "f", v) / setattr(X, "f", v) / X.f = v outside the constructors of X's class
    late: dict[tuple[str, str], str] = {}
    for f in ix.all_functions:
        for n in ast.walk(f.node):
            target = fld = None
            if isinstance(n, ast.Call) and call_name(n) in ("object.__setattr__", "setattr") and len(n.args) == 3 and \
                    isinstance(n.args[1], ast.Constant) and isinstance(n.args[1].value, str):
                target, fld = n.args[0], n.args[1].value
            elif isinstance(n, (ast.Assign, ast.AnnAssign, ast.AugAssign)):
                for t in (n.targets if isinstance(n, ast.Assign) else [n.target]):
                    if isinstance(t, ast.Attribute):
                        target, fld = t.value, t.attr
            if target is None:
                continue
            if _fresh_object(target, f, ix):
                continue  # two-phase construction: the factory completes the object it has just created, before anyone else sees it
            owners = _class_types(it.node_av.get(id(target)), ix)
            if not owners and f.cls is not None and isinstance(target, ast.Name) and f.params and target.id == f.params[0].arg:
                owners = {f.cls.qual}
            for q in owners:
                c = ix.classes[q]
                if f.name in CONSTRUCTORS and f.cls is not None and f.cls in ix.mro(c):
                    continue
                late.setdefault((q, fld), where(f, n))
    # (b) ... of a field that starts as a placeholder: its declared type admits None
    lazy: dict[tuple[str, str], str] = {}
    for (q, fld), w in late.items():
        c = ix.classes[q]
        ann = ix.all_fields(c).get(fld)
        if ann is not None and "None" in it.tr.from_ann(c.module, ann).types:
            lazy[(q, fld)] = w
    # (c) ... while instances of the class are copied without the field being supplied (the copy keeps whatever was there)
    stale: dict[tuple[str, str], tuple[str, str]] = {}
    n_copies = 0
    for f in ix.all_functions:
        for n in ast.walk(f.node):
            if not (isinstance(n, ast.Call) and call_name(n).rsplit(".", 1)[-1] in COPIERS and n.args):
                continue
            src = _class_types(it.node_av.get(id(n.args[0])), ix)
            if not src:
                continue
            n_copies += 1
            given = {k.arg for k in n.keywords}
            for (q, fld), w in lazy.items():
                if q in src and fld not in given:
                    stale.setdefault((q, fld), (w, where(f, n)))
    rep.floor("copy_sites_of_repository_objects", n_copies, 3)
    rep.indexed["late_filled_fields_of_copied_classes"] = sorted(f"{q.rsplit('.', 1)[-1]}.{fld}" for q, fld in stale)
    if not stale:
        rep.ok("R12.3", "no-late-filled-field-of-a-copied-class", "none", "nothing to protect")
        return
    names = {fld for _, fld in stale}
    n_reads = 0
    seen: set[str] = set()
    imported = _imported_templates(ctx.jinja.templates, nodes)
    for tname, ti in sorted(ctx.jinja.templates.items()):
        render_args = set(ji.render_kwargs.get(tname, {}))
        subjects = _subject_names(ti, render_args, tname in imported, nodes)
        for mname, (body, subj) in subjects.items():
            for g in _own_template_nodes(body, nodes):
                if not (isinstance(g, nodes.Getattr) and g.attr in names):
                    continue
                rd = ji.attr_reads.get((tname, mname, expr_text(g)))
                if rd is None:
                    continue  # never evaluated: the macro is not reachable from a rendered template
                owners = {(q, fld) for (q, fld) in stale if fld == g.attr and q in rd[3]}
                if not owners:
                    continue
                n_reads += 1
                key = f"{tname}::{mname}::{expr_text(g)}"
                if key in seen:
                    continue
                seen.add(key)
                base = g.node
                subject = _is_subject(base, subj, nodes)
                q, fld = sorted(owners)[0]
                rep.check(subject, "R12.3", key,
                          f"`{expr_text(g)}` reads {q.rsplit('.', 1)[-1]}.{fld} on an object that is not the one handed to render(): the field is "
                          f"filled in after construction ({stale[(q, fld)][0]}) and instances are copied without it ({stale[(q, fld)][1]}), so a "
                          "copy taken before the original was completed keeps the placeholder and the emitted text depends on the order "
                          "of definitions in the document", where=f"{PKG}/templates/{tname}:{getattr(g, 'lineno', 0)}",
                          lhs=expr_text(base), rhs=f"a render argument of {tname}: {sorted(render_args)}")
    rep.floor("template_reads_of_late_filled_fields", n_reads, 5)


def _fresh_object(target: ast.AST, f: Any, ix: Any) -> bool:
    """target is a local of f that is only ever bound to the result of instantiating a class in f itself"""
    if not isinstance(target, ast.Name) or target.id in {a.arg for a in f.params}:
        return False
    vals = Locals(f.node).values_of(target.id)
    class_names = {c.name for c in ix.classes.values()}
    return bool(vals) and all(isinstance(v, ast.Call) and (call_name(v) == "cls" or call_name(v).rsplit(".", 1)[-1] in class_names) for v in vals)


def _is_subject(e: Any, subj: set[str], nodes: Any) -> bool:
    """e denotes an object handed to render() itself: a render argument, a `set` alias of one (canonical name `(arg)`), or a macro
    parameter that receives one at every call"""
    return isinstance(e, nodes.Name) and (e.name in subj or (e.name[:1] == "(" and e.name[-1:] == ")" and e.name[1:-1] in subj))


def _subject_names(ti: Any, render_args: set[str], is_imported: bool, nodes: Any) -> dict[str, tuple[list[Any], set[str]]]:
    """scope name -> (body, names that denote a render argument there).  The top level sees the render arguments; a macro sees those its
    parameters do not hide, plus every parameter to which all calls (the macro is private to a template nobody imports: calls by name
    in the template itself) pass such a name."""
    macros = {m.name: m for m in ti.tree.find_all(nodes.Macro)}
    out: dict[str, tuple[list[Any], set[str]]] = {"<top>": (ti.tree.body, set(render_args))}
    for m in macros.values():
        out[m.name] = (m.body, set(render_args) - {a.name for a in m.args})
    if is_imported:
        return out
    calls: dict[str, list[tuple[str, Any]]] = {}
    for scope, (body, _) in out.items():
        for n in _own_template_nodes(body, nodes):
            if isinstance(n, nodes.Call) and isinstance(n.node, nodes.Name) and n.node.name in macros:
                calls.setdefault(n.node.name, []).append((scope, n))
    for _ in range(len(macros) + 1):
        changed = False
        for m in macros.values():
            for i, a in enumerate(m.args):
                if a.name in out[m.name][1] or not calls.get(m.name):
                    continue
                ok = True
                for scope, c in calls[m.name]:
                    arg = c.args[i] if i < len(c.args) else next((k.value for k in c.kwargs if k.key == a.name), None)
                    if arg is None or c.dyn_args is not None or c.dyn_kwargs is not None or not _is_subject(arg, out[scope][1], nodes):
                        ok = False
                if ok:
                    out[m.name][1].add(a.name)
                    changed = True
        if not changed:
            break
    return out


def _imported_templates(templates: dict[str, Any], nodes: Any, cached_only: bool = False) -> dict[str, str]:
    """templates that are the target of an `import` / `from .. import` (a computed name `"dir/" + x` counts for every template under the
    constant prefix) -> first importing site.  cached_only: only imports without `with context` (Jinja caches the module of those)"""
    out: dict[str, str] = {}
    for tname, ti in sorted(templates.items()):
        for n in ti.tree.find_all((nodes.Import, nodes.FromImport)):
            if cached_only and n.with_context:
                continue
            t = n.template
            if isinstance(t, nodes.Const) and isinstance(t.value, str):
                targets = [t.value] if t.value in templates else []
            else:
                first = t
                while isinstance(first, (nodes.Add, nodes.Concat)):
                    first = first.left if isinstance(first, nodes.Add) else first.nodes[0]
                prefix = first.value if isinstance(first, nodes.Const) and isinstance(first.value, str) else ""
                targets = [x for x in templates if x.startswith(prefix)]
            for x in targets:
                out.setdefault(x, f"{tname}:{n.lineno}")
    return out


def _own_template_nodes(body: list[Any], nodes: Any) -> Any:
    """all nodes below body, not descending into (nested) macro definitions"""
    stack = list(reversed(body))
    while stack:
        n = stack.pop()
        yield n
        if isinstance(n, nodes.Macro):
            continue
        stack.extend(reversed(list(n.iter_child_nodes())))


# ---- R12.4 ------------------------------------------------------------------------------------------------------------------
STATEFUL_CTORS = ("namespace", "dict", "list", "cycler", "joiner")
MUTATORS = ("append", "extend", "insert", "pop", "remove", "clear", "update", "setdefault", "popitem", "sort", "reverse", "add", "discard",
            "next", "reset", "__setitem__", "__delitem__", "__setattr__")


def _template_module_state(rep: Report, ctx: Any) -> None:
    from jinja2 import nodes

    templates = ctx.jinja.templates
    # templates whose module object is cached: targets of `import` / `from .. import` without `with context`
    cached = _imported_templates(templates, nodes, cached_only=True)
    rep.floor("templates_imported_without_context", len(cached), 3)
    for tname in sorted(cached):
        ti = templates[tname]
        # objects with identity created by the module body (the body runs once, when the module is first imported)
        state: dict[str, int] = {}
        for n in _own_template_nodes(ti.tree.body, nodes):
            if isinstance(n, nodes.Assign) and isinstance(n.target, nodes.Name):
                v = n.node
                if isinstance(v, (nodes.List, nodes.Dict)) or (isinstance(v, nodes.Call) and isinstance(v.node, nodes.Name) and v.node.name in STATEFUL_CTORS):
                    state[n.target.name] = n.lineno
        writes: list[tuple[str, str, int]] = []
        for m in ti.tree.find_all(nodes.Macro):
            shadow = {a.name for a in m.args}
            for n in _own_template_nodes(m.body, nodes):
                hit = None
                if isinstance(n, nodes.NSRef) and n.name in state and n.name not in shadow:
                    hit = n.name
                elif isinstance(n, nodes.Call) and isinstance(n.node, nodes.Getattr) and n.node.attr in MUTATORS and \
                        isinstance(n.node.node, nodes.Name) and n.node.node.name in state and n.node.node.name not in shadow:
                    hit = n.node.node.name
                elif isinstance(n, nodes.Call) and isinstance(n.node, nodes.Name) and n.node.name in state and n.node.name not in shadow:
                    hit = n.node.name  # joiner() / cycler: calling the object advances it
                if hit is not None:
                    writes.append((hit, m.name, getattr(n, "lineno", m.lineno)))
        if not writes:
            rep.ok("R12.4", f"{tname}::module-state", sorted(state), "no macro writes to a module-level object")
            continue
        for var, mname, line in sorted(set((v, m_, 0) for v, m_, _ in writes)):
            ln = min(l for v, m_, l in writes if (v, m_) == (var, mname))
            rep.fail("R12.4", f"{tname}::{mname}::writes {var}",
                     f"macro `{mname}` writes to `{var}`, an object created at the top level of {tname} (line {state[var]}); the template is "
                     f"imported without context ({cached[tname]}), so Jinja creates its module once per Environment and the object "
                     "lives for the whole run: what is emitted depends on which schemas / operations were rendered before",
                     where=f"{PKG}/templates/{tname}:{ln}", lhs=var, rhs="state declared inside the macro (per call) or in the rendered template")
