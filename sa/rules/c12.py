"""C12 - same document, same bytes: deterministic and order-independent."""
from __future__ import annotations

import ast
from typing import Any

from ..astutil import Locals, call_name, constructs_error, error_names, norm, role_anon, short, where
from ..core import PKG, Report
from ..pyindex import dotted

LEVEL = ("hash-seed clause: every place where the ORDER of a set-typed value is observed (Python for/comprehension/join/"
         "list()/next(iter())/pop(); Jinja for/join/list/first) is enumerated from the typed program (abstract interpreter "
         "types for Python, template interpreter for Jinja); each is sorted, a proven singleton, feeds an order-insensitive "
         "update, or is a frozen diagnostics-only case. Environment-dependent sources are enumerated. Permutation clause "
         "(narrow): aggregates are sorted, worklist rounds reset their errors, suffix tests on reference paths are "
         "separator-anchored, re-registrations of shared classes are monotone.")

# unsorted iterations over sets whose order can only reach diagnostics text or idempotent removals (confirmed by reading)
FROZEN = {
    "parser.properties._process_model_errors::for <each model_errors[0]>.roots":
        "order reaches only the text of the error detail (list of removed references) and idempotent removals",
    "parser.properties._propogate_removal::for schemas.dependencies.get(root, set())":
        "order reaches only the text of the error detail and idempotent removals (pop/del guarded by membership)",
}
ENV_SOURCES = ("time.time", "time.monotonic", "datetime.now", "datetime.utcnow", "datetime.today", "date.today", "random.",
               "uuid.uuid1", "uuid.uuid4", "os.getpid", "os.listdir", "os.scandir", "glob.glob", "os.environ", "os.getenv",
               "socket.gethostname", "getpass.getuser", "secrets.")


def _is_set(av: Any) -> bool:
    return av is not None and "set" in av.types and not (av.types & {"list", "sortedlist", "tuple"})


def _insensitive_body(body: list[ast.stmt]) -> bool:
    """the loop body only performs keyed/idempotent updates (set.add/update/discard, dict[key]=, membership tests)"""
    for st in body:
        if isinstance(st, (ast.Pass, ast.Continue)):
            continue
        if isinstance(st, ast.If):
            if not _insensitive_body(st.body) or not _insensitive_body(st.orelse):
                return False
            continue
        if isinstance(st, ast.Expr) and isinstance(st.value, ast.Call) and isinstance(st.value.func, ast.Attribute) and \
                st.value.func.attr in ("add", "update", "discard", "add_dependencies", "setdefault"):
            continue
        return False
    return True


def run(rep: Report, ctx: Any) -> str:
    ix = ctx.py
    it, ji = ctx.flow
    rep.rule("R12.1", "no observation of the order of a set reaches generated output: sorted / singleton / order-insensitive / "
                      "diagnostics-only (frozen); no environment-dependent source is used")
    rep.rule("R12.2", "aggregates are emitted through a sort; worklist rounds take errors from the last round only; suffix tests "
                      "on reference paths are separator-anchored; updates of already registered classes are monotone")
    rep.assumptions.append("dict iteration order is insertion order (language guarantee); only set/frozenset order is hash-dependent")

    n_py = 0
    for f in ix.all_functions:
        if f.module.name.startswith(f"{PKG}.schema"):
            continue
        for n in ast.walk(f.node):
            sites: list[tuple[ast.expr, str, ast.AST]] = []
            if isinstance(n, (ast.For, ast.AsyncFor)):
                sites.append((n.iter, f"for {role_anon(n.iter, f.node)}", n))
            elif isinstance(n, (ast.ListComp, ast.GeneratorExp, ast.DictComp)):
                for g in n.generators:
                    sites.append((g.iter, f"comprehension over {role_anon(g.iter, f.node)}", n))
            elif isinstance(n, ast.Call):
                cn = call_name(n)
                if cn in ("list", "tuple", "next", "iter", "enumerate", "zip") and n.args:
                    inner = n.args[0]
                    if cn == "next" and isinstance(inner, ast.Call) and call_name(inner) == "iter" and inner.args:
                        inner = inner.args[0]
                    sites.append((inner, f"{cn}({role_anon(inner, f.node)})", n))
                elif isinstance(n.func, ast.Attribute) and n.func.attr == "join" and n.args:
                    sites.append((n.args[0], f"join({role_anon(n.args[0], f.node)})", n))
                elif isinstance(n.func, ast.Attribute) and n.func.attr == "pop" and not n.args:
                    sites.append((n.func.value, f"{role_anon(n.func.value, f.node)}.pop()", n))
            elif isinstance(n, ast.JoinedStr):
                for v in n.values:
                    if isinstance(v, ast.FormattedValue):
                        sites.append((v.value, f"f-string of {role_anon(v.value, f.node)}", n))
            for expr, desc, node in sites:
                av = it.node_av.get(id(expr))
                if not _is_set(av):
                    continue
                if isinstance(expr, ast.Call) and call_name(expr) == "sorted":
                    continue
                n_py += 1
                key = f"{short(f)}::{desc}"
                if isinstance(node, ast.SetComp) or (isinstance(node, (ast.GeneratorExp, ast.ListComp)) and _feeds_set_or_sorted(f.node, node)):
                    rep.ok("R12.1", key, "set", "feeds a set / sorted(): order not observed")
                    continue
                if key in FROZEN:
                    rep.ok("R12.1", key, "frozen", FROZEN[key], nontrivial=False)
                    continue
                if isinstance(node, (ast.For, ast.AsyncFor)) and _insensitive_body(node.body):
                    rep.ok("R12.1", key, "set", "loop body performs only keyed / idempotent updates")
                    continue
                if _singleton_guard(f.node, node, expr):
                    rep.ok("R12.1", key, "set", "singleton by a dominating len(...) test")
                    continue
                if isinstance(node, ast.JoinedStr) and _only_in_error(f.node, node):
                    rep.ok("R12.1", key, "set", "formatted into an error detail only")
                    continue
                rep.fail("R12.1", key, f"the iteration order of the set `{norm(expr)}` is observed here and is not sorted, a singleton, "
                                       "or an order-insensitive update: output may depend on PYTHONHASHSEED", where(f, node),
                         lhs=sorted(av.types), rhs="sorted(...) / singleton / keyed update")
    rep.floor("python_set_order_observations", n_py, 5)

    # templates
    n_t = 0
    for k, itn in sorted(ji.iterations.items(), key=lambda kv: (kv[1].template, kv[1].macro, kv[1].expr, kv[1].kind)):
        if "set" not in itn.types or itn.kind in ("list",):
            continue
        n_t += 1
        key = f"{itn.template}::{itn.macro}::{itn.kind} {itn.expr}"
        rep.check(False, "R12.1", key, f"`{itn.expr}` is a set and is iterated ({itn.kind}) without `| sort`: the emitted order depends "
                                       "on string hashing", where=f"{PKG}/templates/{itn.template}:{itn.line}",
                  lhs=sorted(itn.types), rhs="| sort")
    for k, itn in sorted(ji.iterations.items(), key=lambda kv: (kv[1].template, kv[1].macro, kv[1].expr)):
        if itn.sorted_ and itn.kind == "for":
            n_t += 1
            rep.ok("R12.1", f"{itn.template}::{itn.macro}::for {itn.expr}", "sorted", "| sort / dictsort")
    rep.floor("template_order_observations", n_t, 6)
    # sorted aggregates: every template `for` over an import/alls collection is sorted
    for k, itn in sorted(ji.iterations.items()):
        if itn.kind == "for" and itn.expr.split("|")[0] in ("imports", "alls") and itn.template == "models_init.py.jinja":
            rep.check(itn.sorted_, "R12.2", f"{itn.template}::for {itn.expr}", "aggregate over all schemas is not sorted",
                      where=f"{PKG}/templates/{itn.template}:{itn.line}", lhs=itn.expr, rhs="| sort")

    # environment sources
    n_env = 0
    for f in ix.all_functions:
        for n in ast.walk(f.node):
            txt = None
            if isinstance(n, ast.Call):
                txt = call_name(n)
            elif isinstance(n, ast.Attribute):
                txt = dotted(n)
            if txt and any(s in txt + ("" if txt.endswith(".") else "") for s in ENV_SOURCES):
                if isinstance(n, ast.Attribute) and any(isinstance(p, ast.Call) and p.func is n for p in ast.walk(f.node)):
                    continue
                n_env += 1
                rep.fail("R12.1", f"{short(f)}::{txt}", f"environment-dependent source `{txt}` is used by the generator", where(f, n))
    rep.control("R12.1 env-source table", any(s in "time.time" for s in ENV_SOURCES) and any(s in "random.choice" for s in ENV_SOURCES))
    rep.indexed["environment_sources"] = n_env

    # ---- R12.2 ------------------------------------------------------------------------------------------------------
    # errors reset per round in the three progress loops
    n_w = 0
    for f in ix.all_functions:
        for n in ast.walk(f.node):
            # round loops: `while <flag>:` whose body first clears the flag (other worklist shapes are not rounds)
            if isinstance(n, ast.While) and isinstance(n.test, ast.Name) and any(
                    isinstance(a, ast.Assign) and norm(a.targets[0]) == n.test.id and isinstance(a.value, ast.Constant) and a.value.value is False for a in n.body):
                n_w += 1
                # roles: the work list is iterated inside the round and re-assigned from the next-round list at its end; an error
                # list must be reset per round iff some error is appended to it in a block that also re-queues the item
                work = {norm(lp.iter) for lp in ast.walk(n) if isinstance(lp, ast.For) and isinstance(lp.iter, ast.Name)}
                nxt = {norm(a.value) for a in n.body if isinstance(a, ast.Assign) and norm(a.targets[0]) in work and isinstance(a.value, ast.Name)}
                errs = error_names(f.node)

                def is_err(a: ast.AST) -> bool:
                    return constructs_error(a) or (isinstance(a, ast.Name) and a.id in errs) or \
                        (isinstance(a, ast.Tuple) and any(isinstance(x, ast.Name) and x.id in errs for x in a.elts))

                err_lists = set()
                for blk in [getattr(b, fld) for b in ast.walk(n) for fld in ("body", "orelse") if isinstance(getattr(b, fld, None), list)]:
                    apps = [(norm(s_.value.func.value), s_.value) for s_ in blk if isinstance(s_, ast.Expr) and isinstance(s_.value, ast.Call)
                            and isinstance(s_.value.func, ast.Attribute) and s_.value.func.attr == "append" and s_.value.args]
                    if any(r in nxt for r, _ in apps):
                        err_lists |= {r for r, c in apps if r not in nxt and isinstance(c.func.value, ast.Name) and is_err(c.args[0])}
                rep.check(bool(nxt) and bool(err_lists), "R12.2", f"{short(f)}::round-structure", "the progress loop has no next-round list / no "
                          "per-round error list", where(f, n), lhs=[sorted(nxt), sorted(err_lists)], rhs="work list re-assigned, errors recorded with the re-queue")
                for i_, el in enumerate(sorted(err_lists)):
                    reset = any(isinstance(s, ast.Assign) and norm(s.targets[0]) == el and isinstance(s.value, ast.List) and not s.value.elts
                                for s in n.body)
                    rep.check(reset, "R12.2", f"{short(f)}::round-errors#{i_}",
                              f"`{el}` accumulates over rounds: whether an error is reported would depend on the order of definitions",
                              where(f, n), lhs=el, rhs="reset to [] at the head of every round")
    rep.floor("progress_loops", n_w, 3)
    # separator-anchored suffix tests on references
    n_s = 0
    for f in ix.all_functions:
        refs = ({"ref_path"} & {p_.arg for p_ in f.params}) | set(Locals(f.node).bound_from(lambda v: v.startswith("parse_reference_path("), "assign"))
        for n in ast.walk(f.node):
            if isinstance(n, ast.Call) and isinstance(n.func, ast.Attribute) and n.func.attr == "endswith" and \
                    (norm(n.func.value).endswith(".ref") or norm(n.func.value) in refs) and n.args:
                n_s += 1
                a = n.args[0]
                anchored = False
                if isinstance(a, ast.JoinedStr) and a.values and isinstance(a.values[0], ast.Constant) and str(a.values[0].value).startswith("/"):
                    anchored = True
                if isinstance(a, ast.Constant) and str(a.value).startswith("/"):
                    anchored = True
                if isinstance(a, ast.Name) and a.id in refs:
                    anchored = True  # a full reference path always starts with '/'
                rep.check(anchored, "R12.2", f"{short(f)}::endswith({role_anon(a, f.node)[:40]})",
                          "suffix test on a reference without the `/` separator: a schema whose name is a suffix of another's is "
                          "confused with it (outcome then depends on the order of definitions)", where(f, n),
                          lhs=norm(n)[:80], rhs="argument starts with '/' or is a full reference path")
    rep.floor("reference_suffix_tests", n_s, 3)
    # monotone re-registration
    n_m = 0
    for f in ix.all_functions:
        for n in ast.walk(f.node):
            if isinstance(n, ast.Call) and call_name(n).endswith("evolve"):
                for kw in n.keywords:
                    if kw.arg == "is_multipart_body":
                        n_m += 1
                        rep.check(isinstance(kw.value, ast.Constant) and kw.value.value is True, "R12.2",
                                  f"{short(f)}::evolve(is_multipart_body)", "a flag of an already registered (shared) class is set "
                                  "from the current item: the last operation parsed wins, so output depends on the order of paths",
                                  where(f, n), lhs=norm(kw.value), rhs="constant True (monotone)")
    rep.floor("shared_class_flag_updates", n_m, 1)
    rep.not_decided += ["invariance under permutation as such (class-name collisions and {name}_type_{i} numbering are order-sensitive "
                        "by construction; the property restricts itself to documents without diagnostics)"]
    return LEVEL


def _feeds_set_or_sorted(fn: ast.AST, comp: ast.AST) -> bool:
    for n in ast.walk(fn):
        if isinstance(n, ast.Call) and call_name(n) in ("sorted", "set", "frozenset", "any", "all", "sum", "len", "min", "max") and n.args \
                and n.args[0] is comp:
            return True
    return False


def _singleton_guard(fn: ast.AST, node: ast.AST, expr: ast.expr) -> bool:
    """node is inside `if len(X) == 1:` (or after an early return on len(X) > 1 / != 1) for the same X"""
    x = norm(expr)
    for n in ast.walk(fn):
        if isinstance(n, ast.If) and f"len({x})" in norm(n.test):
            t = norm(n.test)
            if "== 1" in t and any(s is node for b in n.body for s in ast.walk(b)):
                return True
            if ("> 1" in t or "!= 1" in t) and any(isinstance(s, ast.Return) for s in n.body) and \
                    getattr(node, "lineno", 0) > n.lineno:
                return True
    return False


def _only_in_error(fn: ast.AST, node: ast.AST) -> bool:
    for n in ast.walk(fn):
        if isinstance(n, ast.Call) and call_name(n).rsplit(".", 1)[-1] in ("PropertyError", "ParseError", "ParameterError", "GeneratorError"):
            if any(s is node for s in ast.walk(n)):
                return True
    return False
